"""C10 String and bytes literals keep their exact values (DESIGN.md section 5, C10).

Workload: generated .py / .pyx modules (UTF-8, UTF-8 with BOM, Latin-1 with coding cookie); every function returns one
literal (all prefixes, quote styles, escapes, implicit concatenation, code point classes, lengths up to 70 000); .pyx
modules add `const char*`, `unsigned char`, `Py_UCS4`, `c'x'`, typed `str`/`bytes` forms.  Modules carry compressible
padding so that the module string table is compressed.
Oracle: CPython importing the same source file (for .pyx: an equivalent Python module).  The generated C of each module
is built once per CYTHON_COMPRESS_STRINGS setting (0, 1, 2, 90, and 3 = unavailable algorithm) and each build runs in
its own driver processes; all must agree with CPython."""
import os
import re

from vlib import cy, diff
from vlib.gen import strlits

SETTINGS = [0, 1, 2, 90, 3]
ALGO_OF = {0: 'none', 1: 'zlib', 2: 'bz2', 3: 'zstd', 90: 'lzss'}
GENERIC = {'ascii', 'single', 'triple', 'other-quote', 'ascii-special', 'implicit-concat', 'long', 'triple-body'}

CANON = {       # one canonical literal per feature (always part of the workload): used to attribute mixed literals
    'str': {
        'esc-simple': r"'a\n\\\'\"\a\b\f\r\t\vz'", 'esc-octal': r"'\1\12\101\377|'", 'esc-octal-nul': r"'a\0b\000c'",
        'esc-octal-over-377': r"u'\400\777'", 'esc-octal-over-377-unprefixed': r"'\400\777'",
        'esc-name-with-digit': r"'\N{CJK UNIFIED IDEOGRAPH-4E2D}'", 'esc-hex': r"'\x41\x7f'", 'esc-hex-nul': r"'a\x00b'",
        'esc-hex-high': r"'\x80\xe9\xff'", 'esc-name': r"'\N{EURO SIGN}\N{GRINNING FACE}\N{LF}'",
        'esc-u4': r"'\u0041\u20ac\uffff'", 'esc-u4-nul': r"'a\u0000b'", 'esc-u4-surrogate': r"'\ud800'",
        'esc-U8': r"'\U00000041\U0000ffff'", 'esc-U8-astral': r"'\U0001f600\U0010ffff'", 'esc-U8-nul': r"'\U00000000'",
        'esc-U8-surrogate': r"'\U0000dfff'", 'line-continuation': "'a\\\nb'", 'esc-unknown': r"'\d\ \%\8\z'",
        'literal-latin1': "'é×'", 'literal-bmp': "'€中'", 'literal-astral': "'\U0001F600'",
        'raw-backslash': r"r'\n\x41\u0041\'\\'", 'raw-backslash-newline': "r'a\\\nb'",
        'backslash-u-not-escape': r"r'\u0041'", 'backslash-U-not-escape': r"r'\U00000041'",
        'backslash-N-not-escape': r"r'\N{LF}'",
    },
    'bytes': {
        'esc-simple': r"b'a\n\\\'\"\a\b\f\r\t\vz'", 'esc-octal': r"b'\1\12\101\377|'", 'esc-octal-nul': r"b'a\0b\000c'",
        'esc-octal-over-377': r"b'\400\777'", 'esc-hex': r"b'\x41\x7f'", 'esc-hex-nul': r"b'a\x00b'",
        'esc-hex-high': r"b'\x80\xe9\xff'", 'line-continuation': "b'a\\\nb'", 'esc-unknown': r"b'\d\ \%\8\z'",
        'raw-backslash': r"rb'\n\x41\'\\'", 'raw-backslash-newline': "rb'a\\\nb'",
        'backslash-u-not-escape': r"b'\u0041'", 'backslash-U-not-escape': r"b'\U00000041'",
        'backslash-N-not-escape': r"b'\N{LF}'",
    },
}

PAD_TEXT = ''.join('padding line %04d: the quick brown fox jumps over the lazy dog; ' % (i % 37) for i in range(90))


# ----------------------------------------------------------------------------------------------- modules

class Mod:
    def __init__(self, name, ext, encoding, bom=False):
        self.name, self.ext, self.encoding, self.bom = name, ext, encoding, bom
        self.funcs = []          # dicts: name, form, lit (record), src (module text), ref (reference text)

    def header(self):
        h = ''
        if self.encoding == 'latin-1':
            h += '# -*- coding: latin-1 -*-\n'
        h += '# cython: language_level=3\n'
        return h

    def text(self, which):
        body = ''.join(f[which] for f in self.funcs)
        pad = 'PAD = """%s"""\ndef pad():\n    return PAD\n' % PAD_TEXT
        return (self.header() if which == 'src' else self.header().replace('# cython: language_level=3\n', '')) + pad + body

    def data(self, which):
        b = self.text(which).encode(self.encoding)
        if self.bom:
            b = b'\xef\xbb\xbf' + b
        return b


def add_function(mod, idx, lit, rng):
    name = 'fz%dz' % idx
    form = 'ret'
    v = lit['value']
    src = ref = None
    if mod.ext == '.pyx' and rng.random() < 0.35:
        if lit['kind'] == 'bytes':
            r = rng.random()
            if len(v) == 1 and r < 0.6:
                form = 'uchar'
                src = 'def %s():\n    cdef unsigned char c = %s\n    return c\n' % (name, lit['src'])
                ref = 'def %s():\n    return (%s)[0]\n' % (name, lit['src'])
            elif r < 0.5:
                form = 'charptr'
                src = 'def %s():\n    cdef const char* s = %s\n    return s\n' % (name, lit['src'])
                ref = 'def %s():\n    return (%s).split(b"\\x00")[0]\n' % (name, lit['src'])
            else:
                form = 'typed-bytes'
                src = 'def %s():\n    cdef bytes s = %s\n    return s\n' % (name, lit['src'])
        else:
            r = rng.random()
            if len(v) == 1 and r < 0.6:
                form = 'ucs4'
                src = 'def %s():\n    cdef Py_UCS4 c = %s\n    return c\n' % (name, lit['src'])
            else:
                form = 'typed-str'
                src = 'def %s():\n    cdef str s = %s\n    return s\n' % (name, lit['src'])
    if src is None:
        src = 'def %s():\n    return %s\n' % (name, lit['src'])
    if ref is None:
        ref = 'def %s():\n    return %s\n' % (name, lit['src'])
    mod.funcs.append({'name': name, 'form': form, 'lit': lit, 'src': src, 'ref': ref})


def one_char_literals(rng, n):
    """literals whose value has length 1 (for unsigned char / Py_UCS4 / c'x' forms)"""
    out = []
    forms_b = [r"b'A'", r"b'\n'", r"b'\0'", r"b'\x00'", r"b'\xff'", r"b'\x80'", r"b'\''", r'b"\""', r"b'\\'", r"b'\177'",
               r"b'\377'", r"b' '", r"b'\t'", r"b'\x7f'", r"b'\101'", r"rb'x'", r'b"""z"""']
    forms_s = [r"'A'", r"'\n'", r"'\0'", r"'\xe9'", r"'\xff'", r"'\u20ac'", r"'\U0001f600'", r"'\ud800'", r"'\udfff'",
               r"'\N{SNOWMAN}'", "'é'", "'€'", "'\U0001F600'", r"'\U0010ffff'", r"'\''", r"'\\'", r"'\x00'", r"'\uffff'",
               r"u'\400'", r"u'\x7f'", r'"""x"""']
    for i in range(n):
        src = rng.choice(forms_b if i % 2 else forms_s)
        ok, v = strlits.evaluate(src)
        out.append({'src': src, 'kind': 'bytes' if i % 2 else 'str', 'feats': ['one-char'], 'value': v})
    return out


GATED = {'esc-octal-over-377-unprefixed': 'octal-over-377', 'esc-name-with-digit': 'name-with-digit'}


def canon_literals():
    out = []
    for kind, d in CANON.items():
        for feat, src in d.items():
            if GATED.get(feat) in strlits.EXCLUDE or (kind == 'bytes' and feat == 'esc-octal-over-377'
                                                      and 'octal-over-377' in strlits.EXCLUDE):
                continue
            ok, v = strlits.evaluate(src)
            assert ok, src
            out.append({'src': src, 'kind': kind, 'feats': [feat, 'canonical'], 'value': v})
    return out


def preflight(tree):
    """forms that the tree under observation rejects outright (compiler error or crash on a valid literal) are left out
    of the workload - one such literal would take its whole module with it; the rejection itself is C43's matter"""
    probes = {'octal-over-377': "x = '\\400'\ny = b'\\400'\n", 'name-with-digit': "x = '\\N{CJK UNIFIED IDEOGRAPH-4E2D}'\n"}
    d = tree.subdir('preflight')
    jobs, names = [], []
    for k, text in probes.items():
        p = os.path.join(d, 'pf_%s.py' % k.replace('-', '_'))
        with open(p, 'w') as fh:
            fh.write('# cython: language_level=3\n' + text)
        jobs.append({'src': p})
        names.append(k)
    res, _ = tree.translate(jobs, nworkers=1)
    out = {}
    for k, r in zip(names, res):
        if not r['ok']:
            out[k] = ((r.get('exc') or '') + (r.get('errors') or '')).strip().splitlines()[-1][-200:]
    return out


def workload(ck):
    rng = ck.rng('lits')
    mods = []
    idx = [0]

    def fill(mod, lits):
        for lit in lits:
            if mod.encoding == 'latin-1':
                try:
                    lit['src'].encode('latin-1')
                except UnicodeEncodeError:
                    continue
            add_function(mod, idx[0], lit, rng)
            idx[0] += 1
        mods.append(mod)

    if ck.quick:
        plan = [('c10p0', '.py', 'utf-8', False, 330), ('c10p1', '.py', 'utf-8', True, 250),
                ('c10p2', '.py', 'latin-1', False, 250), ('c10x3', '.pyx', 'utf-8', False, 330),
                ('c10x4', '.pyx', 'latin-1', False, 250)]
    else:
        plan = []
        for i in range(20):
            ext = '.py' if i % 2 == 0 else '.pyx'
            enc, bom = [('utf-8', False), ('utf-8', True), ('latin-1', False), ('utf-8', False)][(i // 2) % 4]
            plan.append(('c10%s%d' % ('p' if ext == '.py' else 'x', i), ext, enc, bom, 1050))
    for pi, (name, ext, enc, bom, n) in enumerate(plan):
        mod = Mod(name, ext, enc, bom)
        lits = []
        if pi in (0, 3) or (not ck.quick and pi % 8 in (0, 1)):
            lits += canon_literals()
        lits += strlits.generate(rng, n, encoding=enc, long_share=0.004 if ck.quick else 0.002)
        if ext == '.pyx':
            lits += one_char_literals(rng, 40 if ck.quick else 120)
        fill(mod, lits)
    # the long-literal module(s): every boundary length, str and bytes
    nlong = 1 if ck.quick else 2
    for k in range(nlong):
        mod = Mod('c10L%d' % k, '.py' if k == 0 else '.pyx', 'utf-8', False)
        lits = []
        for ln in strlits.LONG_LENGTHS:
            for kind in ('str', 'bytes'):
                src, feats = strlits.long_literal(rng, kind, ln + (k * 3), 'utf-8')
                ok, v = strlits.evaluate(src)
                if ok:
                    lits.append({'src': src, 'kind': kind, 'feats': sorted(feats | {'len-%d' % ln}), 'value': v})
        fill(mod, lits)
    # the repeat-geometry modules: one substring twice per literal, at every gap / length boundary of the back-reference
    # encodings of the table compressors (all small gaps x all lengths; large gaps x a sample of lengths in quick)
    if ck.quick:        # one module (.py or .pyx by seed); thorough: both
        rmods = [Mod('c10R0', rng.choice(['.py', '.pyx']), 'utf-8', False)]
    else:
        rmods = [Mod('c10R0', '.py', 'utf-8', False), Mod('c10R1', '.pyx', 'utf-8', False)]
    rlits = [[] for _ in rmods]
    lengths = strlits.rep_lengths(rng, ck.quick)
    geo = [(g, n) for g in strlits.rep_gaps(True, ck.quick) for n in lengths]
    for g in strlits.rep_gaps(False, ck.quick):
        if ck.quick:
            geo += [(g, rng.choice([n for n in lengths if n < 35])), (g, rng.choice([n for n in lengths if n >= 35]))]
        else:
            geo += [(g, n) for n in lengths]
    for _ in range(ck.pick(40, 400)):        # random geometries (log-uniform gap and length)
        geo.append((int(2 ** rng.uniform(0, 14.1)) - 1, 3 + int(2 ** rng.uniform(0, 8.5)) - 1))
    for serial, (g, n) in enumerate(geo):
        kind = rng.choice(['str', 'bytes'])
        src, feats = strlits.repeat_literal(rng, kind, g, n, serial % 4096, wide=rng.random() < 0.3)
        ok, v = strlits.evaluate(src)
        if ok and strlits.repeat_value_gap(v) == (g, n):
            rlits[rng.randrange(len(rlits))].append({'src': src, 'kind': kind, 'feats': sorted(feats), 'value': v, 'geometry': (g, n)})
    for mod, lits in zip(rmods, rlits):
        fill(mod, lits)
    return mods


# ----------------------------------------------------------------------------------------------- build

LADDER = re.compile(r'#\s*(?:if|elif)\s+(.*?)\s*/\* compression: (\w+) \((\d+) bytes\) \*/')


def ladder_of(ctext):
    algos = [(m.group(2), int(m.group(3))) for m in LADDER.finditer(ctext)]
    m = re.search(r'/\* compression: none \((\d+) bytes\) \*/', ctext)
    return algos, (int(m.group(1)) if m else None)


def effective_algo(setting, algos):
    names = [a for a, _ in algos]
    if setting == 0 or not names:
        return 'none'
    want = ALGO_OF[setting]
    if want in names and want != 'zstd':      # zstd needs Python >= 3.14 at C level
        return want
    if 'lzss' in names and 0 < setting <= 90:
        return 'lzss'
    return 'none'


def specific(feats):
    return sorted(f for f in feats if f not in GENERIC and not f.startswith('prefix-') and not f.startswith('len-')
                  and f not in ('canonical', 'one-char', 'long-with-specials'))


# ----------------------------------------------------------------------------------------------- main

def main(ck):
    tree = cy.Tree('C10')
    rejected_forms = preflight(tree)
    strlits.EXCLUDE = set(rejected_forms)
    mods = workload(ck)
    srcdir = tree.subdir('src')
    refdir = tree.subdir('ref')
    dropped = []
    pending = list(mods)
    for attempt in range(3):
        if not pending:
            break
        jobs = []
        for mod in pending:
            p = os.path.join(srcdir, mod.name + mod.ext)
            with open(p, 'wb') as fh:
                fh.write(mod.data('src'))
            with open(os.path.join(refdir, 'ref_' + mod.name + '.py'), 'wb') as fh:
                fh.write(mod.data('ref'))
            mod.path = p
            jobs.append({'src': p})
        res, _ = tree.translate(jobs)
        nxt = []
        for mod, r in zip(pending, res):
            mod.result = r
            if r['ok'] or r.get('exc') or attempt == 2:
                continue
            errs = r.get('errors') or ''
            bad_lines = set()
            for ln in errs.splitlines():
                m = re.search(r'%s:(\d+):\d+:' % re.escape(mod.name + mod.ext), ln)
                if m and not ln.startswith('warning:'):
                    bad_lines.add(int(m.group(1)))
            # map lines to functions
            line = mod.text('src')[:len(mod.text('src')) - len(''.join(f['src'] for f in mod.funcs))].count('\n')
            keep = []
            for f in mod.funcs:
                n = f['src'].count('\n')
                if any(line < b <= line + n for b in bad_lines):
                    msg = next((x for x in errs.splitlines() if re.search(r':(%s):' % '|'.join(
                        str(k) for k in range(line + 1, line + n + 1)), x)), '')
                    dropped.append({'literal': f['lit']['src'][:120], 'form': f['form'], 'file': mod.ext + '/' + mod.encoding,
                                    'error': msg[-160:]})
                else:
                    keep.append(f)
                line += n
            if len(keep) < len(mod.funcs):
                mod.funcs = keep
                nxt.append(mod)
        pending = nxt
    res = [m.result for m in mods]
    ck.cov['t_translate_s'] = round(ck.elapsed(), 1)
    settings = SETTINGS if not ck.quick else [0, 1, 2, 90]
    builds = []      # (mod, setting, dir)
    items = []
    translate_failed = 0
    for mod, r in zip(mods, res):
        mod.ok = bool(r['ok'])
        mod.errors = (r.get('exc') or '') + (r.get('errors') or '')
        if not mod.ok:
            translate_failed += 1
            ck.note('translation of %s failed: %s' % (mod.name, mod.errors[-600:]))
            continue
        mod.c = r['c']
        ctext = open(mod.c, encoding='utf-8', errors='replace').read()
        mod.algos, mod.plain_size = ladder_of(ctext)
        mod.has_ladder_macro = 'CYTHON_COMPRESS_STRINGS' in ctext
        mod.lzss_tokens = strlits.lzss_tokens_of_c(ctext, mod.plain_size)
        for st in settings:
            d = tree.subdir('b%d' % st)
            so = os.path.join(d, mod.name + cy.EXT_SUFFIX)
            items.append((mod.c, {'so': so, 'cflags': ['-DCYTHON_COMPRESS_STRINGS=%d' % st]}))
            builds.append((mod, st, d))
    bres = tree.cbuild_many(items)
    ck.cov['t_build_s'] = round(ck.elapsed(), 1)
    total_n = 0
    samples = []
    cells = {}
    not_exercised = []
    build_failed = 0
    per_func = {}        # (mod, func) -> {setting: (exp, got)} for mismatches
    judged = {}          # (mod, func) -> settings judged
    hist = {}
    from concurrent.futures import ThreadPoolExecutor

    def run_one(item):
        (mod, st, d), b = item
        if not b['ok']:
            return None
        cases = [{'f': f['name'], 'a': '()', 't': '%s/%s' % (f['form'], f['lit']['kind'])} for f in mod.funcs]
        cases.append({'f': 'pad', 'a': '()', 't': 'pad'})
        return diff.run_cases(tree, d, mod.name, cases, ref_mod='ref_' + mod.name, extra_path=(refdir,),
                              compare={'log': False}, tagdir='run_%s_%d' % (mod.name, st), timeout=900, nproc=2)

    with ThreadPoolExecutor(6) as ex:
        runs = list(ex.map(run_one, zip(builds, bres)))
    for ((mod, st, d), b), r in zip(zip(builds, bres), runs):
        eff = effective_algo(st, mod.algos)
        cell = '%s/%s/%s' % (mod.ext, mod.encoding + ('+bom' if mod.bom else ''), ALGO_OF[st])
        if not b['ok']:
            build_failed += 1
            ck.note('C build of %s with CYTHON_COMPRESS_STRINGS=%d failed: %s' % (mod.name, st, b['err'][-400:]))
            continue
        if eff != ALGO_OF[st]:
            not_exercised.append('%s setting %d (%s) falls back to %s: algorithm not in the generated ladder %s' % (
                mod.name, st, ALGO_OF[st], eff, [a for a, _ in mod.algos]))
        for ft in r.fatal:
            ck.discrepancy('module-import:%s:%s' % (ALGO_OF[st], 'effective-' + eff),
                           'module %s built with CYTHON_COMPRESS_STRINGS=%d could not be imported / driven: %s' % (
                               mod.name, st, str(ft)[-600:]),
                           {'module': mod.name, 'setting': st, 'stderr': str(ft)[-3000:],
                            'module_source_path': mod.path})
        if r.fatal:
            continue
        total_n += r.n
        cells[cell + '->' + eff] = cells.get(cell + '->' + eff, 0) + r.n
        samples.extend(r.samples[:1])
        for k, v in r.hist.items():
            hist[k] = hist.get(k, 0) + v
        for m in r.mismatches:
            per_func.setdefault((mod.name, m['case']['f']), {})[st] = (m['exp'], m['got'])
        for c in r.crashes:
            per_func.setdefault((mod.name, c['case']['f']), {})[st] = (['?'], ['crash', c['kind']])
        for f in mod.funcs:
            judged.setdefault((mod.name, f['name']), set()).add(st)
    # ---- classification
    fmap = {(mod.name, f['name']): (mod, f) for mod in mods for f in mod.funcs}
    canon_bad = set()        # (ext, kind, feature) whose canonical literal mismatches
    for (mname, fname), bysetting in per_func.items():
        if (mname, fname) not in fmap:
            continue
        mod, f = fmap[(mname, fname)]
        if 'canonical' in f['lit']['feats'] and f['form'] in ('ret', 'typed-str', 'typed-bytes'):
            for ft in specific(f['lit']['feats']):
                canon_bad.add((f['lit']['kind'], ft))
    for (mname, fname), bysetting in sorted(per_func.items()):
        if (mname, fname) not in fmap:      # the padding function
            ck.discrepancy('padding-string', 'module padding string differs in %s: %s' % (mname, str(bysetting)[:300]),
                           {'module': mname})
            continue
        mod, f = fmap[(mname, fname)]
        lit = f['lit']
        sts = sorted(bysetting)
        all_sts = sorted(judged.get((mname, fname), ()))
        if sts == all_sts:
            where = 'all-settings'
        else:
            where = 'only-' + '+'.join(sorted({effective_algo(s, mod.algos) for s in sts}))
        sp = specific(lit['feats'])
        guilty = [ft for ft in sp if (lit['kind'], ft) in canon_bad]
        if 'repeat' in lit['feats']:
            cause = 'repeat(%s)' % ','.join(ft for ft in sp if ft.startswith(('gap', 'replen')))
        elif 'canonical' in lit['feats']:
            cause = '+'.join(sp) or 'plain'
        elif guilty:
            cause = '+'.join(guilty)
        elif len(sp) <= 1:
            cause = '+'.join(sp) or ('long' if 'long' in lit['feats'] else 'plain')
        else:
            cause = 'interaction(%s)' % '+'.join(sp)
        exp, got = bysetting[sts[0]]
        def cls(o):
            if o and o[0] == 'ok' and len(o) > 1:
                return 'ok:' + str(o[1][0])
            if o and o[0] in ('exc', 'crash') and len(o) > 1:
                return '%s:%s' % (o[0], o[1])
            return str(o[0]) if o else '?'
        ek, gk = cls(exp), cls(got)
        key = '%s:%s:%s:%s:%s:%s->%s' % (mod.ext.lstrip('.'), f['form'], lit['kind'], cause, where, ek, gk)
        ck.discrepancy(key, '%s literal %s (form %s, file %s %s%s): CPython %s, compiled %s under settings %s' % (
            lit['kind'], lit['src'][:200], f['form'], mod.ext, mod.encoding, '+BOM' if mod.bom else '',
            str(exp)[:300], str(got)[:300], sts),
            {'module_source': mod.header() + f['src'], 'ref_source': f['ref'], 'ext': mod.ext, 'encoding': mod.encoding,
             'bom': mod.bom, 'case': {'f': f['name'], 'a': '()'}, 'settings': sts,
             'cflags': ['-DCYTHON_COMPRESS_STRINGS=%d' % sts[0]], 'directives': {}, 'expected': exp, 'observed': got,
             'compare': {'log': False}, 'features': lit['feats']})
    # ---- reach
    multi = [m.name for m in mods if getattr(m, 'ok', False) and len(m.algos) >= 2]
    exercised = sorted({k.split('->')[1] for k in cells})
    ck.inconclusive_if(not multi, 'no module had a compression ladder with >= 2 algorithms')
    ck.inconclusive_if('lzss' not in exercised or 'none' not in exercised,
                       'lzss and uncompressed string tables were not both exercised (%s)' % exercised)
    ck.inconclusive_if(translate_failed > 0, '%d module(s) failed to translate' % translate_failed)
    ck.inconclusive_if(build_failed > 0, '%d C build(s) failed' % build_failed)
    nontrivial = set()
    for (mname, fname), sts in judged.items():
        mod, f = fmap[(mname, fname)]
        if len(sts) >= 2 and mod.algos:
            nontrivial.add((f['form'], f['lit']['src']))
    # reach of the repeat-geometry workload: back references really present in the emitted lzss streams
    backrefs, at_bound, decoded = {}, {}, 0
    bounds = set(strlits.rep_gaps(True) + strlits.rep_gaps(False))
    for mod in mods:
        toks = getattr(mod, 'lzss_tokens', None)
        if toks is None:
            continue
        decoded += 1
        for form, off, ln in toks:
            k = '%s/%s' % (form, strlits.rep_len_label(ln))
            backrefs[k] = backrefs.get(k, 0) + 1
            if off in bounds:
                at_bound[off] = at_bound.get(off, 0) + 1
    geo_n = sum(1 for m in mods for f in m.funcs if 'repeat' in f['lit']['feats'])
    feat_hist = {}
    for mod in mods:
        for f in mod.funcs:
            for ft in f['lit']['feats']:
                feat_hist[ft] = feat_hist.get(ft, 0) + 1
    return ck.finish(
        total_n, len(nontrivial),
        'every generated literal is returned by one function (forms: plain return; in .pyx also const char*, unsigned '
        'char, Py_UCS4, typed str/bytes) of a module whose generated C is built once per CYTHON_COMPRESS_STRINGS setting; '
        'each (module, setting) runs in its own processes and every value is compared with CPython importing the same '
        'source bytes. distinct_nontrivial = distinct (form, literal text) judged under at least two settings in a module '
        'whose string table has a compressed variant',
        samples,
        extra={'modules': [{'name': m.name, 'ext': m.ext, 'encoding': m.encoding, 'bom': m.bom, 'functions': len(m.funcs),
                            'ladder': getattr(m, 'algos', None), 'plain_bytes': getattr(m, 'plain_size', None)}
                           for m in mods][:12],
               'modules_total': len(mods), 'settings': settings, 'forms_rejected_by_this_tree_and_left_out': rejected_forms, 'cython_rejected_literals': len(dropped),
               'rejected_samples': dropped[:12], 'cells': cells, 'algorithms_exercised': exercised,
               'modules_with_2plus_algorithms': len(multi), 'cells_not_exercised': not_exercised[:20],
               'cells_not_exercised_count': len(not_exercised), 'feature_hist': feat_hist,
               'repeat_geometry': {'literals': geo_n, 'lzss_streams_decoded': decoded, 'lzss_back_references_by_form': backrefs,
                                   'lzss_back_reference_offsets_at_boundaries': {str(k): v for k, v in sorted(at_bound.items())}},
               'forms': _count(f['form'] for m in mods for f in m.funcs),
               'max_literal_chars': max(len(f['lit']['src']) for m in mods for f in m.funcs),
               'outcome_hist': dict(sorted(hist.items(), key=lambda kv: -kv[1])[:20])},
        assumptions=['CPython 3.12.1 importing the same source bytes is the reference (for .pyx: an equivalent Python '
                     'module where `const char*` is modelled as bytes up to the first NUL, `unsigned char` as the byte value, '
                     'Py_UCS4 as the one-character str)',
                     'zstd (setting 3) needs Python >= 3.14 at C level: it is built and run but falls back to lzss here',
                     'f-strings belong to C18; literals CPython rejects are not generated'])


def _count(it):
    out = {}
    for x in it:
        out[x] = out.get(x, 0) + 1
    return out


# ----------------------------------------------------------------------------------------------- replay

def replay(ck, data):
    w = data.get('witness', data)
    if 'module_source' not in w:
        print('witness is not replayable (module import failure); content follows')
        print(str(w)[:3000])
        return 2
    tree = cy.Tree('C10r')
    srcdir, refdir = tree.subdir('src'), tree.subdir('ref')
    enc = w.get('encoding', 'utf-8')
    bom = b'\xef\xbb\xbf' if w.get('bom') else b''
    p = os.path.join(srcdir, 'replaymod' + w.get('ext', '.py'))
    open(p, 'wb').write(bom + w['module_source'].encode(enc))
    hdr = '# -*- coding: latin-1 -*-\n' if enc == 'latin-1' else ''
    open(os.path.join(refdir, 'ref_replaymod.py'), 'wb').write(bom + (hdr + w['ref_source']).encode(enc))
    res, _ = tree.translate([{'src': p}])
    if not res[0]['ok']:
        print('translation failed', (res[0].get('exc') or '') + (res[0].get('errors') or ''))
        return 2
    bad = 0
    for st in w.get('settings') or [90]:
        d = tree.subdir('b%d' % st)
        b = tree.cbuild(res[0]['c'], so=os.path.join(d, 'replaymod' + cy.EXT_SUFFIX),
                        cflags=['-DCYTHON_COMPRESS_STRINGS=%d' % st])
        if not b['ok']:
            print('C build failed', b['err'][-800:])
            continue
        r = diff.run_cases(tree, d, 'replaymod', [w['case']], ref_mod='ref_replaymod', extra_path=(refdir,),
                           compare={'log': False}, nproc=1, tagdir='rr%d' % st)
        for m in r.mismatches:
            print('[setting %d] expected %s\n[setting %d] observed %s' % (st, str(m['exp'])[:500], st, str(m['got'])[:500]))
            bad += 1
        for c in r.crashes:
            print('[setting %d] crash %s' % (st, c['kind']))
            bad += 1
        for ft in r.fatal:
            print('[setting %d] driver failure %s' % (st, str(ft)[-500:]))
            bad += 1
    if bad:
        print('VIOLATION property=%s replay=<replayed>' % ck.pid)
        return 1
    print('replay: no discrepancy reproduced')
    return 0
