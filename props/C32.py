"""C32 C function exception declarations propagate errors faithfully (DESIGN.md section 5, C32).

Generated .pyx modules hold one cdef/cpdef function per (exception specification, return type) whose body behaviour
is selected at run time, and one `def` wrapper per caller context.  Every wrapper reports
(outcome, PyErr_Occurred() left set, unraisable-hook records); the reference is the hand-written specification
model vlib/ref/excspec.py.  A C++ module covers `except +`, `except +Cls`, `except +handler`, `except +*`."""
import re

from vlib import creach, cy, diff
from vlib.gen import excspec as gen
from vlib.ref import excspec as model

PER_MODULE = 6


def beh_kind(meta, beh):
    b = meta['behaviours'][str(beh)]
    if meta.get('cpp'):
        return {'ret': 'ret', 'throw': 'throw:' + b.get('cpp', ''), 'pyerr': 'pyerr'}[b['kind']]
    return gen.BEHAVIOURS[int(beh)]


def outcome_class(obs):
    """structural class of an observation signature produced by vlib.sig on (outcome, pe, unraisable)"""
    try:
        out, pe, unr = obs[1][1]
        o = out[1]
        kind = o[0][1].strip("'")
        if kind == 'ret':
            cls = 'ret-unspecified' if o[1] == ['str', "'*'"] else 'ret'
        else:
            cls = 'exc:' + o[1][1].strip("'")
        if pe[1] == 'True':
            cls += '+pyerr-left-set'
        n = len(unr[1])
        if n:
            cls += '+unraisable*%d' % n
        return cls
    except Exception:
        if obs and obs[0] == 'exc':
            return 'wrapper-raised:' + str(obs[1])
        return 'unparsed'


def classify(meta, beh, exp, got):
    lang = 'cpp' if meta.get('cpp') else ('legacy' if meta.get('legacy') else 'c')
    ec, gc = outcome_class(exp), outcome_class(got)
    if ec == gc:
        gc += '(value-or-args-differ)'
    return '%s:%s:%s:%s:%s:%s->%s' % (lang, meta['spec'], meta['rtype'], meta['ctx'], beh_kind(meta, beh), ec, gc)


def parse_case(case):
    ci, beh, mask = (int(x) for x in case['a'].strip('()').split(','))
    return ci, beh, mask


def cases_for(meta_all, is_cpp):
    cases = []
    for name, meta in meta_all.items():
        for ci in sorted(int(c) for c in meta['ctxs']):
            m = model.for_ctx(meta, ci)
            for beh in sorted(int(b) for b in meta['behaviours']):
                exp = model.cpp_expect(m, beh) if is_cpp else model.expect(m, beh)
                mask = 0
                if exp[0] == ('ret', model.UNSPEC):
                    mask |= 1
                if (exp[0][0] == 'exc' and exp[0][2] is None) or any(a is None for _, a in exp[2]):
                    mask |= 2
                cases.append({'f': name, 'a': '(%d, %d, %d)' % (ci, beh, mask),
                              't': '%s/%s/%s' % (meta['spec'], meta['rtype'], m['ctx'])})
    return cases


def static_reach(ctext, meta_all, reach):
    fb = creach.function_bodies(ctext)
    for cname, body in fb.items():
        m = re.search(r'(?<![a-z])(t\d+)$', cname)
        if m and m.group(1) in meta_all and '__pyx_pf_' in cname:
            reach['callsites_with_PyErr_Occurred_check'] += len(re.findall(r'&& PyErr_Occurred\(\)|if \(unlikely\(PyErr_Occurred\(\)\)\)', body))
            reach['callsites_with_ErrOccurredWithGIL'] += body.count('__Pyx_ErrOccurredWithGIL()')
            reach['callsites_with_cpp_catch'] += body.count('catch(...)')
        if '__Pyx_WriteUnraisable(' in body:
            reach['functions_calling_WriteUnraisable'] += 1


def main(ck):
    tree = cy.Tree('C32')
    combos = gen.combos()
    contexts = ck.pick(gen.QUICK_CONTEXTS, gen.CONTEXTS)
    cpp_contexts = ck.pick(gen.CPP_QUICK_CONTEXTS, gen.CPP_CONTEXTS)
    variants = [('c', False)]
    if not ck.quick:
        variants.append(('legacy', True))
    plans = []      # (variant, modname, src, meta, ext kwargs)
    for vname, legacy in variants:
        for i in range(0, len(combos), PER_MODULE):
            src, meta = gen.gen_module(combos[i:i + PER_MODULE], i, contexts, legacy=legacy)
            plans.append((vname, 'c32%s%d' % (vname[0], i // PER_MODULE), src, meta))
    # C++ module(s): split by wrapper count to keep g++ time low
    tn = list(gen.CPP_TYPES)
    for gi in range(0, len(tn), 3):
        src, meta = gen.gen_cpp_module(tn[gi:gi + 3], cpp_contexts)
        plans.append(('cpp', 'c32x%d' % (gi // 3), src, meta))
    if 'fptr' in cpp_contexts:
        src, meta = gen.gen_cpp_module(['int', 'double', 'void'], ['fptr'], only_specs=['plusstar'], fptr_star=True)
        plans.append(('cpp', 'c32xs', src, meta))

    total_n = 0
    nontrivial = set()
    samples = []
    hist = {}
    cells = set()
    skipped = 0
    reach = {'callsites_with_PyErr_Occurred_check': 0, 'callsites_with_ErrOccurredWithGIL': 0,
             'callsites_with_cpp_catch': 0, 'functions_calling_WriteUnraisable': 0}
    expected_unraisable = 0
    beh_hist = {}
    built = {}
    import time
    from concurrent.futures import ThreadPoolExecutor
    t_build = time.time()

    def build_variant(vname):
        group = [p for p in plans if p[0] == vname]
        srcs = {p[1]: p[2] for p in group}
        d, info = tree.build_sources(srcs, subdir='b_' + vname, ext='.pyx', cplus=(vname == 'cpp'),
                                     directives={'legacy_implicit_noexcept': True} if vname == 'legacy' else None)
        return [(p[1], (d, info[p[1]], p)) for p in group]
    vnames = sorted({p[0] for p in plans})
    with ThreadPoolExecutor(len(vnames)) as ex:      # the variants are translated and built concurrently
        for items in ex.map(build_variant, vnames):
            built.update(items)
    ck.cov['build_wall_s'] = round(time.time() - t_build, 1)
    jobs = []
    for mname, (d, inf, p) in built.items():
        vname, _, src, meta = p
        if not inf['ok'] and mname == 'c32xs' and (inf['crash'] or 'Compiler crash' in inf['errors']):
            # compiler crash on a function pointer declared `except +*` (a declaration this property is about)
            tb = [ln.strip() for ln in inf['errors'].splitlines() if ln.strip()]
            ck.discrepancy('compiler-crash:cpp:plusstar:fptr:' + (tb[-1].split(':')[0] if tb else '?'),
                           'compiler crashes when an `except +*` function is assigned to an `except +*` function pointer: '
                           + (tb[-1] if tb else ''),
                           {'module_source': src, 'ext': '.pyx', 'cplus': True, 'module_name': mname,
                            'observed': inf['errors'][-1500:], 'expected': 'translates'})
            continue
        if not inf['ok']:
            skipped += 1
            ck.note('build failure %s at %s: %s' % (mname, inf['stage'], inf['errors'][-1500:]))
            continue
        static_reach(open(inf['c'], encoding='utf-8', errors='replace').read(), meta, reach)
        refpath = inf['src'] + '.ref.py'
        with open(refpath, 'w') as f:
            f.write(gen.ref_module(meta, cpp=(vname == 'cpp')))
        cases = cases_for(meta, vname == 'cpp')
        jobs.append((mname, d, refpath, cases, meta, src, vname))

    def runjob(j):
        mname, d, refpath, cases, meta, src, vname = j
        return diff.run_cases(tree, d, mname, cases, ref=refpath, compare={'log': False}, tagdir='run_' + mname,
                              timeout=600, nproc=1)
    with ThreadPoolExecutor(8) as ex:
        results = list(ex.map(runjob, jobs))
    for j, res in zip(jobs, results):
        mname, d, refpath, cases, meta, src, vname = j
        total_n += res.n
        samples.extend(res.samples[:1])
        for k, v in res.hist.items():
            hist[k.split('|')[1]] = hist.get(k.split('|')[1], 0) + v
        for c in cases:
            ci, beh, _ = parse_case(c)
            m = model.for_ctx(meta[c['f']], ci)
            bk = beh_kind(m, beh)
            beh_hist[bk.split(':')[0]] = beh_hist.get(bk.split(':')[0], 0) + 1
            cells.add((vname, m['spec'], m['rtype'], m['ctx']))
            exp = model.cpp_expect(m, beh) if vname == 'cpp' else model.expect(m, beh)
            expected_unraisable += len(exp[2])
            b = m['behaviours'][str(beh)]
            if b['kind'] != 'ret' or beh in (0, 4, 7):
                nontrivial.add((vname, m['spec'], m['rtype'], m['ctx'], beh))
        for mm in res.mismatches:
            ci, beh, _ = parse_case(mm['case'])
            m = model.for_ctx(meta[mm['case']['f']], ci)
            key = classify(m, beh, mm['exp'], mm['got'])
            ck.discrepancy(key, '%s %s returning %s, context %s, behaviour %s: model %s, compiled %s' % (
                vname, m['spec'], m['rtype'], m['ctx'], beh_kind(m, beh), mm['exp'], mm['got']),
                {'module_source': src, 'ref_source': open(refpath).read(), 'ext': '.pyx', 'cplus': vname == 'cpp',
                 'module_name': mname, 'case': mm['case'], 'compare': {'log': False},
                 'directives': {'legacy_implicit_noexcept': True} if vname == 'legacy' else None,
                 'expected': mm['exp'], 'observed': mm['got']})
        for c in res.crashes:
            ci, beh, _ = parse_case(c['case'])
            m = model.for_ctx(meta[c['case']['f']], ci)
            ck.discrepancy('crash:%s:%s:%s:%s:%s' % (vname, m['spec'], m['rtype'], m['ctx'], beh_kind(m, beh)),
                           'crash/hang %s' % c['kind'],
                           {'module_source': src, 'ref_source': open(refpath).read(), 'ext': '.pyx',
                            'cplus': vname == 'cpp', 'module_name': mname, 'case': c['case'], 'stderr': c['stderr']})
        for ft in res.fatal:
            ck.inconclusive_if(True, 'driver failed for %s: %s' % (mname, str(ft)[-400:]))
    ck.inconclusive_if(skipped > 0, '%d generated module(s) failed to build' % skipped)
    for k, v in reach.items():
        ck.inconclusive_if(v == 0, 'static reach: no %s' % k)
    ck.inconclusive_if(expected_unraisable == 0, 'no case expects an unraisable record')
    ck.cov['exhaustive'] = True
    return ck.finish(
        total_n, len(nontrivial),
        'full product of exception specification x return type x caller context (one generated wrapper each) x body '
        'behaviour (run-time selected); observation = (returned value or exception type+args, PyErr_Occurred() after the '
        'call, sys.unraisablehook records) compared with the specification model. distinct_nontrivial = distinct '
        '(variant, spec, return type, context, behaviour) whose behaviour raises/throws or returns a sentinel candidate '
        '(plain non-sentinel returns are trivial)',
        samples,
        extra={'modules': len(built), 'cells_spec_x_type_x_context': len(cells), 'variants': sorted({p[0] for p in plans}),
               'behaviour_hist': beh_hist, 'model_outcome_hist': hist, 'static_reach': reach,
               'unraisable_records_expected_and_observed': expected_unraisable,
               'c_combos': len(combos), 'contexts': contexts, 'cpp_contexts': cpp_contexts,
               'cpp_specs': list(gen.CPP_SPECS.values())},
        assumptions=['the specification model (vlib/ref/excspec.py) transcribes docs/src/userguide/language_basics.rst '
                     '"Error return values" and wrapping_CPlusPlus.rst "Exceptions"',
                     'the value returned after a swallowed (unraisable) error is unspecified and not compared',
                     'what() text of message-less C++ library exceptions (bad_alloc, bad_cast, bad_typeid, '
                     'ios_base::failure) is not compared, only the Python exception type',
                     'returning the sentinel from a plain `except V` function without an error is a documented programmer '
                     'error and is not generated'])
