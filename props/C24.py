"""C24 Argument binding matches CPython for every signature and call (DESIGN.md section 5, C24).

Generated signatures (vlib.gen.sigs) are emitted as module functions, methods, class/static methods, lambdas,
closures, __init__/__call__ (.py) and cpdef functions, cdef-class methods/__init__/__call__, typed defs (.pyx);
every function returns its bound locals. Generated call shapes are evaluated by the differential driver (CPython
call site -> compiled callee: vectorcall with kwnames, tp_call for f(*a, **k), bound methods, functools.partial,
operator.call, type.__call__) and, for a part of them, embedded into the module as compiled call sites.
Oracle: CPython executing the same `def`: same bound values, or TypeError (type only) in exactly the same cases.
"""
import os
import re
from concurrent.futures import ThreadPoolExecutor

from vlib import core, creach, cy, diff
from vlib.gen import sigs
from props import C24_gcov as gcovreach

PY_KINDS = ['func', 'func', 'func', 'method', 'method', 'classmethod', 'staticmethod', 'lambda', 'closure', 'init',
            'call', 'inner']
PYX_KINDS = ['cpdef', 'cpdef', 'cmethod', 'cmethod', 'cinit', 'ccall', 'cpmethod', 'cstatic', 'cclassm', 'tfunc',
             'tfunc']
HEADER = ("# cython: language_level=3\nG0 = 'global0'\nG1 = ('g', 1)\n"
          # helpers used by the compiled call sites; the driver replaces them (preset) before any call
          + ' = '.join(sigs.SETUP_NAMES) + ' = None\n')
ANCHORS = ['__Pyx_ParseKeywords', '__Pyx_RaiseArgtupleInvalid', '__Pyx_RejectKeywords', '__Pyx_KwValues_FASTCALL',
           '__Pyx_MergeKeywords', '__Pyx_RaiseKeywordRequired', '__Pyx_CheckKeywordStrings']


class Fn:
    def __init__(self, idx, kind, sig):
        self.idx, self.kind, self.sig = idx, kind, sig
        self.name = 'fz%dz' % idx
        self.cls = 'Kz%dz' % idx
        self.inst = 'kz%dz' % idx
        self.shapes = []      # (Shape, path)

    # -------------------------------------------------------------- definitions
    def define(self, pyx):
        """source text of the definition (pyx: Cython syntax; otherwise Python syntax, which is also the
        reference model for the pyx kinds)"""
        s, n, k = self.sig, self.name, self.kind
        typed = pyx
        ret = s.result_tuple(n)
        if k in ('func', 'tfunc'):
            return 'def %s(%s):\n    return %s\n' % (n, s.params(typed), ret)
        if k == 'cpdef':
            return '%s %s(%s):\n    return %s\n' % ('cpdef' if pyx else 'def', n, s.params(typed), ret)
        if k == 'lambda':
            return '%s = lambda %s: %s\n' % (n, s.params(), ret)
        if k == 'closure':
            return ('def mk_%s(fv):\n    def %s(%s):\n        return %s + (fv,)\n    return %s\n%s = mk_%s(77)\n'
                    % (n, n, s.params().replace('=G0', '=fv'), ret, n, n, n))
        if k == 'inner':
            return ''
        cdef = 'cdef class' if pyx else 'class'
        if k in ('method', 'cmethod'):
            body = '    def %s(%s):\n        return %s\n' % (n, s.params(typed, ['self']), ret)
        elif k == 'cpmethod':
            body = '    %s %s(%s):\n        return %s\n' % ('cpdef' if pyx else 'def', n, s.params(typed, ['self']), ret)
        elif k in ('classmethod', 'cclassm'):
            body = '    @classmethod\n    def %s(%s):\n        return %s\n' % (n, s.params(typed, ['cls']), ret)
        elif k in ('staticmethod', 'cstatic'):
            body = '    @staticmethod\n    def %s(%s):\n        return %s\n' % (n, s.params(typed), ret)
        elif k in ('init', 'cinit'):
            body = ('    cdef public object v\n' if pyx else '') + \
                   '    def __init__(%s):\n        self.v = %s\n' % (s.params(typed, ['self']), ret)
        elif k in ('call', 'ccall'):
            body = '    def __call__(%s):\n        return %s\n' % (s.params(typed, ['self']), ret)
        else:
            raise ValueError(k)
        out = '%s %s:\n%s' % (cdef, self.cls, body)
        if k not in ('init', 'cinit'):
            out += '%s = %s()\n' % (self.inst, self.cls)
        return out

    def inner_def(self):
        s = self.sig
        return '    def %s(%s):\n        return %s\n' % (self.name, s.params(), s.result_tuple(self.name))

    # -------------------------------------------------------------- call expressions
    def paths(self):
        k = self.kind
        if k in ('func', 'tfunc', 'cpdef', 'lambda', 'closure'):
            return ['direct'] * 6 + ['callsite', 'partial', 'partial', 'opcall', 'opcall', 'dunder']
        if k in ('method', 'cmethod', 'cpmethod'):
            return ['bound'] * 5 + ['unbound', 'unbound', 'callsite', 'partial', 'partial', 'opcall']
        if k in ('classmethod', 'cclassm'):
            return ['bound'] * 4 + ['viaclass'] * 4 + ['callsite', 'partial', 'partial']
        if k in ('staticmethod', 'cstatic'):
            return ['bound'] * 4 + ['viaclass'] * 4 + ['callsite', 'opcall', 'opcall']
        if k in ('init', 'cinit'):
            return ['typecall'] * 8 + ['callsite', 'partial', 'partial']
        if k in ('call', 'ccall'):
            return ['objcall'] * 6 + ['callsite', 'dunder', 'dunder', 'opcall', 'opcall']
        if k == 'inner':
            return ['inner']
        raise ValueError(k)

    def call_expr(self, shape, path, M='M.', rng=None):
        """expression text; M is 'M.' for driver-evaluated expressions and '' inside the module"""
        k, n = self.kind, self.name
        lead = []
        post = ''
        if k in ('func', 'tfunc', 'cpdef', 'lambda', 'closure', 'inner'):
            target = (M if k != 'inner' else '') + n
        elif k in ('init', 'cinit'):
            target = M + self.cls
            post = '.v'
        elif k in ('call', 'ccall'):
            target = M + self.inst
        elif path in ('unbound',):
            target = '%s%s.%s' % (M, self.cls, n)
            lead = [M + self.inst]
        elif path == 'viaclass':
            target = '%s%s.%s' % (M, self.cls, n)
        else:
            target = '%s%s.%s' % (M, self.inst, n)
        if path == 'partial':
            # freeze a prefix of the positional segments and some direct keywords
            j = rng.randint(0, len(shape.pos))
            a = sigs.Shape(shape.pos[:j], [kw for i, kw in enumerate(shape.kws) if kw[0] == 'k' and i % 2 == 0], '')
            b = sigs.Shape(shape.pos[j:], [kw for i, kw in enumerate(shape.kws) if not (kw[0] == 'k' and i % 2 == 0)], '',
                           star_late=shape.star_late)
            return 'partial(%s)(%s)%s' % (a.render_args([target] + lead), b.render_args(), post)
        if path == 'opcall':
            return 'opcall(%s)%s' % (shape.render_args([target] + lead), post)
        if path == 'dunder':
            return '%s.__call__(%s)%s' % (target, shape.render_args(lead), post)
        return '%s(%s)%s' % (target, shape.render_args(lead), post)


def gen_functions(ck, nsig, nshape, pyx_share=0.3):
    rng = ck.rng('sigs')
    fns = []
    for i in range(nsig):
        pyx = rng.random() < pyx_share
        kind = rng.choice(PYX_KINDS if pyx else PY_KINDS)
        if kind in ('cpdef', 'cpmethod'):
            sg = sigs.gen_sig(rng, allow_posonly=False, allow_star=False, allow_kwonly=False, allow_dstar=False,
                              int_defaults=True)
        elif kind == 'inner':
            sg = sigs.gen_sig(rng, allow_star=rng.random() < .2, allow_kwonly=rng.random() < .2,
                              allow_dstar=rng.random() < .2)
        elif i % 8 == 3:
            # the most common real-world shapes: 0..2 plain parameters, nothing else (also the METH_NOARGS / METH_O
            # cells of always_allow_keywords=False)
            names = rng.sample(sigs.NAMES, rng.choice([0, 1, 1, 1, 2]))
            sg = sigs.Sig([], [(n, None) for n in names], None, [], None)
            if names and rng.random() < .25:
                sg.plain[-1] = (names[-1], '7')
        elif pyx:
            sg = sigs.gen_sig(rng, int_defaults=True)
        else:
            sg = sigs.gen_sig(rng)
        if pyx and kind in ('tfunc', 'cpdef', 'cmethod', 'cinit', 'cpmethod'):
            for n in sg.names():
                if rng.random() < .5:
                    sg.types[n] = rng.choice(['int', 'long', 'object', 'Py_ssize_t', 'long long'])
        f = Fn(i, kind, sg)
        paths = f.paths()
        for j in range(nshape if kind != 'inner' else max(6, nshape // 6)):
            path = rng.choice(paths)
            if kind == 'inner':
                shp = sigs.gen_shape(rng, sg, direct_only=rng.random() < .8)
            elif kind in ('cpdef', 'cpmethod') and path == 'callsite':
                # a compiled call of a cpdef function is checked at compile time: keep these valid and direct
                shp = sigs.gen_shape(rng, sg, intent='valid', direct_only=True, kwkind='interned')
                if not valid_direct(sg, shp):
                    path = 'direct' if kind == 'cpdef' else 'bound'
            else:
                shp = sigs.gen_shape(rng, sg)
            f.shapes.append((shp, path, f.call_expr(shp, path, 'M.', rng) if path not in ('callsite', 'inner') else None))
        f.pyx = pyx
        fns.append(f)
    return fns


def valid_direct(sg, shp):
    """is this all-direct shape a valid call of sg (used to keep compile-time checked call sites legal)?"""
    npos = len(shp.pos)
    kw = [k[1] for k in shp.kws]
    positional = sg.positional()
    if npos > len(positional) or len(set(kw)) != len(kw):
        return False
    for i, (n, d) in enumerate(positional):
        if i < npos:
            if n in kw:
                return False
        elif n in kw:
            if i < len(sg.posonly):
                return False
        elif d is None:
            return False
    return all(k in [n for n, _ in positional[npos:]] for k in kw)


def build_modules(fns, per_mod):
    """-> list of (modname, ext, source, refsource or None, [(fn, shape, path, expr, tag)])"""
    groups = {}
    for f in fns:
        groups.setdefault('.pyx' if f.pyx else '.py', []).append(f)
    mods = []
    for ext, fl in groups.items():
        for gi in range(0, len(fl), per_mod):
            chunk = fl[gi:gi + per_mod]
            name = 'c24%s%d' % ('x' if ext == '.pyx' else 'p', gi // per_mod)
            src = [HEADER]
            ref = [HEADER]
            cases = []
            ncs = 0
            for f in chunk:
                src.append(f.define(ext == '.pyx'))
                ref.append(f.define(False))
                chain = []
                for shp, path, expr in f.shapes:
                    tag = '%s/%s/%s/%s' % (f.kind, path, shp.kwkind_label(), shp.intent)
                    if path in ('callsite', 'inner'):
                        # compiled call sites of one function share one dispatcher: cs_<idx>(i)
                        chain.append('    %s i == %d:\n        return %s\n' % (
                            'elif' if chain else 'if', len(chain), f.call_expr(shp, 'direct', '')))
                        cases.append([f, shp, path, 'M.cs_%d(%d)' % (f.idx, len(chain) - 1), tag, None])
                    else:
                        cases.append([f, shp, path, expr, tag, None])
                if chain:
                    text = 'def cs_%d(i):\n%s%s' % (f.idx, f.inner_def() if f.kind == 'inner' else '', ''.join(chain))
                    src.append(text)
                    ref.append(text)
                    for c in cases:
                        if c[0] is f and c[2] in ('callsite', 'inner'):
                            c[5] = text
            mods.append((name, ext, '\n'.join(src), '\n'.join(ref) if ext == '.pyx' else None, cases))
    return mods


def outcome_class(o):
    return o[1][0] if o[0] == 'ok' else o[1]


def classify(f, shp, path, exp, got, cfg, crash=None):
    """mechanism key: function kind, call path, configuration, star/dstar use, keyword-name kind, intent, outcome"""
    if crash:
        e, g = 'any', crash
    else:
        e, g = outcome_class(exp), outcome_class(got)
        if e == g and exp[:2] != got[:2]:
            e, g = 'values', 'other-values'
        if exp[:2] == got[:2]:
            e, g = 'same', 'log-differs'
    if path in ('callsite', 'inner') and shp.same_display_dup():
        # f(**{'a': 1, 'a': 2}): one dict display repeating a constant key (CPython: the later value wins)
        return 'bind:callsite-dup-key-inside-one-literal-display:%s->%s' % (e, g)
    if path in ('callsite', 'inner') and shp.literal_dup():
        # compiled call site, keyword repeated between direct keywords / literal ** dict displays
        return 'bind:callsite-literal-dup-keyword:%s->%s' % (e, g)
    if shp.alias_dup():
        # two different keys (plain-str subclass and __eq__-overriding subclass) match one parameter
        return 'bind:alias-dup-asymmetric-eq:%s:%s->%s' % (
            'kwdict' if cfg in ('novectorcall', 'nofastcall') else 'kwnames', e, g)
    return 'bind:%s:%s:%s:%s%s:%s:%s:%s->%s' % (cfg, f.kind, path, 's' if shp.has_star() else '-',
                                              'd' if shp.has_dstar() else '-', shp.kwkind_label(), shp.intent, e, g)


CONFIGS = {
    'default': dict(cflags=[], directives={}),
    'novectorcall': dict(cflags=['-DCYTHON_VECTORCALL=0'], directives={}),
    'nofastcall': dict(cflags=['-DCYTHON_METH_FASTCALL=0', '-DCYTHON_VECTORCALL=0'], directives={}),
    'noallowkw': dict(cflags=[], directives={'always_allow_keywords': False}),
    'nobinding': dict(cflags=[], directives={'binding': False}),
}


GCOV_FUNCS = ['__Pyx_ParseKeywordsTuple', '__Pyx_ParseKeywordDict', '__Pyx_ParseKeywordDictToDict',
              '__Pyx_MatchKeywordArg_str', '__Pyx_MatchKeywordArg_nostr', '__Pyx_RejectUnknownKeyword',
              '__Pyx_ValidateDuplicatePosArgs', '__Pyx_MergeKeywords_dict', '__Pyx_MergeKeywords_any',
              '__Pyx_RaiseArgtupleInvalid', '__Pyx_RaiseDoubleKeywordsError', '__Pyx_RaiseKeywordRequired',
              '__Pyx_RejectKeywords', '__Pyx_CyFunction_CallAsMethod', '__Pyx_CyFunction_Vectorcall_FASTCALL_KEYWORDS',
              '__Pyx_CyFunction_Vectorcall_O', '__Pyx_CyFunction_Vectorcall_NOARGS', '__Pyx_PyVectorcall_FastCallDict_kw',
              '__Pyx_CyFunction_CallMethod']


def _cpu():
    t = os.times()
    return t.user + t.system + t.children_user + t.children_system


def wrapper_bodies(ctext, names):
    """token -> C text of the Python wrapper(s) and implementation of the function named by the token.
    (vlib.creach only recognises one-line C function headers; the wrappers' headers span several lines.)"""
    out = {}
    segs = ctext.split('/* Python wrapper */')
    for seg in segs[1:]:
        head = seg[:600]
        m = re.search(r'__pyx_pw_\w*?(fz\d+z)\b', head) or re.search(r'__pyx_pw_\w*?(Kz\d+z)\w*', head)
        if m:
            tok = m.group(1).replace('Kz', 'fz')
            out[tok] = out.get(tok, '') + seg
    return {n: out.get(n, '') for n in names}


def main(ck):
    tree = cy.Tree('C24')
    stage_cpu = {}
    t_last = [_cpu()]

    def lap(name):
        now = _cpu()
        stage_cpu[name] = round(stage_cpu.get(name, 0) + now - t_last[0], 1)
        t_last[0] = now
    nsig = ck.pick(300, 1200)
    nshape = ck.pick(60, 100)
    fns = gen_functions(ck, nsig, nshape)
    mods = build_modules(fns, per_mod=ck.pick(20, 40))
    # configuration cells: the full matrix on the default build; a subset of the modules on the others
    cfgs = [('default', 1.0)]
    if ck.quick:
        cfgs += [('novectorcall', 0.2), ('noallowkw', 0.14), ('nobinding', 0.14)]
    else:
        cfgs += [('novectorcall', 0.5), ('nofastcall', 0.12), ('noallowkw', 0.3), ('nobinding', 0.25)]
    lap('generate')

    # ------------------------------------------------------------ build every cell
    # one translation pool for all cells (every interpreted-compiler worker pays several CPU seconds of start-up:
    # the Plex lexicon is rebuilt in pure Python), then all C builds in one pool
    jobs, meta = [], []
    cell_sel = {}
    for cfg, share in cfgs:
        conf = CONFIGS[cfg]
        sel = mods if share >= 1 else [m for i, m in enumerate(mods) if ((i + 1) * 0.6180339887) % 1.0 < share] or mods[:1]
        if cfg != 'default':
            for ext in ('.py', '.pyx'):       # keep both source kinds in every cell
                if not any(m[1] == ext for m in sel):
                    sel = sel + [m for m in mods if m[1] == ext][:1]
        cell_sel[cfg] = sel
        d = tree.subdir('b_' + cfg)
        for name, ext, src, ref, cases in sel:
            path = os.path.join(d, name + ext)
            with open(path, 'w', encoding='utf-8') as fh:
                fh.write(src)
            jobs.append({'src': path, 'directives': conf['directives']})
            meta.append((cfg, name))
    tres, _ = tree.translate(jobs, nworkers=min(core.NCPU, ck.pick(6, 10)), timeout=ck.pick(1800, 3600))
    lap('translate')
    infos = {}
    tobuild = []
    for (cfg, name), j, r in zip(meta, jobs, tres):
        infos[cfg, name] = {'src': j['src'], 'c': r.get('c'), 'so': None, 'ok': False, 'stage': 'translate',
                            'errors': (r.get('exc') or '') + (r.get('errors') or '')}
        if r['ok']:
            tobuild.append((cfg, name))
    cov_mods = {}
    for cfg in ('default', 'novectorcall'):
        cov_mods[cfg] = next((n for c, n in tobuild if c == cfg and n.startswith('c24p')), None)
    items = []
    for cfg, name in tobuild:
        kw = {'cflags': list(CONFIGS[cfg]['cflags'])}
        if cov_mods.get(cfg) == name:
            kw['cflags'] += ['--coverage', gcovreach.DUMP_C]
            kw['ldflags'] = ['--coverage']
        items.append((infos[cfg, name]['c'], kw))
    for (cfg, name), b in zip(tobuild, tree.cbuild_many(items, timeout=ck.pick(1800, 3600))):
        inf = infos[cfg, name]
        inf.update(stage='cc', so=b['so'], ok=b['ok'])
        if not b['ok']:
            inf['errors'] = b['err']
    cells_built = [(cfg, cell_sel[cfg], {m[0]: infos[cfg, m[0]] for m in cell_sel[cfg]}, cov_mods.get(cfg)) for cfg, _ in cfgs]
    lap('cc')

    # ------------------------------------------------------------ prepare and run the cases of every (cell, module)
    skipped_build = nmods_built = 0
    helpers = {}
    fn_with_parse = set()
    tasks = []
    for cfg, sel, infos, cov_mod in cells_built:
        builddir = tree.subdir('b_' + cfg)
        for name, ext, src, ref, cases in sel:
            inf = infos[name]
            if not inf['ok']:
                skipped_build += 1
                ck.note('build failure %s/%s at %s: %s' % (cfg, name, inf['stage'], (inf['errors'] or '')[-600:]))
                continue
            nmods_built += 1
            ctext = open(inf['c'], encoding='utf-8', errors='replace').read()
            bodies = wrapper_bodies(ctext, [c[0].name for c in cases])
            for h in ANCHORS:
                if h + '(' in ctext:
                    helpers[h] = helpers.get(h, 0) + 1
            refpath = inf['src']
            if ref is not None:
                refpath = os.path.join(builddir, name + '_ref.py')
                with open(refpath, 'w', encoding='utf-8') as fh:
                    fh.write(ref)
            cl = []
            index = {}
            ntriv = 0
            for f, shp, path, expr, tag, cstext in cases:
                body = bodies.get(f.name, '')
                parses = f.kind == 'inner' or ('__Pyx_ParseKeywords' in body or '__Pyx_RaiseArgtupleInvalid' in body
                                               or '__Pyx_RejectKeywords' in body)
                if parses:
                    fn_with_parse.add((cfg, f.idx))
                triv = (shp.callsite_fails_early() and path not in ('callsite', 'inner')) or not parses
                ntriv += triv
                index[expr] = (f, shp, path, cstext)
                cl.append({'x': expr, 't': ('triv:' if triv else '') + tag})
            if name == cov_mod:
                cl = cl + gcovreach.dump_cases()
            tasks.append((cfg, name, ext, inf, refpath, cl, index, ntriv, builddir, name == cov_mod))

    def run_task(t):
        cfg, name, ext, inf, refpath, cl, index, ntriv, builddir, is_cov = t
        return diff.run_cases(tree, builddir, name, cl, ref=refpath, compare={'exc_args': False, 'log': True},
                              setup=sigs.SETUP + gcovreach.SETUP, preset={k: k for k in sigs.SETUP_NAMES},
                              tagdir='run_%s_%s' % (cfg, name), timeout=ck.pick(900, 1800), nproc=ck.pick(4, 8))

    with ThreadPoolExecutor(ck.pick(4, 3)) as ex:
        results = list(ex.map(run_task, tasks))
    lap('run')

    total_n = total_distinct = trivial_n = doc_expect = 0
    samples = []
    hist = {}
    gcov = {}
    for t, res in zip(tasks, results):
        cfg, name, ext, inf, refpath, cl, index, ntriv, builddir, is_cov = t
        conf = CONFIGS[cfg]
        nflush = sum(v for k, v in res.hist.items() if k.startswith('gcovflush'))
        ntriv_seen = sum(v for k, v in res.hist.items() if k.startswith('triv:'))
        total_n += res.n - nflush - ntriv_seen
        trivial_n += ntriv_seen
        # distinct counts (expression, outcome) pairs over the whole run; every trivial case and flush can account
        # for at most one of them, so this difference never over-counts the non-trivial distinct cases
        total_distinct += max(0, res.distinct - ntriv_seen - min(1, nflush))
        if cfg == 'default' and len(samples) < 10:
            samples.extend([x for x in res.samples if 'gcov' not in x['case']['x']][:2])
        for k, v in res.hist.items():
            if k.startswith('gcovflush'):
                continue
            kk = cfg + '/' + (k[5:] if k.startswith('triv:') else k)
            hist[kk] = hist.get(kk, 0) + v
        for m in res.mismatches:
            f, shp, path, cstext = index[m['case']['x']]
            if cfg == 'noallowkw' and f.sig.meth_o_or_noargs() and shp.has_keywords() \
                    and m['got'][:2] == ['exc', 'TypeError'] and f.kind not in ('init', 'cinit', 'call', 'ccall'):
                doc_expect += 1      # documented: METH_O / METH_NOARGS functions reject keywords
                continue
            key = classify(f, shp, path, m['exp'], m['got'], cfg)
            w = {'config': cfg, 'cflags': conf['cflags'], 'directives': conf['directives'], 'ext': ext,
                 'module_source': HEADER + f.define(ext == '.pyx') + (cstext or ''), 'case': m['case'],
                 'expected': m['exp'], 'observed': m['got'], 'setup': sigs.SETUP}
            if ext == '.pyx':
                w['ref_source'] = HEADER + f.define(False) + (cstext or '')
            ck.discrepancy(key, '%s(%s) via %s [%s]: %s: CPython %s, compiled %s' % (
                f.kind, f.sig.params(ext == '.pyx'), path, cfg, m['case']['x'], m['exp'], m['got']), w)
        for c in res.crashes:
            if 'gcov' in c['case']['x']:
                continue
            f, shp, path, cstext = index[c['case']['x']]
            w = {'config': cfg, 'cflags': conf['cflags'], 'directives': conf['directives'], 'ext': ext,
                 'module_source': HEADER + f.define(ext == '.pyx') + (cstext or ''),
                 'case': c['case'], 'stderr': c['stderr'], 'setup': sigs.SETUP}
            if ext == '.pyx':
                w['ref_source'] = HEADER + f.define(False) + (cstext or '')
            ck.discrepancy(classify(f, shp, path, None, None, cfg, crash=c['kind'].split()[0]),
                           'crash/hang %s on %s [%s]: %s' % (c['kind'], c['case']['x'], cfg, c['stderr'][-300:]), w)
        for ft in res.fatal:
            ck.inconclusive_if(True, 'driver failed for %s/%s: %s' % (cfg, name, str(ft)[-400:]))
        if is_cov:
            g = gcovreach.counts(inf, set(GCOV_FUNCS))
            gcov[cfg] = {k: g.get(k, 0) for k in GCOV_FUNCS if k in g}
    lap('judge')
    # ---------------------------------------------------------------- reach
    cells = {}          # kwkind x path (default config)
    kinds = {}
    intents = {}
    outcomes = {}
    cfg_counts = {}
    for k, v in hist.items():
        tag, oc = k.rsplit('|', 1)
        cfg, kind, path, kwk, intent = tag.split('/')
        cfg_counts[cfg] = cfg_counts.get(cfg, 0) + v
        outcomes[cfg + ':' + oc] = outcomes.get(cfg + ':' + oc, 0) + v
        if cfg != 'default':
            continue
        cells['%s x %s' % (kwk, path)] = cells.get('%s x %s' % (kwk, path), 0) + v
        kinds['%s/%s' % (kind, path)] = kinds.get('%s/%s' % (kind, path), 0) + v
        intents[intent] = intents.get(intent, 0) + v
    need_kw = ['interned', 'runtime', 'S', 'SEq', 'direct']
    need_path = ['direct', 'bound', 'callsite', 'partial', 'opcall', 'typecall', 'objcall']
    missing = ['%s x %s' % (a, b) for a in need_kw for b in need_path if not cells.get('%s x %s' % (a, b))]
    ck.inconclusive_if(bool(missing), 'keyword-name kind x call path cells not observed: %s' % missing[:8])
    ck.inconclusive_if(not helpers.get('__Pyx_ParseKeywords'), '__Pyx_ParseKeywords absent from every generated C file')
    ck.inconclusive_if(skipped_build > 0.2 * (skipped_build + nmods_built) or nmods_built == 0,
                       '%d of %d module builds failed' % (skipped_build, skipped_build + nmods_built))
    for cfg, share in cfgs:
        ck.inconclusive_if(not cfg_counts.get(cfg), 'configuration cell %s observed no case' % cfg)
    ck.cov['skipped_build_failure'] = skipped_build
    for cfg, need in (('default', ['__Pyx_ParseKeywordsTuple', '__Pyx_MatchKeywordArg_str', '__Pyx_MatchKeywordArg_nostr']),
                      ('novectorcall', ['__Pyx_ParseKeywordDict', '__Pyx_ParseKeywordDictToDict'])):
        if cfg in gcov:
            zero = [n for n in need if not gcov[cfg].get(n)]
            ck.inconclusive_if(bool(zero), 'keyword parsers never executed in the %s cell (gcov): %s' % (cfg, zero))
        else:
            ck.inconclusive_if(True, 'no gcov data for configuration %s' % cfg)
    return ck.finish(
        total_n, total_distinct,
        'signatures (<=3 positional-only, <=3 plain, defaults, *args/bare *, <=3 keyword-only, **kwds; also non-ASCII '
        'names) x call shapes (positional/keyword mixes, several *iterables and **mappings of many kinds, duplicate, '
        'unknown, missing, surplus, positional-only by keyword, non-str and str-subclass keys) x call paths; every call is '
        'evaluated on the compiled module and on CPython executing the same definitions. distinct = distinct (call '
        'expression, CPython outcome) pairs minus one per trivial case (a lower bound); a case is non-trivial when the '
        'generated C wrapper of the target function contains argument unpacking code (__Pyx_ParseKeywords / '
        '__Pyx_RaiseArgtupleInvalid / __Pyx_RejectKeywords) and the call is not already rejected by a CPython call site '
        'before it reaches the callee',
        samples,
        extra={'signatures': len(fns), 'signature_kinds': _count(f.kind for f in fns),
               'signature_shape_classes': len({f.sig.shape_class() for f in fns}),
               'trivial_cases_also_compared': trivial_n, 'configs': cfg_counts,
               'functions_with_unpacking_code': len({i for c, i in fn_with_parse if c == 'default'}),
               'cells_kwname_kind_x_call_path': dict(sorted(cells.items())), 'function_kind_x_call_path': dict(sorted(kinds.items())),
               'intent_hist': intents, 'outcome_hist': dict(sorted(outcomes.items())),
               'anchor_helpers_in_c (modules)': helpers, 'gcov_execution_counts': gcov,
               'documented_always_allow_keywords_rejections': doc_expect, 'cpu_seconds_by_stage': stage_cpu},
        assumptions=['CPython 3.12.1 executing the identical definitions is the reference; TypeError compared by type only',
                     'always_allow_keywords=False: functions with zero arguments or one argument without default '
                     '(METH_NOARGS/METH_O) are expected to reject keyword arguments with TypeError, as documented',
                     'cpdef call sites inside the module are kept valid (the compiler checks them at compile time)',
                     'keyword keys with a non-symmetric __eq__ are generated only as the S/SEq pair (known finding); '
                     'calls never combine a failing mapping with a duplicate key (which fault wins is not part of the statement)'])


def _count(it):
    d = {}
    for x in it:
        d[x] = d.get(x, 0) + 1
    return d


def replay(ck, data):
    w = data.get('witness', data)
    tree = cy.Tree('replay')
    ext = w.get('ext', '.py')
    d, info = tree.build_sources({'replaymod': w['module_source']}, subdir='r', ext=ext,
                                 directives=w.get('directives'), cflags=w.get('cflags') or ())
    inf = info['replaymod']
    if not inf['ok']:
        print('build failed at', inf['stage'], inf['errors'][-2000:])
        return 2
    refpath = inf['src']
    if w.get('ref_source'):
        refpath = os.path.join(d, 'replaymod_ref.py')
        open(refpath, 'w', encoding='utf-8').write(w['ref_source'])
    res = diff.run_cases(tree, d, 'replaymod', [w['case']], ref=refpath, compare={'exc_args': False, 'log': True},
                         setup=sigs.SETUP, preset={k: k for k in sigs.SETUP_NAMES}, nproc=1)
    for m in res.mismatches:
        print('expected', m['exp'])
        print('observed', m['got'])
    for c in res.crashes:
        print('crash', c['kind'], c['stderr'][-1500:])
    if res.mismatches or res.crashes:
        print('VIOLATION property=%s replay=<replayed>' % ck.pid)
        return 1
    print('replay: case now agrees with the reference (%d evaluated, fatal=%s)' % (res.n, res.fatal))
    return 0
