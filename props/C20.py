"""C20 Operands and targets are evaluated left-to-right exactly once (DESIGN.md section 5, C20).

vlib.gen.evalorder generates functions of 1-3 statements whose leaves are logging calls (vlib/ref/c20h.py: values,
objects with logging item/attribute/operator/iteration/format hooks, logging callables, iterables, mappings, truth
values). Each function is compiled (.py, and .pyx variants with C-typed locals, typed containers and a cdef callee) and
executed once on the compiled module and once by CPython; the ordered event log, the result and the exception type
must agree. Node-class histograms of the compiled trees (vlib.mon.nodehist) are the reach evidence."""
import os
import re
import shutil

from vlib import core, cy, diff
from vlib.gen import evalorder as eo

NEED_NODES_EARLY = ['SingleAssignmentNode', 'CascadedAssignmentNode', 'ParallelAssignmentNode', 'InPlaceAssignmentNode',
                    'SimpleCallNode', 'GeneralCallNode', 'BoolBinopNode']
NEED_LABELS = ['stmt-single-assign', 'stmt-cascaded-assign', 'stmt-parallel-assign', 'stmt-augassign', 'stmt-unpack',
               'swap', 'stmt-del', 'call-star', 'call-dstar', 'call-kw', 'dict-display', 'comprehension', 'boolop',
               'condexpr', 'compare', 'fstring', 'minmax', 'target-subscript', 'target-attribute', 'unpack-starred',
               'stmt-for', 'stmt-with', 'stmt-def-decorators', 'builtin-method', 'builtin-call']


def _log(o):
    """the event log of an observation; consecutive repeated truth tests of the same object are collapsed (how often
    __bool__ of a value is called while it travels through nested and/or is not an evaluation of a sub-expression)"""
    raw = list(o[-1][1]) if o and isinstance(o[-1], list) and o[-1] and o[-1][0] == 'log' else []
    out = []
    for e in raw:
        if out and e == out[-1] and ev_name(e) == 'bool':
            continue
        out.append(e)
    return out


def ev_name(e):
    """['tuple', [['str', "'getitem'"], ...]] -> getitem"""
    try:
        return e[1][0][1].strip("'")
    except Exception:
        return 'none' if e is None else '?'


def ev_key(e):
    """leading integer of the event's key (keys of derived objects look like '12.x[]'); None for a/b"""
    try:
        k = e[1][1][1].strip("'")
        m = re.match(r'\d+', k)
        return int(m.group(0)) if m else None
    except Exception:
        return None


def ev_fullkey(e):
    try:
        return e[1][1][1]
    except Exception:
        return None


ITER_EVENTS = ('iter', 'next', 'stop')


def _norm(e):
    """event text with bool index arguments read as ints (see the bint-index mechanism)"""
    return repr(e).replace("['bool', 'True']", "['int', '1']").replace("['bool', 'False']", "['int', '0']")


def peel(le, lg, facts, labels, got_raised=False):
    """Explain the differences between the CPython log `le` and the compiled log `lg` by known, structurally
    recognisable mechanisms, removing the events each one accounts for, until the logs agree or an unexplained
    divergence remains. Returns (set of mechanism names, remaining index or None, le, lg)."""
    le, lg = list(le), list(lg)
    mechs = set()
    for _ in range(60):
        i = next((j for j in range(max(len(le), len(lg)))
                  if (le[j] if j < len(le) else None) != (lg[j] if j < len(lg) else None)), None)
        if i is None:
            return mechs, None, le, lg
        a = le[i] if i < len(le) else None
        b = lg[i] if i < len(lg) else None
        na, nb = ev_name(a), ev_name(b)
        ka, kb = ev_key(a), ev_key(b)
        # M2: attribute lookup of a called method happens after the arguments were evaluated
        if na == 'getattr' and a in lg[i + 1:]:
            le.pop(i)
            lg.remove(a)
            mechs.add('method-lookup-after-args')
            continue
        if na == 'getattr' and got_raised and a not in lg and le[i + 1:i + 1 + len(lg) - i] == lg[i:]:
            # ... and an exception raised by an argument comes before the lookup ever happens
            le.pop(i)
            mechs.add('method-lookup-after-args')
            continue
        # M3: a *iterable is iterated at a different moment relative to the evaluation of later arguments
        if nb in ITER_EVENTS or na in ITER_EVENTS:
            fk = ev_fullkey(b if nb in ITER_EVENTS else a)
            drop = lambda e: ev_name(e) in ITER_EVENTS and ev_fullkey(e) == fk
            if got_raised or sorted(map(repr, filter(drop, le))) == sorted(map(repr, filter(drop, lg))):
                # (when the call ends in an exception CPython may never get to iterate the iterable at all)
                le = [e for e in le if not drop(e)]
                lg = [e for e in lg if not drop(e)]
                mechs.add('star-iterable-iterated-early')
                continue
        # M1: members of a literal container evaluated before the needle of `in` / `not in`
        hit = False
        for f in facts:
            if f[0] == 'in' and ka is not None and kb is not None and f[1] <= ka <= f[2] and f[3] <= kb <= f[4]:
                drop = lambda e, f=f: ev_key(e) is not None and f[1] <= ev_key(e) <= f[4]
                if sorted(map(repr, filter(drop, le))) == sorted(map(repr, filter(drop, lg))):
                    le = [e for e in le if not drop(e)]
                    lg = [e for e in lg if not drop(e)]
                    mechs.add('in-literal-members-before-needle')
                    hit = True
                    break
            # M4: `*a, b = [x, y]` is rewritten into assignments evaluated from right to left
            if f[0] == 'starunpack' and ka is not None and kb is not None and f[1] <= ka <= f[2] and f[1] <= kb <= f[2]:
                drop = lambda e, f=f: ev_key(e) is not None and f[1] <= ev_key(e) <= f[2]
                same = sorted(map(repr, filter(drop, le))) == sorted(map(repr, filter(drop, lg)))
                same_norm = same or sorted(map(_norm, filter(drop, le))) == sorted(map(_norm, filter(drop, lg)))
                if got_raised or same_norm:
                    le = [e for e in le if not drop(e)]
                    lg = [e for e in lg if not drop(e)]
                    mechs.add('starred-unpack-of-display-reordered')
                    if not same and not got_raised:
                        # a bool subscript of one of the reordered targets additionally arrives as an int (own mechanism)
                        mechs.add('value:bint-index-arrives-as-int')
                    hit = True
                    break
        if hit:
            continue
        # M5: `o.x.y += v` evaluates `o.x` a second time for the store
        seen_before = {_norm(e) for e in lg[:i]}
        if nb in ('getattr', 'getitem') and _norm(b) in seen_before and 'stmt-augassign' in labels:
            j = i
            while j < len(lg) and ev_name(lg[j]) in ('getattr', 'getitem') and _norm(lg[j]) in seen_before:
                j += 1
            if j < len(lg) and ev_name(lg[j]) in ('setattr', 'setitem'):
                del lg[i:j]
                mechs.add('inplace-target-base-reevaluated')
                continue
        # M6 (value, not order): a C bint used as an index arrives as int
        if na == nb and na in ('getitem', 'setitem', 'delitem') and ev_fullkey(a) == ev_fullkey(b):
            try:
                ia, ib = a[1][2], b[1][2]
                same_rest = a[1][:2] + a[1][3:] == b[1][:2] + b[1][3:]
            except Exception:
                ia = ib = None
                same_rest = False
            if same_rest and ia and ia[0] == 'bool' and ib == ['int', '1' if ia[1] == 'True' else '0']:
                lg[i] = a
                mechs.add('value:bint-index-arrives-as-int')
                continue
        return mechs, i, le, lg
    return mechs, i, le, lg


def _is_subsequence(short, long):
    it = iter(long)
    return all(any(x == y for y in it) for x in short)


def classify_rest(labels, exp, got, i, le, lg, typed):
    """mechanism key for an unexplained divergence: kind of difference, statement constructs, event names"""
    oe = exp[1] if exp[0] == 'exc' else 'ok'
    og = got[1] if got[0] == 'exc' else 'ok'
    main = sorted(l for l in labels if l.startswith(('stmt-', 'swap', 'typed-')))
    cons = '+'.join(main[:3]) or 'expr'
    if i is None:
        kind = 'result' if oe == og else 'exception'
        return 'eval:%s:%s:%s->%s%s' % (kind, cons, oe, og, ':typed' if typed else '')
    a = le[i] if i < len(le) else None
    b = lg[i] if i < len(lg) else None
    if sorted(map(repr, le)) == sorted(map(repr, lg)):
        kind = 'reordered'
    elif len(lg) > len(le):
        kind = 'extra-events'
    elif len(lg) < len(le):
        kind = 'missing-events'
    else:
        kind = 'different-events'
    if kind == 'missing-events' and {'fstring', 'boolop'} <= set(labels) and _is_subsequence(lg, le):
        # `[f'{x()}'] and y`: ConstantFolding takes a display holding a single-field f-string for a constant
        return 'eval:display-with-fstring-as-boolop-operand-not-evaluated'
    fine = sorted(l for l in labels if not l.startswith(('stmt-', 'target-')))[:4]
    return 'eval:%s:%s:%s:%s-vs-%s:%s->%s%s' % (kind, cons, '+'.join(fine), ev_name(a), ev_name(b), oe, og,
                                                ':typed' if typed else '')


def main(ck):
    tree = cy.Tree('C20')
    rng = ck.rng('gen')
    nfun = ck.pick(1500, 12000)
    per_mod = ck.pick(100, 400)
    depth_choices = ck.pick([2, 3, 3], [2, 3, 3, 4, 5])
    typed_share = 0.2
    funcs = []      # (name, src, labels, typed)
    for i in range(nfun):
        typed = rng.random() < typed_share
        g = eo.Gen(rng, max_depth=rng.choice(depth_choices if not typed else [2, 3]), typed=typed)
        src, labels, facts = g.function('fz%dz' % i)
        funcs.append(('fz%dz' % i, src, labels, typed, facts))
    d = tree.subdir('b')
    shutil.copy(os.path.join(core.VERIF, 'vlib', 'ref', 'c20h.py'), os.path.join(d, 'c20h.py'))
    jobs, meta = [], []
    mods = {}
    for typed in (False, True):
        fl = [f for f in funcs if f[3] == typed]
        for gi in range(0, len(fl), per_mod):
            name = 'c20%s%d' % ('x' if typed else 'p', gi // per_mod)
            chunk = fl[gi:gi + per_mod]
            src = eo.PRELUDE + (eo.TYPED_PRELUDE if typed else '') + '\n'.join(f[1] for f in chunk)
            path = os.path.join(d, name + ('.pyx' if typed else '.py'))
            with open(path, 'w', encoding='utf-8') as fh:
                fh.write(src)
            refpath = path
            if typed:
                refpath = os.path.join(d, name + '_ref.py')
                with open(refpath, 'w', encoding='utf-8') as fh:
                    fh.write(eo.PRELUDE + eo.TYPED_PRELUDE_REF + '\n'.join(eo.strip_cdef(f[1]) for f in chunk))
            mods[name] = (chunk, path, refpath, typed)
            jobs.append({'src': path})
            meta.append(name)
    tres, plug = tree.translate(jobs, nworkers=min(core.NCPU, ck.pick(6, 12)), plugins=['vlib.mon.nodehist'],
                                timeout=ck.pick(1800, 3600))
    nodes = {'early': {}, 'final': {}}
    for p in plug:
        for phase, h in (p.get('vlib.mon.nodehist') or {}).items():
            if isinstance(h, dict):
                for k, v in h.items():
                    nodes[phase][k] = nodes[phase].get(k, 0) + v
    ok = [n for n, r in zip(meta, tres) if r['ok']]
    skipped = 0
    for n, r in zip(meta, tres):
        if not r['ok']:
            skipped += 1
            ck.note('translate failure %s: %s' % (n, ((r.get('exc') or '') + (r.get('errors') or ''))[-700:]))
    built = {}
    for n, b in zip(ok, tree.cbuild_many([tres[meta.index(n)]['c'] for n in ok], timeout=ck.pick(1800, 3600))):
        if b['ok']:
            built[n] = b
        else:
            skipped += 1
            ck.note('C build failure %s: %s' % (n, b['err'][-700:]))
    total_n = total_distinct = 0
    hist = {}
    label_cases = {}
    samples = []
    byname = {f[0]: f for f in funcs}
    for n in built:
        chunk, path, refpath, typed = mods[n]
        cases = [{'f': f[0], 'a': '()', 't': 'typed' if typed else 'py'} for f in chunk]
        res = diff.run_cases(tree, d, n, cases, ref=refpath, compare={'exc_args': False, 'log': True},
                             tagdir='run_' + n, timeout=ck.pick(900, 1800), nproc=ck.pick(2, 4))
        total_n += res.n
        total_distinct += res.distinct
        samples.extend(res.samples[:1])
        for k, v in res.hist.items():
            hist[k] = hist.get(k, 0) + v
        for f in chunk:
            for l in f[2]:
                label_cases[l] = label_cases.get(l, 0) + 1
        for m in res.mismatches:
            f = byname[m['case']['f']]
            mechs, i, le, lg = peel(_log(m['exp']), _log(m['got']), f[4], f[2], got_raised=m['got'][0] == 'exc')
            w = {'ext': '.pyx' if typed else '.py', 'case': m['case'], 'expected': m['exp'], 'observed': m['got'],
                 'module_source': eo.PRELUDE + (eo.TYPED_PRELUDE if typed else '') + f[1], 'labels': sorted(f[2]),
                 'mechanisms_recognised': sorted(mechs), 'extra_files': {'c20h.py': 'vlib/ref/c20h.py'}}
            if typed:
                w['ref_source'] = eo.PRELUDE + eo.TYPED_PRELUDE_REF + eo.strip_cdef(f[1])
            for mech in sorted(mechs):
                ck.discrepancy('eval:' + mech, 'mechanism %s in\n%s' % (mech, f[1]), w)
            if m['got'][:2] == ['exc', 'TypeError'] and m['exp'][0] == 'ok' and 'fstring' in f[2] and \
                    ('binop-obj' in f[2] or 'stmt-augassign' in f[2]) and _log(m['got']) == _log(m['exp'])[:len(_log(m['got']))]:
                ck.discrepancy('eval:non-str-operand-concatenated-with-fstring:TypeError',
                               'object + f-string raises TypeError instead of calling __add__/__radd__ in\n%s' % f[1], w)
                continue
            same_outcome = m['exp'][:2] == m['got'][:2] or (m['exp'][0] == 'exc' and m['exp'][:2] == m['got'][:2])
            if i is not None or not same_outcome:
                a = le[i] if i is not None and i < len(le) else None
                b = lg[i] if i is not None and i < len(lg) else None
                w2 = dict(w, first_unexplained_divergence=[i, a, b])
                ck.discrepancy(classify_rest(f[2], m['exp'], m['got'], i, le, lg, f[3]),
                               'event log / result differs (after removing recognised mechanisms %s) at event %s: CPython %s, '
                               'compiled %s in\n%s' % (sorted(mechs), i, a, b, f[1]), w2)
        for c in res.crashes:
            f = byname[c['case']['f']]
            main_l = '+'.join(sorted(l for l in f[2] if l.startswith(('stmt-', 'typed-')))[:3])
            ckey = 'eval:crash:%s' % main_l
            if {'walrus', 'stmt-parallel-assign', 'comprehension'} <= set(f[2]) and 'Segmentation fault' in (c['stderr'] or ''):
                ckey = 'eval:parallel-assignment-with-walrus-and-comprehension:segfault'
            if {'in-literal', 'not', 'boolop', 'condexpr'} <= set(f[2]) and 'Segmentation fault' in (c['stderr'] or ''):
                # (1 if a else (b or (not c) or (x in (f(), g())))) segfaults
                ckey = 'eval:condexpr-with-or-chain-of-not-and-in-literal:segfault'
            if 'PyUnicode_Check(op)' in (c['stderr'] or '') and 'fstring' in f[2]:
                # AddNode assumes `x + f'..'` / `x += f'..'` is a str concatenation whatever x is
                ckey = 'eval:non-str-operand-concatenated-with-fstring:abort'
            ck.discrepancy(ckey, 'crash/hang %s in\n%s\n%s' % (c['kind'], f[1], c['stderr'][-400:]),
                           {'ext': '.pyx' if typed else '.py', 'case': c['case'], 'stderr': c['stderr'],
                            'module_source': eo.PRELUDE + (eo.TYPED_PRELUDE if typed else '') + f[1]})
        for ft in res.fatal:
            ck.inconclusive_if(True, 'driver failed for %s: %s' % (n, str(ft)[-400:]))
    # ------------------------------------------------------------------ reach
    floor = ck.pick(100, 1000)
    low = {k: nodes['early'].get(k, 0) for k in NEED_NODES_EARLY if nodes['early'].get(k, 0) < floor}
    ck.inconclusive_if(bool(low), 'node classes below the floor of %d in the parsed trees: %s' % (floor, low))
    miss = [l for l in NEED_LABELS if label_cases.get(l, 0) < ck.pick(15, 200)]
    ck.inconclusive_if(bool(miss), 'constructs with too few executed functions: %s' % miss)
    ck.inconclusive_if(skipped > 0.2 * len(jobs), '%d of %d modules failed to translate/build' % (skipped, len(jobs)))
    ck.cov['skipped_build_failure'] = skipped
    interesting = ['SingleAssignmentNode', 'CascadedAssignmentNode', 'ParallelAssignmentNode', 'InPlaceAssignmentNode',
                   'SimpleCallNode', 'GeneralCallNode', 'PyMethodCallNode', 'BoolBinopNode', 'BoolBinopResultNode',
                   'CondExprNode', 'PrimaryCmpNode', 'CascadedCmpNode', 'IndexNode', 'SliceIndexNode', 'AttributeNode',
                   'DictNode', 'MergedDictNode', 'MergedSequenceNode', 'TupleNode', 'ListNode', 'SetNode', 'JoinedStrNode',
                   'FormattedValueNode', 'ComprehensionNode', 'InlinedGeneratorExpressionNode', 'DelStatNode',
                   'ForInStatNode', 'WithStatNode', 'EvalWithTempExprNode', 'ResultRefNode', 'AssignmentExpressionNode',
                   'InlinedDefNodeCallNode', 'PythonCapiCallNode', 'CoerceToTempNode', 'CloneNode', 'StarredUnpackingNode',
                   'LetNode', 'TempsBlockNode']
    return ck.finish(
        total_n, total_distinct,
        'generated functions of 1-3 statements (assignment kinds, augmented, chained, parallel/swap, unpacking incl. '
        'starred, del, for/with targets, decorators/defaults, class statements) over expression trees of depth <= %d whose '
        'leaves log; every function is executed once compiled and once by CPython and the ordered event logs, results and '
        'exception types are compared. Each function is a distinct program: distinct = distinct (function, CPython '
        'outcome); every case is non-trivial in that its log has at least the set-up events and one generated leaf'
        % max(depth_choices),
        samples,
        extra={'functions': len(funcs), 'typed_functions': sum(1 for f in funcs if f[3]),
               'node_classes_early': {k: nodes['early'].get(k, 0) for k in interesting if nodes['early'].get(k)},
               'node_classes_final': {k: nodes['final'].get(k, 0) for k in interesting if nodes['final'].get(k)},
               'construct_label_functions': dict(sorted(label_cases.items())),
               'outcome_hist': dict(sorted(hist.items(), key=lambda kv: -kv[1])[:40])},
        assumptions=['CPython 3.12.1 executing the same source is the reference for order and count of events',
                     'typed (.pyx) variants are compared with the same statements without the cdef declarations; their '
                     'leaves return plain values so that C conversions add no events'])


def replay(ck, data):
    w = data.get('witness', data)
    tree = cy.Tree('replay')
    d = tree.subdir('r')
    shutil.copy(os.path.join(core.VERIF, 'vlib', 'ref', 'c20h.py'), os.path.join(d, 'c20h.py'))
    ext = w.get('ext', '.py')
    d, info = tree.build_sources({'replaymod': w['module_source']}, subdir='r', ext=ext)
    inf = info['replaymod']
    if not inf['ok']:
        print('build failed at', inf['stage'], inf['errors'][-2000:])
        return 2
    refpath = inf['src']
    if w.get('ref_source'):
        refpath = os.path.join(d, 'replaymod_ref.py')
        open(refpath, 'w', encoding='utf-8').write(w['ref_source'])
    res = diff.run_cases(tree, d, 'replaymod', [w['case']], ref=refpath, compare={'exc_args': False, 'log': True}, nproc=1)
    for m in res.mismatches:
        le, lg = _log(m['exp']), _log(m['got'])
        print('expected', m['exp'][:2], [(ev_name(e), ev_fullkey(e)) for e in le])
        print('observed', m['got'][:2], [(ev_name(e), ev_fullkey(e)) for e in lg])
    for c in res.crashes:
        print('crash', c['kind'], c['stderr'][-1500:])
    if res.mismatches or res.crashes:
        print('VIOLATION property=%s replay=<replayed>' % ck.pid)
        return 1
    print('replay: case now agrees with the reference (%d evaluated, fatal=%s)' % (res.n, res.fatal))
    return 0
