"""C38 Pure-Python mode behaves the same interpreted and compiled (DESIGN.md section 5, C38).

(a) generated pure-mode `.py` modules (typed arguments/locals through annotations, @cython.locals, cython.declare;
    @cfunc/@ccall/@inline/@returns/@exceptval helpers; a @cclass; cython.cdiv/cmod/cast) whose variables provably stay
    inside their declared C ranges: module executed by CPython with the mirror's Cython/Shadow.py as `cython` vs compiled.
(b) sweeps of Shadow.cdiv / cmod / cast against the compiled pure-mode functions, native `//`/`%` under
    cdivision(True) and a first-principles model (props/C38_worker.py)."""
import json
import os
import re
from concurrent.futures import ThreadPoolExecutor

from vlib import core, creach, cy, diff
from vlib.gen import puremode as gen
from props import C38_sweep_src as sweepsrc

SETUP = ("import sys, os, Cython.Shadow as _sh\n"
         "sys.modules['cython'] = _sh\n"
         "assert os.path.realpath(_sh.__file__).startswith(os.path.realpath(%r)) and _sh.__file__.endswith('.py'), _sh.__file__\n"
         "assert _sh.compiled is False\n")

TYPED_LOCAL = re.compile(r'^\s*(?:unsigned |signed )?(?:int|long|short|double|PY_LONG_LONG|char)\s+__pyx_v_\w+;', re.M)


def classify(fdesc, case, exp, got):
    feats = set(fdesc['features']) if fdesc else set()
    ek = exp[0] + ':' + (exp[1][0] if exp[0] == 'ok' else exp[1])
    gk = got[0] + ':' + (got[1][0] if got[0] == 'ok' else got[1])
    # structural: which tuple slots differ and of which kind (int/float/bool)
    slots = []
    if exp[0] == 'ok' and got[0] == 'ok' and exp[1][0] == 'tuple' and got[1][0] == 'tuple':
        for i, (a, b) in enumerate(zip(exp[1][1], got[1][1])):
            if a != b:
                slots.append('%s->%s' % (a[0], b[0]))
    used = sorted(f for f in feats if f in ('cdiv', 'cmod', 'cast_double_to_int', 'cast_int_to_int', 'cast_int_to_double',
                                            'int_truediv', 'pydiv', 'shift', 'bitop', 'for', 'while', 'call_cfunc',
                                            'call_ccall', 'call_inline', 'call_exceptval', 'mixed_arith'))
    return 'prog:%s:%s->%s:slots=%s:features=%s' % (fdesc['family'] if fdesc else '?', ek, gk, ','.join(sorted(set(slots))) or '-',
                                                   '+'.join(used))


def main(ck):
    tree = cy.Tree('C38')
    nmods = ck.pick(10, 60)
    per_mod = ck.pick(30, 50)
    ninputs = 20
    mods = {}
    descs = {}
    for mi in range(nmods):
        rng = ck.rng('mod%d' % mi)
        src, funcs, helpers = gen.gen_module(rng, per_mod, name_prefix='m%d_' % mi)
        name = 'c38p%d' % mi
        mods[name] = src
        descs[name] = (funcs, helpers)
    mods['c38sweep'] = sweepsrc.source()
    d, info = tree.build_sources(mods, subdir='b', ext='.py')
    setup = SETUP % tree.mirror
    skipped = 0
    jobs = []
    typed_funcs = 0
    total_funcs = 0
    feature_hist = {}
    for name, (funcs, helpers) in descs.items():
        inf = info[name]
        if not inf['ok']:
            skipped += 1
            ck.note('build failure %s at %s: %s' % (name, inf['stage'], inf['errors'][-800:]))
            continue
        ctext = open(inf['c'], encoding='utf-8', errors='replace').read()
        fb = creach.function_bodies(ctext)
        typed = set()
        for cname, body in fb.items():
            m = re.search(r'(fm\d+_\d+)$', cname)
            if m and TYPED_LOCAL.search(body):
                typed.add(m.group(1))
        rng = ck.rng('inputs' + name)
        cases = []
        for f in funcs:
            total_funcs += 1
            if f['name'] in typed:
                typed_funcs += 1
            for ft in f['features']:
                feature_hist[ft] = feature_hist.get(ft, 0) + 1
            pools = [gen.input_values(rng, ty, lo, hi, 4) for (_, ty, lo, hi) in f['args']]
            seen = set()
            for k in range(ninputs):
                if k == 0:
                    a = [p[0] for p in pools]       # all lower bounds
                elif k == 1:
                    a = [p[1] if len(p) > 1 else p[0] for p in pools]   # all upper bounds
                else:
                    a = [rng.choice(p) for p in pools]
                t = '(%s,)' % ', '.join(a)
                if t in seen:
                    continue
                seen.add(t)
                cases.append({'f': f['name'], 'a': t, 't': f['family'] + ('/typed' if f['name'] in typed else '/untyped')})
        cases.append({'x': 'M.is_compiled() == (not M.__name__.startswith("ref_"))', 't': 'meta'})
        for n in (0, 1, 5, 30):
            for st in (-1000, -7, 0, 3, 999):
                cases.append({'f': 'use_acc', 'a': '(%d, %d, %r)' % (n, st, 0.5 * st), 't': 'cclass'})
        for h in helpers:
            if h['kind'] == 'ccall':
                for k in range(6):
                    a = [rng.choice(gen.input_values(rng, ty, lo, hi, 2)) for (ty, lo, hi) in h['params']]
                    cases.append({'f': h['name'], 'a': '(%s,)' % ', '.join(a), 't': 'ccall-helper'})
        jobs.append((name, inf, cases))

    def runjob(j):
        name, inf, cases = j
        return diff.run_cases(tree, d, name, cases, ref=inf['src'], setup=setup, compare={'log': False},
                              tagdir='run_' + name, timeout=600, nproc=1)
    with ThreadPoolExecutor(min(8, max(1, len(jobs)))) as ex:
        results = list(ex.map(runjob, jobs))
    total_n = 0
    distinct = 0
    samples = []
    hist = {}
    for (name, inf, cases), res in zip(jobs, results):
        total_n += res.n
        samples.extend(res.samples[:1])
        fmap = {f['name']: f for f in descs[name][0]}
        for h in descs[name][1]:
            fmap[h['name']] = {'features': sorted(h['features']), 'family': h['family'] + '-helper', 'src': h['src']}
        for k, v in res.hist.items():
            hist[k] = hist.get(k, 0) + v
            if k.split('|')[0].endswith('/typed') or k.split('|')[0] in ('cclass', 'ccall-helper'):
                pass
        distinct += res.distinct
        src = mods[name]
        for m in res.mismatches:
            fd = fmap.get(m['case'].get('f'))
            key = classify(fd, m['case'], m['exp'], m['got']) if fd else 'prog:%s:%s->%s' % (
                m['case'].get('f', 'meta-expression'), m['exp'][0], m['got'][0])
            ck.discrepancy(key, 'pure-mode function %s%s: interpreted (Shadow) %s, compiled %s' % (
                m['case'].get('f'), m['case'].get('a'), m['exp'], m['got']),
                {'module_source': src, 'function_source': fd['src'] if fd else None, 'ext': '.py', 'case': m['case'],
                 'expected': m['exp'], 'observed': m['got'], 'note': 'reference = same module run by CPython with '
                 'Cython/Shadow.py as cython'})
        for c in res.crashes:
            fd = fmap.get(c['case'].get('f'))
            ck.discrepancy('prog-crash:%s' % ('+'.join(sorted(fd['features'])) if fd else '?'), 'crash/hang %s' % c['kind'],
                           {'module_source': src, 'ext': '.py', 'case': c['case'], 'stderr': c['stderr']})
        for ft in res.fatal:
            ck.inconclusive_if(True, 'driver failed for %s: %s' % (name, str(ft)[-400:]))

    # ---------------------------------------------------------------- (b) sweeps
    sweep_eval = 0
    sweep_classes = {}
    sweep_by_fn = {}
    sinf = info['c38sweep']
    if not sinf['ok']:
        ck.inconclusive_if(True, 'sweep module failed to build: %s' % sinf['errors'][-500:])
    else:
        groups = [[t] for t in sweepsrc.INT_TYPES]

        def runsweep(gi):
            sp = os.path.join(tree.work, 'sweep_%d.json' % gi)
            outp = os.path.join(tree.work, 'sweep_out_%d.json' % gi)
            with open(sp, 'w') as f:
                json.dump({'builddir': d, 'mirror': tree.mirror, 'source': sinf['src'], 'mod': 'c38sweep',
                           'seed': '%d:%d' % (ck.seed, gi), 'tier': ck.tier, 'types': groups[gi], 'out': outp,
                           'float_casts': gi == 0}, f)
            r = core.run([core.PY, '-m', 'props.C38_worker', sp], env=tree.env(d), timeout=ck.pick(600, 3000), as_gb=6)
            if not os.path.exists(outp):
                return {'error': 'rc=%s timed_out=%s %s' % (r.rc, r.timed_out, (r.err or '')[-1500:])}
            return core.read_json(outp)
        with ThreadPoolExecutor(len(groups)) as ex:
            sres = list(ex.map(runsweep, range(len(groups))))
        for gi, r in enumerate(sres):
            if 'error' in r:
                ck.inconclusive_if(True, 'sweep worker %s failed: %s' % (groups[gi], r['error']))
                continue
            sweep_eval += r['evaluations']
            for k, v in r['distinct_classes'].items():
                sweep_classes[k] = sweep_classes.get(k, 0) + v
            for k, v in r['by_function'].items():
                sweep_by_fn[k] = sweep_by_fn.get(k, 0) + v
            for m in r['mismatches']:
                ck.discrepancy('sweep:' + m['key'], 'Shadow/compiled/model disagree: %s' % json.dumps(m)[:400],
                               {'sweep': m, 'module_source': sweepsrc.source(), 'ext': '.py',
                                'note': 'run props.C38_worker on the sweep module'})
            for k, v in r['keys'].items():
                ck.cov.setdefault('sweep_mismatch_counts', {})[k] = v
    share = typed_funcs / total_funcs if total_funcs else 0.0
    ck.inconclusive_if(skipped > max(1, nmods // 5), '%d of %d generated modules failed to build' % (skipped, nmods))
    ck.inconclusive_if(total_funcs > 0 and share < 0.8, 'only %.0f%% of programs have C-typed locals in the generated C' % (100 * share))
    ck.inconclusive_if(sweep_eval == 0, 'no sweep evaluation')
    for need in ('cdiv', 'cmod', 'cast_double_to_int', 'call_cfunc', 'call_ccall', 'for', 'while', 'style_annot',
                 'style_locals', 'style_declare', 'kind_ccall', 'family_unsigned'):
        ck.inconclusive_if(feature_hist.get(need, 0) == 0, 'feature %s not generated' % need)
    nontrivial = sum(v for k, v in hist.items() if '/typed' in k.split('|')[0] or k.split('|')[0] in ('cclass', 'ccall-helper'))
    return ck.finish(
        total_n + sweep_eval, min(distinct, nontrivial) + len(sweep_classes),
        '(a) generated pure-mode functions with interval-checked typed variables, %d inputs each (all lower bounds, all upper '
        'bounds, random boundary mixes); interpreted with Cython/Shadow.py vs compiled; distinct = distinct (function, '
        'interpreted outcome) among functions whose generated C declares C-typed locals. (b) cdiv/cmod/cast sweeps: '
        'distinct = (operation, sign/exactness class) cells with agreeing 5-way results' % ninputs,
        samples,
        extra={'programs': total_funcs, 'programs_with_c_typed_locals': typed_funcs, 'typed_share': round(share, 3),
               'modules': nmods, 'modules_failed_to_build': skipped, 'program_cases': total_n,
               'feature_hist': dict(sorted(feature_hist.items())), 'outcome_hist': dict(sorted(hist.items())),
               'sweep_evaluations': sweep_eval, 'sweep_cells': dict(sorted(sweep_classes.items())),
               'sweep_by_function': dict(sorted(sweep_by_fn.items()))},
        assumptions=['values of all declared C variables and all intermediate results stay inside the C type given by the '
                     'usual arithmetic conversions (enforced by interval analysis in the generator); signed and unsigned '
                     'operands are never mixed; shifts only on non-negative operands; no division by zero; TYPE_MIN / -1 excluded',
                     'float (binary32) values are restricted to exactly representable ones',
                     'cdiv/cmod are checked on integers only (their documented domain)'])


def replay(ck, data):
    w = data.get('witness', data)
    if 'sweep' in w:
        print(json.dumps(w['sweep'], indent=1))
        print('re-run: ./check C38 (the sweep is deterministic per seed)')
        return 2
    tree = cy.Tree('C38r')
    d, info = tree.build_sources({'c38replay': w['module_source']}, subdir='r', ext='.py')
    inf = info['c38replay']
    if not inf['ok']:
        print('build failed', inf['errors'][-2000:])
        return 2
    res = diff.run_cases(tree, d, 'c38replay', [w['case']], ref=inf['src'], setup=SETUP % tree.mirror,
                         compare={'log': False}, nproc=1)
    for m in res.mismatches:
        print('interpreted', m['exp'])
        print('compiled   ', m['got'])
    for c in res.crashes:
        print('crash', c['kind'], c['stderr'][-1500:])
    if res.mismatches or res.crashes:
        print('VIOLATION property=C38 replay=<replayed>')
        return 1
    print('replay: agrees now (%d evaluated)' % res.n)
    return 0
