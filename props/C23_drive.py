"""Driver-side helper of C23 (imported into the diffdriver eval env through env_mods).

`drive(M, log, name, kind, history, flags)` creates the generator / coroutine / async generator
`M.<name>()` and applies the operation history, returning the whole trace.  The same function is used
for the reference module (CPython executing the source) and the compiled module; nothing here looks
at which one it is except the coverage writer (reference side only).

Operations (strings):
  generators : next  send:<v>  throw:<e>  close  del          (prefix 'H!' = issued while the caller
  coroutines : send:<v>  throw:<e>  close  del  await-next       is handling KeyError('outer'))
  async gens : anext  asend:<v>  athrow:<e>  aclose  del  plus suffixes  '/p' (leave the awaitable
               half-driven), '/t' (throw ValueError into the awaitable after its first step),
               '/c' (close the awaitable after its first step)
<v> in N(one) 1 b x ; <e> in V Vi GE GEi SI SIi MB ME KE 2arg bad
"""
import gc
import json
import os
import sys
import types
import warnings

from vlib.sig import sig, sig_exc

__all__ = ['drive', 'MyErr', 'MyBase', 'Holder', 'CM', 'PlainIter', 'ThrowRaises', 'CloseRaises', 'SendIter',
           'pysub', 'pysub_ignore', 'pysub_ret', 'PyAw', 'ItAw', 'pycoro', 'tcoro', 'ACM', 'AIter', 'pyagen']

warnings.simplefilter('ignore')

_LOG = [None]
_COV = [None]
_FROZEN = [False]


def _log(x):
    lg = _LOG[0]
    if lg is not None:
        lg(x)


class MyErr(Exception):
    pass


class MyBase(BaseException):
    pass


class Holder:
    g = None


# ----------------------------------------------------------------------------- injected helpers
class CM:
    def __init__(self, k, suppress=False, bad_exit=False):
        self.k, self.suppress, self.bad_exit = k, suppress, bad_exit

    def __enter__(self):
        _log(('enter', self.k))
        return self.k

    def __exit__(self, t, v, tb):
        _log(('exit', self.k, t.__name__ if t else None, type(sys.exc_info()[1]).__name__))
        if self.bad_exit and t is not None:
            raise KeyError('exit%d' % self.k)
        return self.suppress


class PlainIter:
    """iterator without send/throw/close"""
    def __init__(self, base, n):
        self.i, self.n, self.base = 0, n, base

    def __iter__(self):
        return self

    def __next__(self):
        if self.i >= self.n:
            raise StopIteration
        self.i += 1
        return self.base + self.i - 1


class ThrowRaises(PlainIter):
    def throw(self, *a):
        _log(('tr-throw', len(a), getattr(a[0], '__name__', type(a[0]).__name__)))
        raise KeyError('tr')

    def close(self):
        _log('tr-close')


class CloseRaises(PlainIter):
    def close(self):
        _log('cr-close')
        raise KeyError('cr')


class SendIter(PlainIter):
    def send(self, v):
        _log(('si-send', v))
        if v == 'x':
            raise StopIteration('si-x')
        return self.base + 50

    def throw(self, *a):
        _log(('si-throw', len(a)))
        return self.base + 60


def pysub(base):
    try:
        x = yield base
        _log(('ps', x))
        try:
            y = yield base + 1
        except ValueError as e:
            _log(('ps-caught', e.args))
            y = yield base + 2
        return (x, y)
    finally:
        _log('ps-fin')


def pysub_ignore(base):
    try:
        yield base
    except GeneratorExit:
        _log('psi-ge')
        yield base + 1
    except ValueError:
        yield base + 2
        raise
    yield base + 3


def pysub_ret(base):
    _log('psr')
    return base
    yield


class PyAw:
    def __init__(self, k):
        self.k = k

    def __await__(self):
        try:
            v = yield self.k
        except MyErr as e:
            _log(('aw-caught', self.k))
            v = yield self.k + 1
        return v


class ItAw:
    def __init__(self, k):
        self.k = k

    def __await__(self):
        return PlainIter(self.k, 1)


async def pycoro(k):
    try:
        v = await PyAw(k)
    finally:
        _log(('pc-fin', k))
    return ('pc', v)


@types.coroutine
def tcoro(k):
    v = yield k
    return ('tc', v)


class ACM:
    def __init__(self, k, suppress=False):
        self.k, self.suppress = k, suppress

    async def __aenter__(self):
        _log(('aenter', self.k))
        await PyAw(self.k)
        return self.k

    async def __aexit__(self, t, v, tb):
        _log(('aexit', self.k, t.__name__ if t else None))
        await PyAw(self.k + 2)
        return self.suppress


class AIter:
    def __init__(self, base, n):
        self.base, self.n, self.i = base, n, 0

    def __aiter__(self):
        return self

    async def __anext__(self):
        if self.i >= self.n:
            raise StopAsyncIteration
        self.i += 1
        v = await PyAw(self.base + 2 * self.i)
        return (self.i, v)


async def pyagen(base):
    try:
        x = yield base
        await PyAw(base + 1)
        yield (base + 3, x)
    finally:
        _log(('pyagen-fin', base))


# ----------------------------------------------------------------------------- operations
VALS = {'N': None, '1': 1, 'b': 'b', 'x': 'x'}


def _exc_args(code):
    if code == 'V':
        return (ValueError,)
    if code == 'Vi':
        return (ValueError('tv', 1),)
    if code == 'GE':
        return (GeneratorExit,)
    if code == 'GEi':
        return (GeneratorExit('ge'),)
    if code == 'SI':
        return (StopIteration,)
    if code == 'SIi':
        return (StopIteration(5),)
    if code == 'SAI':
        return (StopAsyncIteration,)
    if code == 'MB':
        return (MyBase,)
    if code == 'ME':
        return (MyErr('me'),)
    if code == 'KE':
        return (KeyError('k'),)
    if code == '2arg':
        return (ValueError, 'two')
    if code == 'bad':
        return (42,)
    raise AssertionError(code)


def _outcome(fn):
    """run fn(); classify: yielded value / stop(value) / exception"""
    try:
        r = fn()
    except StopIteration as e:
        return ['stop', sig(e.value), _chain(e)]
    except StopAsyncIteration as e:
        return ['astop', sig(e.args), _chain(e)]
    except (KeyboardInterrupt, SystemExit):
        raise
    except BaseException as e:
        return sig_exc(e, with_args=True, chain=True)
    return ['yield', sig(r)]


def _chain(e):
    c, k = e.__cause__, e.__context__
    return [sig_exc(c, 1, True, True) if c is not None else None, sig_exc(k, 1, True, True) if k is not None else None]


class _Unraisable:
    def __init__(self):
        self.recs = []

    def __call__(self, u):
        if isinstance(u.exc_value, StopAsyncIteration):
            # CPython-internal: finalising an async generator that swallowed GeneratorExit and ran to its end makes
            # gen_close() see StopAsyncIteration (it only expects StopIteration/GeneratorExit) -> not part of the protocol
            return
        self.recs.append([type(u.exc_value).__name__ if u.exc_value is not None else getattr(u.exc_type, '__name__', '?'),
                          sig(getattr(u.exc_value, 'args', None))])


_FIN_TAGS = ("'cagen-fin'", "'pyagen-fin'", "'cs-fin'", "'ps-fin'", "'pc-fin'", "'cc-fin'", "'caw-fin'")


def _is_helper_fin(it):
    # log entries written by the finally blocks of the helper sub-generators / awaitables
    if it[0] == 'str':
        return it[1] in _FIN_TAGS
    return it[0] == 'tuple' and it[1] and it[1][0][0] == 'str' and it[1][0][1] in _FIN_TAGS


def _normalise_log(log, n0):
    """Order in which several *abandoned* sub-iterators of one object are finalised (frame teardown order in
    CPython, closure field order in compiled code) is not part of the protocol: sort every run of consecutive
    helper-finaliser entries."""
    items = log.items
    i = n0
    while i < len(items):
        if _is_helper_fin(items[i]):
            j = i
            while j < len(items) and _is_helper_fin(items[j]):
                j += 1
            if j - i > 1:
                items[i:j] = sorted(items[i:j], key=repr)
            i = j
        else:
            i += 1
    return items[n0:]


def _in_handler(fn):
    def run():
        try:
            raise KeyError('outer')
        except KeyError:
            return fn()
    return run


def _gen_op(g, op):
    if op == 'next':
        return lambda: next(g)
    if op == 'await-next':
        return lambda: next(g)
    if op.startswith('send:'):
        v = VALS[op[5:]]
        return lambda: g.send(v)
    if op.startswith('throw:'):
        a = _exc_args(op[6:])
        return lambda: g.throw(*a)
    if op == 'close':
        return lambda: g.close()
    raise AssertionError(op)


def _agen_step(ag, op, mode):
    """perform one async-generator operation by driving its awaitable by hand"""
    if op == 'anext':
        aw = ag.__anext__()
    elif op.startswith('asend:'):
        aw = ag.asend(VALS[op[6:]])
    elif op.startswith('athrow:'):
        aw = ag.athrow(*_exc_args(op[7:]))
    elif op == 'aclose':
        aw = ag.aclose()
    else:
        raise AssertionError(op)
    steps = []
    for i in range(8):
        if i == 1 and mode == 'p':
            steps.append(['left-pending'])
            return steps, aw
        if i == 1 and mode == 't':
            o = _outcome(lambda: aw.throw(ValueError('into-aw')))
        elif i == 1 and mode == 'c':
            o = _outcome(lambda: aw.close())
            steps.append(o)
            break
        else:
            o = _outcome(lambda: aw.send(None))
        steps.append(o)
        if o[0] != 'yield':
            break
    return steps, None


def drive(M, log, name, kind, history, flags=''):
    if not _FROZEN[0]:
        _FROZEN[0] = True
        gc.collect()
        gc.freeze()
    _LOG[0] = log
    hook = _Unraisable()
    old_hook = sys.unraisablehook
    sys.unraisablehook = hook
    old_ag = sys.get_asyncgen_hooks()
    trace = []
    pend = []
    try:
        if 'h' in flags and kind == 'agen':
            sys.set_asyncgen_hooks(firstiter=lambda ag: _log('firstiter'), finalizer=lambda ag: _log('finalizer'))
        holder = getattr(M, 'HOLD', None)
        try:
            g = getattr(M, name)()
        except BaseException as e:   # noqa
            return [['create', sig_exc(e, with_args=True, chain=True)]]
        trace.append(['create', sig(g)[0] if kind != 'genexpr' else 'generator'])
        if holder is not None:
            holder.g = g
        tgt = g
        fn = None
        if 'w' in flags and kind == 'coro':
            tgt = g.__await__()
        for op in history:
            n0 = len(log.items)
            u0 = len(hook.recs)
            inh = op.startswith('H!')
            o = op[2:] if inh else op
            if o == 'del':
                if holder is not None:
                    holder.g = None
                g = tgt = fn = None
                pend[:] = []
                gc.collect()
                trace.append([op, ['deleted'], _normalise_log(log, n0), hook.recs[u0:]])
                break
            if kind == 'agen':
                o, _, mode = o.partition('/')
                fn = lambda: _agen_step(g, o, mode)
                if inh:
                    fn = _in_handler(fn)
                try:
                    steps, left = fn()
                except (KeyboardInterrupt, SystemExit):
                    raise
                except BaseException as e:
                    steps, left = [['op-raised'] + sig_exc(e, with_args=True, chain=True)], None
                if left is not None:
                    pend.append(left)
                out = ['steps', steps]
            else:
                fn = _gen_op(tgt, o)
                if inh:
                    fn = _in_handler(fn)
                out = _outcome(fn)
                if o == 'close' and out[0] == 'yield':
                    out = ['closed', out[1]]
            trace.append([op, out, _normalise_log(log, n0), hook.recs[u0:]])
        else:
            # abandonment: every history ends by dropping the object
            n0 = len(log.items)
            u0 = len(hook.recs)
            if holder is not None:
                holder.g = None
            g = tgt = fn = None
            pend[:] = []
            gc.collect()
            trace.append(['(drop)', ['deleted'], _normalise_log(log, n0), hook.recs[u0:]])
    finally:
        sys.unraisablehook = old_hook
        sys.set_asyncgen_hooks(*old_ag)
        _LOG[0] = None
    if getattr(M, '__name__', '').startswith('ref_'):
        _coverage(M, name, kind, history, trace)
    return trace


# ----------------------------------------------------------------------------- reach evidence (reference side)
def _state_after(ctx, kind, prev_state, op, out):
    """abstract state of the object after `op` produced `out`, from the reference trace"""
    if out[0] == 'steps':
        last = out[1][-1] if out[1] else ['?']
        if last[0] == 'left-pending':
            return 'agen-op-pending'
        if last[0] == 'stop':
            # the awaitable finished: async generator yielded a value or aclose() completed
            if op.startswith('aclose'):
                return 'closed'
            return _yield_state(ctx, last[1])
        if last[0] == 'yield':
            return 'agen-op-pending'
        if last[0] == 'exc' and last[1] == 'TypeError' and prev_state == 'created' and op.startswith('asend:'):
            return 'created'
        if last[0] == 'exc' and last[1] == 'RuntimeError' and 'already running' in repr(last[2]):
            return prev_state
        if last[0] == 'exc' and last[1] == 'RuntimeError' and 'ignored GeneratorExit' in repr(last[2]):
            return 'susp-unknown'
        return 'finished'
    if out[0] == 'yield':
        return _yield_state(ctx, out[1])
    if out[0] == 'closed':
        return 'closed'
    if out[0] == 'exc' and prev_state == 'created' and op.startswith('send:'):
        return 'created'
    if out[0] == 'exc' and len(out) > 2 and out[1] == 'ValueError' and 'already executing' in repr(out[2]):
        return prev_state
    if out[0] == 'exc' and len(out) > 2 and out[1] == 'RuntimeError' and 'ignored GeneratorExit' in repr(out[2]):
        return 'susp-unknown'
    return 'finished'


def _yield_state(ctx, vsig):
    yid = None
    try:
        if vsig[0] == 'int':
            yid = int(vsig[1])
        elif vsig[0] == 'tuple' and vsig[1] and vsig[1][0][0] == 'int':
            yid = int(vsig[1][0][1])
    except Exception:
        yid = None
    if yid is None:
        return 'susp-other'
    if yid >= 1000:
        return 'deleg-' + ctx.get((yid - 1000) // 10, '?')
    return 'susp-' + ctx.get(yid, 'plain')


def _coverage(M, name, kind, history, trace):
    if _COV[0] is None:
        p = os.environ.get('C23_COV')
        if not p:
            _COV[0] = False
            return
        _COV[0] = open('%s.%d' % (p, os.getpid()), 'a')
    if not _COV[0]:
        return
    state = 'created'
    cells = []
    ctx = getattr(M, 'CTXS', {}).get(name, {})
    for ent in trace[1:]:
        op, out = ent[0], ent[1]
        o = op[2:] if op.startswith('H!') else op
        opk = o.split(':')[0].split('/')[0] + (':' + o.split(':')[1].split('/')[0] if ':' in o else '')
        cells.append('%s~%s~%s' % (kind, state, opk))
        if out[0] == 'deleted':
            break
        state = _state_after(ctx, kind, state, o, out)
    # re-entrant operations are logged by the body as ('re', op, outcome...)
    nre = 0
    for ent in trace[1:]:
        for it in ent[2]:
            if it and it[0] == 'tuple' and it[1] and it[1][0] == ['str', "'re'"]:
                nre += 1
                cells.append('%s~running~%s' % (kind, it[1][1][1].strip("'")))
    import hashlib
    h = hashlib.blake2b(repr((name, trace)).encode('utf-8', 'replace'), digest_size=8).hexdigest()
    nontrivial = sum(1 for c in cells if '~created~' not in c) >= 1 and len(cells) >= 2
    _COV[0].write(json.dumps({'h': h, 'nt': nontrivial, 'cells': cells, 'unr': sum(len(e[3]) for e in trace[1:])}) + '\n')
    _COV[0].flush()
