"""C40 Safe type inference never changes pure-Python results (DESIGN.md section 5, C40).

infergen functions (untyped locals initialised from literals and updated by arithmetic, loops, conditionals,
character loops ...; all locals are returned) are compiled twice from the same source: with the default (safe) type
inference and with infer_types=False.  Both builds and CPython are run on the same inputs; the deep, type-qualified
signatures of result and log are compared.  An in-compiler monitor records which locals were inferred as C types.
"""
import json
import os
import re

from vlib import core, cy, diff
from vlib.gen import infergen
from props.C21 import build          # translate with the in-compiler monitor + C build

COMPARE = {'exc_args': False, 'log': True}

REF_STATS = r'''
import json, sys, types
src = open(sys.argv[1]).read()
cases = json.load(open(sys.argv[2]))
m = types.ModuleType('c40ref')
exec(compile(src, 'c40ref', 'exec'), m.__dict__)
m.log = lambda *a: None
def big(x):
    if isinstance(x, bool): return False
    if isinstance(x, int): return abs(x) >= 2 ** 63
    if isinstance(x, tuple): return any(big(y) for y in x)
    return False
n = nbig = nexc = 0
for f, a in cases:
    n += 1
    try:
        r = getattr(m, f)(*eval(a))
        nbig += big(r)
    except Exception:
        nexc += 1
print(json.dumps({'n': n, 'beyond_2_63': nbig, 'raised': nexc}))
'''


def outcome_class(o):
    return 'ok' if o[0] == 'ok' else 'exc:' + o[1]


def first_diff_types(e, g):
    """for two 'ok' observations of tuple results: (index, expected type, observed type, same repr?) of the first
    differing element"""
    try:
        te, tg = e[1], g[1]
        if te[0] == 'tuple' and tg[0] == 'tuple':
            for i, (x, y) in enumerate(zip(te[1], tg[1])):
                if x != y:
                    return i, x[0], y[0], x[1:] == y[1:]
    except Exception:
        pass
    return None


def mechanism(f, exp, got_default, got_noinfer, int_into_float=False):
    """key for a case where the default-inference build disagrees with the infer_types=False build.
    int_into_float: the in-compiler monitor saw a local of this function inferred as C double although integer-typed
    values are assigned to it"""
    ec, gc = outcome_class(exp), outcome_class(got_default)
    if int_into_float and got_noinfer == exp:
        # whatever the visible symptom (an int result that became a float, a TypeError from `float & int`, a different
        # quotient ...): integer values stored in that local turned into floats; agrees with CPython without inference
        return 'int-value-of-float-inferred-local-becomes-float', {'symptom': '%s->%s' % (ec, gc)}
    nc = outcome_class(got_noinfer)
    base = 'noinfer-agrees-with-cpython' if got_noinfer == exp else 'noinfer-differs-too'
    if ec == 'ok' and gc == 'ok':
        fd = first_diff_types(exp, got_default)
        if fd and got_noinfer == exp and 'conditional-expression' in f['feat'] and (fd[1], fd[2]) in (('int', 'float'), ('bool', 'int')):
            # `x if c else y` over locals that were inferred as C values has the C spanning type of its branches
            # (long/double -> double, int object/bint -> int): the value of the other branch is converted
            return 'conditional-expression-over-inferred-locals-converts-branch-value', {'types': '%s->%s' % (fd[1], fd[2])}
        if fd:
            i, tx, ty, same_repr = fd
            var = list(f['kinds'])[i] if i < len(f['kinds']) else '?'
            kind = f['kinds'].get(var, '?')
            if tx == 'int' and ty == 'float' and got_noinfer == exp:
                # a local that receives int and float values is inferred as C double: its int values come back as floats
                return 'int-value-of-float-inferred-local-becomes-float', {'local': var, 'kind': kind}
            if tx != ty:
                return 'result-type:%s->%s:%s-local:%s' % (tx, ty, kind, base), {'local': var}
            return 'result-value:%s:%s-local:%s' % (tx, kind, base), {'local': var}
        return 'log-or-shape:%s' % base, {}
    return 'outcome:%s->%s(noinfer %s)' % (ec, gc, nc), {}


def main(ck):
    tree = cy.Tree('C40')
    rng = ck.rng('infer')
    nfuncs = ck.pick(240, 1200)
    per_mod = ck.pick(30, 100)
    ninputs = ck.pick(30, 30)
    mods = {}
    fmap = {}
    feat = {}
    allfuncs = [infergen.gen_function(rng, 'iz%dz' % i) for i in range(nfuncs)]
    # pre-screen: translate every function on its own under both configurations, so that one function the compiler
    # rejects (or crashes on) does not take a whole module with it
    pd = tree.subdir('prescreen')
    jobs_d, jobs_n = [], []
    for f in allfuncs:
        p = os.path.join(pd, f['name'] + '.py')
        with open(p, 'w') as fh:
            fh.write(infergen.HEADER + f['src'])
        jobs_d.append({'src': p, 'out': os.path.join(pd, f['name'] + '_d.c')})
        jobs_n.append({'src': p, 'out': os.path.join(pd, f['name'] + '_n.c'), 'directives': {'infer_types': False}})
    res_pd, _ = tree.translate(jobs_d, timeout=3600)
    # (the infer_types=False translation is only needed for the functions the default configuration rejects)
    failed_idx = [i for i, r in enumerate(res_pd) if not r['ok']]
    res_fail, _ = tree.translate([jobs_n[i] for i in failed_idx], timeout=3600)
    res_pn = [{'ok': True}] * len(res_pd)
    for i, r in zip(failed_idx, res_fail):
        res_pn[i] = r
    rejected_both = 0
    good = []
    for f, rd, rn in zip(allfuncs, res_pd, res_pn):
        if rd['ok'] and rn['ok']:
            good.append(f)
            continue
        if not rd['ok'] and not rn['ok']:
            rejected_both += 1      # not an effect of type inference (statically detectable type errors etc.: C43's domain)
            continue
        which = 'default-inference' if not rd['ok'] else 'infer_types=False'
        r = rd if not rd['ok'] else rn
        kind = 'compiler-crash' if r.get('exc') or 'Traceback' in (r.get('errors') or '') or 'Compiler crash' in (r.get('errors') or '') \
            else 'compile-error'
        msg = [ln for ln in ((r.get('exc') or '') + (r.get('errors') or '')).splitlines() if ln.strip()][-1:]
        ck.discrepancy('%s-rejects-program-that-compiles-otherwise:%s' % (which, kind),
                       '%s: %s only with %s: %s' % (f['name'], kind, which, (msg or ['?'])[0][:200]),
                       {'function_source': infergen.HEADER + f['src'], 'ext': '.py', 'rejected_with': which,
                        'diagnostics': ((r.get('exc') or '') + (r.get('errors') or ''))[-1500:]})
    ck.cov['prescreen'] = {'functions': nfuncs, 'compile_under_both': len(good), 'rejected_under_both': rejected_both}
    for mi in range(0, len(good), per_mod):
        name = 'c40m%d' % (mi // per_mod)
        funcs = good[mi:mi + per_mod]
        mods[name] = (infergen.HEADER + '\n\n'.join(f['src'] for f in funcs), funcs)
        for f in funcs:
            fmap[f['name']] = f
            for x in f['feat']:
                feat[x] = feat.get(x, 0) + 1
    srcs = {n: s for n, (s, _) in mods.items()}
    dd, idf = build(tree, srcs, 'default')
    dn, inn = build(tree, srcs, 'noinfer', directives={'infer_types': False})
    ck.cov['build_wall_s'] = round(ck.elapsed(), 1)
    skipped = 0
    inferred = []
    for cfg, info in (('default', idf), ('noinfer', inn)):
        for n, inf in info.items():
            if not inf['ok']:
                skipped += 1
                ck.note('build failure %s/%s at %s: %s' % (cfg, n, inf['stage'], inf['errors'][-600:]))
            if cfg == 'default':
                inferred += inf['plugin'].get('inferred', [])
    int_into_float_funcs = {x[0].split('.')[-1] for x in inferred if len(x) > 4 and x[4]}
    irng = ck.rng('inputs')
    total_n = total_distinct = 0
    samples = []
    hist = {}
    stats = {'n': 0, 'beyond_2_63': 0, 'raised': 0}
    both_differ_same = 0
    for n, (src, funcs) in mods.items():
        if not (idf[n]['ok'] and inn[n]['ok']):
            continue
        cases = []
        for f in funcs:
            for a in infergen.inputs(irng, ninputs):
                cases.append({'f': f['name'], 'a': a, 't': 'fn'})
        # reach statistics from the reference alone (bounded subprocess)
        cf = os.path.join(tree.subdir('stats'), n + '.json')
        with open(cf, 'w') as fh:
            json.dump([[c['f'], c['a']] for c in cases], fh)
        r = core.run([core.PY, '-c', REF_STATS, idf[n]['src'], cf], env=core.child_env([]), timeout=1200)
        try:
            st = json.loads(r.out.strip().splitlines()[-1])
            for k in stats:
                stats[k] += st[k]
        except Exception:
            ck.inconclusive_if(True, 'reference statistics run failed for %s: %s' % (n, (r.err or '')[-200:]))
        res_d = diff.run_cases(tree, dd, n, cases, ref=idf[n]['src'], compare=COMPARE, tagdir='run_d_' + n, timeout=3600, nproc=4)
        res_n = diff.run_cases(tree, dn, n, cases, ref=inn[n]['src'], compare=COMPARE, tagdir='run_n_' + n, timeout=3600, nproc=4)
        total_n += res_d.n
        total_distinct += res_d.distinct
        samples.extend(res_d.samples[:1])
        for k, v in res_d.hist.items():
            hist[k] = hist.get(k, 0) + v
        mis_n = {(m['case']['f'], m['case']['a']): m for m in res_n.mismatches}
        for m in res_d.mismatches:
            f = fmap[m['case']['f']]
            other = mis_n.get((m['case']['f'], m['case']['a']))
            got_n = other['got'] if other else m['exp']
            if other is not None and other['got'] == m['got']:
                # both builds deviate from CPython in the same way: not an effect of type inference (the statement
                # compares default inference with inference disabled) -> counted, reported by C01-type checks
                both_differ_same += 1
                continue
            key, info = mechanism(f, m['exp'], m['got'], got_n, f['name'] in int_into_float_funcs)
            ck.discrepancy(key, '%s%s: CPython %s | default inference %s | infer_types=False %s' % (
                f['name'], m['case']['a'], json.dumps(m['exp'])[:220], json.dumps(m['got'])[:220], json.dumps(got_n)[:120]),
                {'function_source': infergen.HEADER + f['src'], 'ext': '.py', 'case': m['case'], 'compare': COMPARE,
                 'cflags': [], 'directives': {}, 'expected': m['exp'], 'observed': m['got'],
                 'observed_infer_types_false': got_n, 'detail': info})
        truncated = res_d.nmismatch > len(res_d.mismatches) or res_n.nmismatch > len(res_n.mismatches)
        if truncated:
            ck.note('%s: mismatch records truncated by the driver (%d/%d default, %d/%d noinfer)' % (
                n, len(res_d.mismatches), res_d.nmismatch, len(res_n.mismatches), res_n.nmismatch))
        for m in ([] if truncated else res_n.mismatches):
            key2 = (m['case']['f'], m['case']['a'])
            if not any((x['case']['f'], x['case']['a']) == key2 for x in res_d.mismatches):
                # only the build without inference deviates from CPython
                f = fmap[m['case']['f']]
                ck.discrepancy('only-noinfer-differs:%s->%s' % (outcome_class(m['exp']), outcome_class(m['got'])),
                               '%s%s: CPython %s | infer_types=False %s (default inference agrees with CPython)' % (
                                   f['name'], m['case']['a'], json.dumps(m['exp'])[:220], json.dumps(m['got'])[:220]),
                               {'function_source': infergen.HEADER + f['src'], 'ext': '.py', 'case': m['case'],
                                'compare': COMPARE, 'directives': {'infer_types': False}, 'expected': m['exp'],
                                'observed': m['got']})
        for res, cfg in ((res_d, 'default'), (res_n, 'noinfer')):
            for c in res.crashes:
                if c['kind'].startswith('HANG'):
                    ck.inconclusive_if(True, 'watchdog fired on %s%s (%s)' % (c['case']['f'], c['case']['a'], cfg))
                    continue
                f = fmap[c['case']['f']]
                ck.discrepancy('crash:%s' % cfg, 'crash %s in %s%s' % (c['kind'], f['name'], c['case']['a']),
                               {'function_source': infergen.HEADER + f['src'], 'ext': '.py', 'case': c['case'], 'stderr': c['stderr']})
            for ft in res.fatal:
                ck.inconclusive_if(True, 'driver failed for %s/%s: %s' % (cfg, n, str(ft)[-300:]))
    # ---------------------------------------------------------------- reach
    funcs_with_c = {x[0].split('.')[-1] for x in inferred}
    frac_funcs = len(funcs_with_c) / max(1, len(good))
    frac_big = stats['beyond_2_63'] / max(1, stats['n'])
    ck.inconclusive_if(frac_funcs < 0.30, 'only %.1f%% of the functions have a C-inferred local' % (100 * frac_funcs))
    ck.inconclusive_if(frac_big < 0.05 or stats['beyond_2_63'] < 200, 'only %.1f%% (%d) of the inputs drive a value beyond 2**63' % (100 * frac_big, stats['beyond_2_63']))
    ck.inconclusive_if(skipped > 0, '%d module build(s) failed' % skipped)
    bytype = {}
    for x in inferred:
        bytype[x[2]] = bytype.get(x[2], 0) + 1
    return ck.finish(
        total_n, total_distinct,
        'infergen functions (2-5 untyped locals of int/float/str/bool/int-then-float kinds, range/char/while loops, '
        'conditionals, + - * // %% / ** << >> & | ^, unary ops, len, conditional expressions, in-place operators) x %d inputs '
        '(ints at the 2**31/2**63/2**64 boundaries, floats, bool, strings of all unicode kinds); the default-inference build '
        'and the infer_types=False build are both compared with CPython (type-qualified signatures of all returned locals and '
        'the log); distinct = distinct (function, CPython observation)' % ninputs,
        samples,
        extra={'functions': nfuncs, 'functions_with_C_inferred_local': len(funcs_with_c),
               'fraction_functions_with_C_inferred_local': round(frac_funcs, 3), 'C_inferred_locals_by_type': bytype,
               'functions_with_int_values_in_a_double_inferred_local': len(int_into_float_funcs),
               'reference_stats': stats, 'fraction_inputs_beyond_2_63': round(frac_big, 3),
               'cases_where_both_builds_deviate_identically_from_cpython': both_differ_same,
               'construct_functions': feat, 'outcome_hist': dict(sorted(hist.items(), key=lambda kv: -kv[1])[:20])},
        assumptions=['CPython 3.12.1 executing the identical source is the tie-breaker',
                     'exception class compared, not message text',
                     'cases in which both builds deviate from CPython in the same way are not attributed to type inference'])


def replay(ck, data):
    w = data.get('witness', data)
    tree = cy.Tree('C40r')
    rc = 0
    for cfg, directives in (('default', {}), ('noinfer', {'infer_types': False})):
        d, info = build(tree, {'replaymod': w['function_source']}, 'r_' + cfg, directives=directives)
        inf = info['replaymod']
        if not inf['ok']:
            print('build failed at', inf['stage'], inf['errors'][-2000:])
            return 2
        res = diff.run_cases(tree, d, 'replaymod', [w['case']], ref=inf['src'], compare=COMPARE, nproc=1, tagdir='rr_' + cfg)
        for m in res.mismatches:
            print(cfg, 'expected', json.dumps(m['exp']))
            print(cfg, 'observed', json.dumps(m['got']))
            if cfg == 'default':
                rc = 1
        for c in res.crashes:
            print('crash', c['kind'], c['stderr'][-1500:])
            rc = 1
    if rc:
        print('VIOLATION property=%s replay=<replayed>' % ck.pid)
    else:
        print('replay: case now agrees with the reference')
    return rc
