"""C28 Extension-type operators dispatch like Python classes (DESIGN.md section 5, C28).

One template per class family is rendered twice: as `cdef class` code in a .pyx module (compiled by the
working-tree compiler) and as plain Python classes (reference).  Family = cdef class A<k> (one subset of
{__op__, __rop__, __iop__} / of the six comparison methods), cdef subclass B<k>(A<k>) overriding a generated
subset, Python subclasses C<k>(A<k>) and E<k>(B<k>) (created by the driver from identical source for both
sides), plus unrelated pure-Python operand classes U (implements forward+reflected) and N (both return
NotImplemented) and int.  Every method logs (class, method, type(self), type(other)) through the harness
`log` and returns a tagged value or NotImplemented according to a generated table (NotImplemented iff the
other operand's kind is in a generated set).
"""
import re
import time
from concurrent.futures import ThreadPoolExecutor

from vlib import cy, diff

# (name, symbol) ; divmod and 3-arg pow have no infix form
ARITH = ['add', 'sub', 'mul', 'matmul', 'truediv', 'floordiv', 'mod', 'divmod', 'pow', 'lshift', 'rshift',
         'and', 'or', 'xor']
NO_INPLACE = {'divmod'}
HEADER = '''cimport cython

log = None

def _h(tag, s, o, ni, ret, *mod):
    # every generated special method is `return _h(...)`: log the call, then NotImplemented / tagged value
    log((tag, type(s).__name__, type(o).__name__) + mod)
    if type(o).__name__.split('_')[0] in ni:
        return NotImplemented
    if ret == 'tag':
        return (tag,)
    if ret == 'self':
        return s
    if ret == 'T':
        return True
    if ret == 'F':
        return False
    if ret == 'empty':
        return ()
    return None

'''
CMPS = ['lt', 'le', 'eq', 'ne', 'gt', 'ge']
KINDS = ['A', 'B', 'C', 'E', 'int', 'U', 'N']
OURS = ('A', 'B', 'C', 'E')

SETUP = r'''
import operator as _op

_SRC = {}

def _ns(M):
    ns = M.__dict__.get('_c28ns')
    if ns is None:
        ns = {}
        M._c28ns = ns
    return ns

def _fam(M, fam):
    ns = _ns(M)
    if fam not in ns:
        d = {'log': M.log, '_h': M._h, '__name__': 'c28drv'}
        for k, v in M.__dict__.items():
            if k.endswith('_' + fam):
                d[k] = v
        exec(_SRC[fam], d)
        ns[fam] = d
    return ns[fam]

def _mk(d, kind, fam):
    if kind == 'int':
        return 7
    return d[kind + '_' + fam]()

def _res(r, x, y):
    if r is x:
        return 'LEFT-OPERAND'
    if r is y:
        return 'RIGHT-OPERAND'
    return r

def run(M, fam, opname, form, lk, rk):
    d = _fam(M, fam)
    x = _mk(d, lk, fam)
    y = _mk(d, rk, fam)
    if form == 'bin':
        if opname == 'divmod':
            r = divmod(x, y)
        else:
            r = getattr(_op, opname + '_' if opname in ('and', 'or') else opname)(x, y)
    elif form == 'ip':
        r = getattr(_op, 'i' + opname)(x, y)
    elif form == 'pow3':
        r = pow(x, y, 5)
    else:
        raise AssertionError(form)
    return _res(r, x, y)
'''


def py_render(text):
    """the reference rendering of a .pyx family template"""
    text = text.replace('cimport cython\n', 'import functools\n')
    text = text.replace('@cython.total_ordering', '@functools.total_ordering')
    text = re.sub(r'\bcdef class\b', 'class', text)
    text = text.replace(', mod):', ', mod=None):')
    return text


def ni_expr(rng, kinds_pool):
    """set of operand kinds for which the method returns NotImplemented"""
    r = rng.random()
    if r < 0.30:
        return ()
    if r < 0.45:
        return tuple(KINDS)
    n = rng.randint(1, 4)
    return tuple(sorted(rng.sample(KINDS, n)))


def kind_of_expr(fam):
    # kind = class name without the family suffix
    return "type(other).__name__.split('_')[0]"


def method_src(cls, fam, mname, ni, ret, pow3=False, indent='    '):
    args = 'self, other, mod' if pow3 else 'self, other'
    return '%sdef %s(%s):\n%s    return _h(%r, self, other, %r, %r%s)' % (
        indent, mname, args, indent, cls + '.' + mname, tuple(ni), ret, ', mod' if pow3 else '')


def arith_methods(opname):
    ms = ['__%s__' % opname, '__r%s__' % opname]
    if opname not in NO_INPLACE:
        ms.append('__i%s__' % opname)
    return ms


def gen_arith_family(rng, opname, fam, a_subset, variant):
    """returns (pyx_text, driver_py_text, meta)"""
    ms = arith_methods(opname)
    pow3 = opname == 'pow'

    def body(cls, subset):
        out = []
        for m in subset:
            ni = ni_expr(rng, KINDS)
            if m.startswith('__i') and rng.random() < 0.5:
                ret = 'self'
            else:
                ret = 'tag'
            # Python: __ipow__ takes (self, other) only up to 3.7 semantics; 3.8+ passes mod too -> keep 3 args for
            # __pow__/__rpow__, 2 for __ipow__ when called via **= ; the C slot is ternary, cdef classes need 3 args
            out.append(method_src(cls, fam, m, ni, ret, pow3=pow3 and m in ('__pow__', '__rpow__') and rng.random() < 0.75))
        return '\n'.join(out) if out else '    pass'

    if variant == 0:
        b_subset = [m for m in ms if rng.random() < 0.5]
    else:
        b_subset = [m for m in ms if rng.random() < 0.4]
    c_subset = [m for m in ms if rng.random() < 0.4]
    e_subset = [m for m in ms if rng.random() < 0.3]
    pyx = 'cdef class A_%s:\n%s\n\ncdef class B_%s(A_%s):\n%s\n' % (
        fam, body('A_' + fam, a_subset), fam, fam, body('B_' + fam, b_subset))
    drv = 'class C_%s(A_%s):\n%s\n\nclass E_%s(B_%s):\n%s\n' % (
        fam, fam, body('C_' + fam, c_subset).replace(', mod):', ', mod=None):'),
        fam, fam, body('E_' + fam, e_subset).replace(', mod):', ', mod=None):'))
    u_ms = ms[:2]
    drv += 'class U_%s:\n%s\n\nclass N_%s:\n%s\n' % (
        fam, '\n'.join(method_src('U_' + fam, fam, m, (), 'tag', pow3=pow3).replace(', mod):', ', mod=None):')
                       for m in u_ms),
        fam, '\n'.join(method_src('N_' + fam, fam, m, tuple(KINDS), 'tag', pow3=pow3).replace(', mod):', ', mod=None):')
                       for m in u_ms))
    meta = {'fam': fam, 'op': opname, 'A': [m for m in a_subset], 'B': b_subset, 'C': c_subset, 'E': e_subset}
    return pyx, drv, meta


def subsets(items):
    out = []
    for mask in range(1 << len(items)):
        out.append([it for i, it in enumerate(items) if mask >> i & 1])
    return out


CMP_RETS = ['T', 'F', 'tag', 'empty']


def gen_cmp_family(rng, fam, a_subset, a_total, variant):
    ms = ['__%s__' % c for c in CMPS]

    def body(cls, subset):
        out = []
        for m in subset:
            ni = ni_expr(rng, KINDS)
            ret = rng.choice(CMP_RETS)
            out.append(method_src(cls, fam, m, ni, ret))
        return '\n'.join(out) if out else '    pass'

    def order_ok(subset):
        return any(m in subset for m in ('__lt__', '__le__', '__gt__', '__ge__'))

    b_subset = [m for m in ms if rng.random() < (0.35 if variant == 0 else 0.2)]
    c_subset = [m for m in ms if rng.random() < 0.3]
    e_subset = [m for m in ms if rng.random() < 0.25]
    # total_ordering on the subclass: legal when an ordering method is visible anywhere in the MRO
    b_total = rng.random() < 0.3 and order_ok(a_subset + b_subset)
    pyx = '%scdef class A_%s:\n%s\n\n%scdef class B_%s(A_%s):\n%s\n' % (
        '@cython.total_ordering\n' if a_total else '', fam, body('A_' + fam, a_subset),
        '@cython.total_ordering\n' if b_total else '', fam, fam, body('B_' + fam, b_subset))
    drv = 'class C_%s(A_%s):\n%s\n\nclass E_%s(B_%s):\n%s\n' % (
        fam, fam, body('C_' + fam, c_subset), fam, fam, body('E_' + fam, e_subset))
    u_ms = ms
    drv += 'class U_%s:\n%s\n\nclass N_%s:\n%s\n' % (
        fam, '\n'.join(method_src('U_' + fam, fam, m, (), 'tag') for m in u_ms),
        fam, '\n'.join(method_src('N_' + fam, fam, m, tuple(KINDS), 'tag') for m in u_ms))
    meta = {'fam': fam, 'op': 'cmp', 'A': a_subset, 'B': b_subset, 'C': c_subset, 'E': e_subset,
            'A_total': a_total, 'B_total': b_total}
    return pyx, drv, meta


def pairs():
    return [(l, r) for l in KINDS for r in KINDS if l in OURS or r in OURS]


def short(ms):
    return '+'.join(m.strip('_') for m in ms) or 'none'


def _calls(o):
    """observation -> list of (class kind, method, self kind, other kind)"""
    lg = o[-1][1] if o and o[-1][0] == 'log' else []
    out = []
    for rec in lg:
        try:
            cls, m = rec[1][0][1].strip("'").split('.')
            out.append((cls.split('_')[0], m, rec[1][1][1].strip("'").split('_')[0], rec[1][2][1].strip("'").split('_')[0]))
        except Exception:
            out.append(('?', '?', '?', '?'))
    return out


MRO = {'A': ['A'], 'B': ['B', 'A'], 'C': ['C', 'A'], 'E': ['E', 'B', 'A']}
SWAP = {'__lt__': '__gt__', '__gt__': '__lt__', '__le__': '__ge__', '__ge__': '__le__', '__eq__': '__eq__', '__ne__': '__ne__'}


def resolve(meta, kind, method):
    """class kind whose definition Python attribute lookup on an instance of `kind` selects (None: not user-defined)"""
    for k in MRO.get(kind, []):
        if method in meta[k]:
            return k
    return None


def pairclass(lk, rk):
    ours = [k for k in (lk, rk) if k in OURS]
    py = any(k in ('C', 'E') for k in ours)
    if lk == rk:
        return 'sametype-pysubclass' if py else 'sametype-cdef'
    if len(ours) == 1:
        return 'pysubclass-vs-unrelated' if py else 'cdef-vs-unrelated'
    return 'pysubclass-vs-related' if py else 'cdef-base+sub'


def arith_role(m):
    core = m.strip('_')
    if m.startswith('__r') and core not in ('rshift',):
        return 'reflected'
    if m.startswith('__i'):
        return 'inplace'
    return 'forward'


def outclass(o):
    if o[0] == 'exc':
        return o[1]
    v = o[1]
    if v[0] == 'bool':
        return 'bool'
    if v[0] == 'str':
        return v[1].strip("'")
    return 'value'


def classify(meta, case, exp, got):
    """mechanism key from structural features of the first divergence between the two call logs"""
    _, fam, opname, form, lk, rk = case['_k']
    ec, gc = _calls(exp), _calls(got)
    i = 0
    while i < len(ec) and i < len(gc) and ec[i] == gc[i]:
        i += 1
    e = ec[i] if i < len(ec) else None
    g = gc[i] if i < len(gc) else None
    pc = pairclass(lk, rk)
    iscmp = meta['op'] == 'cmp'
    if iscmp:
        dec = [k for k in ('A', 'B') if meta[k + '_total']]
        involved = any(d in MRO.get(k, []) for d in dec for k in (lk, rk))
        cat = 'cmp:plain'
        if involved:
            vis = set()
            for d in dec:
                if any(d in MRO.get(k, []) for k in (lk, rk)):
                    for k in MRO[d]:
                        vis |= set(meta[k])
            cat = 'cmp:total_ordering' if vis & {'__eq__', '__ne__'} else 'cmp:total_ordering-without-eq-method'
            # simple sub-lattice: only the base class is decorated and every hierarchy operand is a plain base instance
            if dec == ['A'] and all(k == 'A' for k in (lk, rk) if k in OURS):
                cat += '(decorated-class-instances-only)'
        want = '__%s__' % opname

        def role(c):
            if c is None:
                return 'end'
            m = c[1]
            if m in ('__eq__', '__ne__') and want not in ('__eq__', '__ne__'):
                return m.strip('_') + '-helper'
            if m == want and c[2] == lk:
                return 'direct'
            if m == SWAP[want] and c[2] == rk:
                return 'reflected'
            if m in ('__eq__', '__ne__'):
                return m.strip('_') + '-for-' + want.strip('_')
            return 'other-ordering-method'
    else:
        cat = {'bin': 'binop', 'ip': 'inplace', 'pow3': 'pow3'}[form]

        def role(c):
            return 'end' if c is None else arith_role(c[1])
    if cat == 'cmp:total_ordering-without-eq-method' or cat.startswith('cmp:total_ordering-without-eq-method('):
        # the directive is dropped at compile time: every divergence in such a family has this one cause
        return 'cmp:total_ordering-without-eq-method'
    if cat == 'cmp:total_ordering':
        # decorated class hierarchy with subclass operands / decorated subclass: several interacting mechanisms
        return 'cmp:total_ordering-with-subclassing'
    if got[0] == 'ok' and got[1][0] == 'NotImplementedType' and exp[0] == 'exc':
        return '%s:%s:NotImplemented-returned-as-result-instead-of-TypeError' % (cat, pc)
    if e is None and g is None:
        return '%s:%s:same-calls:%s->%s' % (cat, pc, outclass(exp), outclass(got))
    rule = None
    if not iscmp and form == 'pow3' and g is None and got[0] == 'exc' and resolve(meta, rk, '__rpow__'):
        # a 2-argument __rpow__ receives the modulus and raises before it can log
        rule = 'rpow-called-for-3-arg-pow'
    if g is not None and rule is None:
        own = resolve(meta, g[2], g[1]) if g[0] in OURS else g[0]
        if any(p[1:] == g[1:] for p in gc[:i]):
            # the same special method (of the same or of a base class) is called again on the same operands
            rule = 'method-retried-on-same-operands-after-NotImplemented'
        elif not iscmp and form == 'pow3' and role(g) == 'reflected':
            rule = 'rpow-called-for-3-arg-pow'
        elif not iscmp and lk == rk and role(g) == 'reflected':
            rule = 'reflected-method-called-for-identical-types'
        elif g[0] in OURS and own != g[0]:
            rule = 'override-in-subclass-bypassed:' + role(g)
        elif not iscmp and role(g) == 'reflected' and g[2] in ('C', 'E') and lk in OURS and role(e) != 'reflected':
            rule = 'python-subclass-on-right:reflected-first-although-not-overridden'
    if rule is None:
        rule = '%s->%s' % (role(e), role(g))
        if not iscmp and form != 'pow3' and pc == 'pysubclass-vs-related':
            rule = 'other-call-order-difference'
    return '%s:%s:%s' % (cat, pc, rule)


def main(ck):
    tree = cy.Tree('C28')
    rng = ck.rng('gen')
    ntables = ck.pick(1, 6)
    fams_per_mod = ck.pick(15, 40)
    families = []   # (pyx, drv, meta)
    # ---- arithmetic lattice: exhaustive subsets of {op, rop, iop} per operator
    for opname in ARITH:
        for si, sub in enumerate(subsets(arith_methods(opname))):
            for t in range(ntables):
                fam = '%s%dt%d' % (opname, si, t)
                families.append(gen_arith_family(ck.rng('a' + fam), opname, fam, sub, t % 2))
    n_arith = len(families)
    # ---- comparison lattice: exhaustive subsets of the six methods, with/without total_ordering
    cm = ['__%s__' % c for c in CMPS]
    for si, sub in enumerate(subsets(cm)):
        for total in (False, True):
            if total and not any(m in sub for m in ('__lt__', '__le__', '__gt__', '__ge__')):
                continue   # functools.total_ordering raises ValueError at class creation: out of scope
            for t in range(ck.pick(1, 4)):
                fam = 'c%d%st%d' % (si, 'T' if total else 'P', t)
                families.append(gen_cmp_family(ck.rng('c' + fam), fam, sub, total, t % 2))
    mods = {}
    modfams = {}
    refs = {}
    for i in range(0, len(families), fams_per_mod):
        name = 'c28m%d' % (i // fams_per_mod)
        chunk = families[i:i + fams_per_mod]
        pyx = HEADER + '\n'.join(f[0] for f in chunk)
        mods[name] = pyx
        refs[name] = py_render(pyx)
        modfams[name] = chunk
    t0 = time.time()
    d, info = tree.build_sources(mods, subdir='b', ext='.pyx', directives={'c_api_binop_methods': False})
    ck.cov['build_s'] = round(time.time() - t0, 1)
    total_n = total_distinct = 0
    samples = []
    hist = {}
    skipped = 0
    lattice_seen = set()
    static = {'BinopSlot': 0, 'richcmp': 0}
    nontrivial = set()
    jobs = []
    for name, inf in info.items():
        if not inf['ok']:
            skipped += 1
            ck.note('build failure %s at %s: %s' % (name, inf['stage'], inf['errors'][-600:]))
            continue
        ctext = open(inf['c'], encoding='utf-8', errors='replace').read()
        static['BinopSlot'] += len(re.findall(r'_maybe_call_slot\(PyTypeObject\* type', ctext))
        static['richcmp'] += len(re.findall(r'static PyObject \*__pyx_tp_richcompare_', ctext))
        refpath = inf['src'] + '.ref.py'
        with open(refpath, 'w') as f:
            f.write(refs[name])
        cases = []
        metas = {}
        srcs = {}
        for pyx, drv, meta in modfams[name]:
            fam = meta['fam']
            metas[fam] = (pyx, drv, meta)
            srcs[fam] = drv
            if meta['op'] == 'cmp':
                forms = [(c, 'bin') for c in CMPS]
                lattice_seen.add(('cmp', tuple(meta['A']), meta['A_total']))
            else:
                op = meta['op']
                forms = [(op, 'bin')]
                if op not in NO_INPLACE:
                    forms.append((op, 'ip'))
                if op == 'pow':
                    forms.append((op, 'pow3'))
                lattice_seen.add((op, tuple(meta['A'])))
            for opname, form in forms:
                for lk, rk in pairs():
                    cases.append({'x': 'run(M, %r, %r, %r, %r, %r)' % (fam, opname, form, lk, rk),
                                  't': '%s/%s/%s,%s' % ('cmp' if meta['op'] == 'cmp' else opname, form, lk, rk),
                                  '_k': ['run', fam, opname, form, lk, rk]})
        jobs.append((name, refpath, cases, metas, SETUP + '\n_SRC.update(%r)\n' % srcs))

    def run_one(job):
        name, refpath, cases, metas, setup = job
        return diff.run_cases(tree, d, name, cases, ref=refpath, compare={'exc_args': False, 'log': True},
                              setup=setup, tagdir='run_' + name, timeout=900, nproc=2)

    t0 = time.time()
    with ThreadPoolExecutor(8) as ex:
        results = list(ex.map(run_one, jobs))
    ck.cov['run_s'] = round(time.time() - t0, 1)
    for (name, refpath, cases, metas, setup), res in zip(jobs, results):
        total_n += res.n
        total_distinct += res.distinct
        samples.extend(res.samples[:1])
        for k, v in res.hist.items():
            hist[k] = hist.get(k, 0) + v
        for m in res.mismatches:
            fam = m['case']['_k'][1]
            pyx, drv, meta = metas[fam]
            key = classify(meta, m['case'], m['exp'], m['got'])
            ck.discrepancy(key, 'family %s (A defines %s, B overrides %s): %s: Python classes %s, cdef classes %s' % (
                fam, short(meta['A']), short(meta['B']), m['case']['x'], m['exp'], m['got']),
                {'module_source': HEADER + pyx, 'ref_source': py_render(HEADER + pyx),
                 'ext': '.pyx', 'case': m['case'], 'setup': SETUP + '\n_SRC.update(%r)\n' % {fam: drv},
                 'directives': {'c_api_binop_methods': False}, 'cflags': [], 'compare': {'exc_args': False, 'log': True},
                 'meta': meta, 'expected': m['exp'], 'observed': m['got']})
        for c in res.crashes:
            fam = c['case']['_k'][1]
            pyx, drv, meta = metas[fam]
            ck.discrepancy('crash:%s:%s' % (meta['op'], c['case']['_k'][3]), 'crash/hang %s on %s' % (c['kind'], c['case']['x']),
                           {'module_source': HEADER + pyx, 'ref_source': py_render(HEADER + pyx), 'ext': '.pyx', 'case': c['case'],
                            'setup': SETUP + '\n_SRC.update(%r)\n' % {fam: drv}, 'stderr': c['stderr']})
        for ft in res.fatal:
            ck.inconclusive_if(True, 'driver failed for %s: %s' % (name, str(ft)[-400:]))
    # reach
    want = {(op, tuple(s)) for op in ARITH for s in subsets(arith_methods(op))}
    want |= {('cmp', tuple(s), False) for s in subsets(cm)}
    want |= {('cmp', tuple(s), True) for s in subsets(cm) if any(m in s for m in ('__lt__', '__le__', '__gt__', '__ge__'))}
    missing = sorted(map(str, want - lattice_seen))
    ck.inconclusive_if(bool(missing), 'subset lattice not exhaustive: %d cells missing, e.g. %s' % (len(missing), missing[:3]))
    ck.inconclusive_if(skipped > 0, '%d module(s) failed to build' % skipped)
    ck.inconclusive_if(static['BinopSlot'] == 0 or static['richcmp'] == 0, 'BinopSlot / richcompare code not in generated C')
    called = sum(v for k, v in hist.items())
    return ck.finish(
        total_n, total_distinct,
        'one case = (class family, operator form, ordered operand-kind pair); observed: result signature / exception type '
        'and the ordered log of special-method calls; reference = same class bodies as Python classes. distinct = distinct '
        '(case expression, reference outcome incl. call log)',
        samples,
        extra={'exhaustive': True, 'lattice_cells': len(lattice_seen), 'lattice_cells_wanted': len(want),
               'families': len(families), 'arith_families': n_arith, 'modules': len(mods),
               'static_reach': static, 'operand_pairs': len(pairs()),
               'outcome_hist_top': dict(sorted(hist.items(), key=lambda kv: -kv[1])[:40])},
        assumptions=['CPython 3.12.1 executing the same class bodies as Python classes is the reference',
                     'c_api_binop_methods=False (the default); the True setting has different documented semantics',
                     'exception message text is not compared'])


def replay(ck, data):
    from vlib import replay as vreplay
    w = data.get('witness', data)
    tree = cy.Tree('replay')
    name = 'replaymod'
    d, info = tree.build_sources({name: w['module_source']}, subdir='r', ext='.pyx', directives=w.get('directives'))
    inf = info[name]
    if not inf['ok']:
        print('build failed at', inf['stage'], inf['errors'][-2000:])
        return 2
    refpath = inf['src'] + '.ref.py'
    open(refpath, 'w').write(w['ref_source'])
    res = diff.run_cases(tree, d, name, [w['case']], ref=refpath, compare=w.get('compare'), setup=w['setup'], nproc=1)
    for m in res.mismatches:
        print('expected', m['exp'])
        print('observed', m['got'])
    for c in res.crashes:
        print('crash', c['kind'], c['stderr'][-1500:])
    if res.mismatches or res.crashes:
        print('VIOLATION property=%s replay=<replayed>' % ck.pid)
        return 1
    print('replay: case now agrees with the reference (%d evaluated, fatal=%s)' % (res.n, res.fatal))
    return 0 if res.n else 2
