"""C19 Comparisons and membership tests match CPython (DESIGN.md section 5, C19).

Families (vlib.gen.cmpgen): comparison chains of length 1-4 over logging operands (vlib/ref/c20h.py LCmp: scripted
results incl. NotImplemented, non-bool truthy values, logging truth tests, raising), plain values and - in .pyx variants -
C int/long/double/Py_UCS4/str/bytes locals, in value / if / not / and-or / while / conditional-expression / assert
contexts; `x in / not in <literal tuple, list, set, frozenset>` with duplicate and mixed-type members and the needle
itself as a member; C-typed needles against literal tuples, str, bytes, sets; if/elif chains over a C-typed subject
(SwitchTransform) with duplicate, overlapping, or-ed, reversed and non-switchable conditions and enum constants.
Oracle: CPython executing the same source: result, exception type and the ordered event log."""
import os
import re
import shutil

from vlib import core, cy, diff
from vlib.gen import cmpgen
from props import C20 as c20

SETUP = "from c20h import *\nNAN = float('nan')\n"
HEADER = "# cython: language_level=3\nfrom c20h import Env\nlog = None\n"


def bodies(ctext):
    out = {}
    for seg in ctext.split('/* Python wrapper */')[1:]:
        m = re.search(r'__pyx_pw_\w*?(fz\d+z)\b', seg[:600])
        if m:
            out[m.group(1)] = out.get(m.group(1), '') + seg
    return out


def needle_class(a):
    a = a.strip()[1:-1].rstrip(',').strip()
    for pat, cls in (("Env(log).c", 'logging-object'), ('NAN', 'nan-shared'), ("float('nan')", 'nan'), ('nan', 'nan'), ('EqRaises', 'eq-raises'),
                     ('HashRaises', 'hash-raises'), ('Unhashable', 'unhashable'), ('[', 'unhashable'), ('I(', 'intsub'), ('S(', 'strsub'), ('F(', 'floatsub')):
        if a.startswith(pat):
            return cls
    if a[:1] in "'":
        return 'str'
    if a[:1] == 'b':
        return 'bytes'
    if a in ('True', 'False'):
        return 'bool'
    if a == 'None':
        return 'none'
    if '.' in a or 'e' in a or a == 'inf':
        return 'float'
    return 'int' if a[:1].isdigit() or a[:1] == '-' else 'other'


def classify(fn, case, exp, got):
    le, lg = c20._log(exp), c20._log(got)
    oe = exp[1] if exp[0] == 'exc' else 'ok'
    og = got[1] if got[0] == 'exc' else 'ok'
    if le == lg:
        kind = 'result' if oe == og else 'exception'
    elif sorted(map(repr, le)) == sorted(map(repr, lg)):
        kind = 'reordered'
    elif len(lg) > len(le):
        kind = 'extra-events'
    elif len(lg) < len(le):
        kind = 'missing-events'
    else:
        kind = 'different-events'
    if fn['family'].startswith('chain'):
        ops, cont = fn['ops'], fn['containers']
        if fn['family'] == 'chain-typed' and ops[0] in ('in', 'not in') and fn['first_chain_len'] >= 2 and \
                'C' in fn['cls'].rsplit(':', 1)[-1] and og in ('SystemError', 'ok') and oe != og:
            # the C operand after a membership link is cast to PyObject* (0 -> NULL -> SystemError; else a crash)
            return 'cmp:in-cascade-c-operand-cast-to-pointer:%s' % og
        if fn['ctx'] == 'not' and fn['first_chain_len'] > 1 and ops[0] in ('is', 'is not', 'in', 'not in'):
            # ConstantFolding._handle_NotNode flips the first operator of a cascaded comparison
            return 'cmp:not-of-chain-starting-with-is-or-in:%s->%s' % ('result' if oe == og == 'ok' else oe, og)
        if any(o in ('in', 'not in') and c == 'D{' for o, c in zip(ops, cont)):
            return 'cmp:in-set-display-tested-by-equality:%s:%s->%s' % (kind, oe, og)
        if kind == 'reordered' and any(o in ('in', 'not in') and c.startswith('D') for o, c in zip(ops, cont)):
            return 'cmp:in-literal-members-before-needle'
        if any(o in ('in', 'not in') and c.startswith('D') for o, c in zip(ops, cont)):
            # x in (a, b) is rewritten to x == a or x == b (x != a and x != b): CPython asks the member (a == x) and
            # never calls __ne__; logging operands see different methods / different scripted results
            return 'cmp:in-literal-flattened-to-eq-chain:operand-order-or-ne:%s:%s->%s' % (kind, oe, og)
        i = next((j for j in range(max(len(le), len(lg))) if (le[j] if j < len(le) else None) != (lg[j] if j < len(lg) else None)), None)
        a = c20.ev_name(le[i]) if i is not None and i < len(le) else 'none'
        b = c20.ev_name(lg[i]) if i is not None and i < len(lg) else 'none'
        return 'cmp:%s:%s:%s:%s-vs-%s:%s->%s' % (fn['family'], fn['cls'], kind, a, b, oe, og)
    if fn['family'] == 'member':
        nc = needle_class(case.get('a', '()'))
        if fn['selfref'] and fn['br'] != '{}':
            return 'cmp:member-identity-shortcut-missing:%s:needle=%s:%s:%s->%s' % (fn['br'], nc, kind, oe, og)
        if fn['br'] == '{}':
            return 'cmp:member-set-display-tested-by-equality:needle=%s:%s:%s->%s' % (nc, kind, oe, og)
        if fn['br'] in ('()', '[]') and nc == 'logging-object':
            return 'cmp:member-literal-flattened-to-eq-chain:operand-order-or-ne:%s:%s->%s' % (kind, oe, og)
    if fn['family'] == 'member-typed' and fn['lit'].startswith("b'") and fn['ct'] != 'bytes' and oe == 'ValueError':
        return 'cmp:c-int-in-bytes-literal-out-of-range:%s->%s' % (oe, og)
    if fn['family'] == 'switch':
        return 'cmp:switch:%s:%s:%s->%s' % (fn['cls'], kind, oe, og)
    return 'cmp:%s:%s:needle=%s:%s:%s->%s' % (fn['family'], fn['cls'], needle_class(case.get('a', '()')), kind, oe, og)


def main(ck):
    tree = cy.Tree('C19')
    rng = ck.rng('gen')
    fns = []

    def add(items):
        fns.extend(items)
    n_chain = ck.pick(900, 12000)
    for i in range(n_chain):
        typed = rng.random() < .3
        add([cmpgen.ChainGen(rng, typed=typed).function('fz%dz' % len(fns))])
    add(cmpgen.member_functions(rng, ck.pick(60, 700), len(fns)))
    add(cmpgen.typed_member_functions(rng, ck.pick(40, 300), len(fns)))
    add(cmpgen.switch_functions(rng, ck.pick(60, 800), len(fns)))
    byname = {f['name']: f for f in fns}
    cases = {}
    for f in fns:
        fam = f['family']
        if fam.startswith('chain'):
            cs = [{'f': f['name'], 'a': '()', 't': '%s/%s' % (fam, f['ctx'])}]
        elif fam == 'member':
            needles = cmpgen.NEEDLES if not ck.quick else cmpgen.NEEDLES[:14] + rng.sample(cmpgen.NEEDLES[14:], 10)
            cs = [{'f': f['name'], 'a': '(%s,)' % x, 't': 'member/' + f['cls'].split(':')[1]} for x in needles]
        elif fam == 'member-typed':
            cs = [{'f': f['name'], 'a': '(%s,)' % x, 't': 'member-typed/' + f['cls'].split(':')[1]} for x in cmpgen.TYPED_VALUES[f['vals']]]
        else:
            if f['char']:
                xs = ["'%s'" % c for c in 'abcdefghi'] + ["'\\u20ac'", "'\\x00'"]
            else:
                lo = 0 if f['ct'] in ('unsigned char', 'size_t', 'Color') else -3     # (an all-positive C enum is unsigned)
                xs = [str(v) for v in range(lo, 14)] + (['255'] if f['ct'] != 'Color' else [])
            cs = [{'f': f['name'], 'a': '(%s, %s)' % (x, 'True' if (j + len(x)) % 2 else 'False'), 't': 'switch/' + f['ct']}
                  for j, x in enumerate(xs)]
        cases[f['name']] = cs
    d = tree.subdir('b')
    shutil.copy(os.path.join(core.VERIF, 'vlib', 'ref', 'c20h.py'), os.path.join(d, 'c20h.py'))
    per_mod = ck.pick(130, 500)
    jobs, meta = [], []
    for typed in (False, True):
        fl = [f for f in fns if bool(f.get('typed')) == typed]
        for gi in range(0, len(fl), per_mod):
            chunk = fl[gi:gi + per_mod]
            name = 'c19%s%d' % ('x' if typed else 'p', gi // per_mod)
            path = os.path.join(d, name + ('.pyx' if typed else '.py'))
            with open(path, 'w', encoding='utf-8') as fh:
                fh.write(HEADER + (cmpgen.SWITCH_PRELUDE_PYX if typed else '') + '\n'.join(f.get('pyx') or f['src'] for f in chunk))
            refpath = path
            if typed:
                refpath = os.path.join(d, name + '_ref.py')
                with open(refpath, 'w', encoding='utf-8') as fh:
                    fh.write(HEADER + cmpgen.SWITCH_PRELUDE_REF + '\n'.join(
                        (f['src'] if f.get('pyx') else '\n'.join(l for l in f['src'].split('\n') if not l.strip().startswith('cdef ')))
                        for f in chunk))
            jobs.append({'src': path})
            meta.append((name, chunk, path, refpath, typed))
    tres, plug = tree.translate(jobs, nworkers=min(core.NCPU, ck.pick(5, 10)), plugins=['vlib.mon.nodehist'],
                                timeout=ck.pick(1800, 3600))
    nodes = {'early': {}, 'final': {}}
    for p in plug:
        for phase, h in (p.get('vlib.mon.nodehist') or {}).items():
            if isinstance(h, dict):
                for k, v in h.items():
                    nodes[phase][k] = nodes[phase].get(k, 0) + v
    skipped = 0
    okm = []
    for m, r in zip(meta, tres):
        if r['ok']:
            okm.append(m + (r['c'],))
        else:
            skipped += 1
            ck.note('translate failure %s: %s' % (m[0], ((r.get('exc') or '') + (r.get('errors') or ''))[-800:]))
    bres = tree.cbuild_many([m[5] for m in okm], timeout=ck.pick(1800, 3600))
    total_n = total_distinct = 0
    hist = {}
    samples = []
    sw_total = sw_with_switch = 0
    helpers = {}
    for m, b in zip(okm, bres):
        name, chunk, path, refpath, typed, cfile = m
        if not b['ok']:
            skipped += 1
            ck.note('C build failure %s: %s' % (name, b['err'][-800:]))
            continue
        ctext = open(cfile, encoding='utf-8', errors='replace').read()
        bd = bodies(ctext)
        for f in chunk:
            if f['family'] == 'switch':
                sw_total += 1
                f['has_switch'] = 'switch (' in bd.get(f['name'], '')
                sw_with_switch += f['has_switch']
        for h in set(re.findall(r'\b(__Pyx_PyUnicode_Equals|__Pyx_PyBytes_Equals|__Pyx_PyLong_\w*(?:Eq|Ne)\w*|__Pyx_PySequence_ContainsTF|'
                                r'__Pyx_PyUnicode_ContainsTF|__Pyx_UnicodeContainsUCS4|__Pyx_BytesContains|__Pyx_PyDict_ContainsTF|'
                                r'__Pyx_PySet_ContainsTF|__Pyx_PyObject_IsTrue|__Pyx_PyFloat_\w*(?:Eq|Ne)\w*)\(', ctext)):
            helpers[h] = helpers.get(h, 0) + 1
        run = [c for f in chunk for c in cases[f['name']]]
        res = diff.run_cases(tree, d, name, run, ref=refpath, compare={'exc_args': False, 'log': True}, setup=SETUP,
                             tagdir='run_' + name, timeout=ck.pick(900, 1800), nproc=ck.pick(3, 6))
        total_n += res.n
        total_distinct += res.distinct
        samples.extend(res.samples[:1])
        for k, v in res.hist.items():
            hist[k] = hist.get(k, 0) + v
        for mm in res.mismatches:
            f = byname[mm['case']['f']]
            exp = mm['exp'][:-1] + [['log', c20._log(mm['exp'])]]
            got = mm['got'][:-1] + [['log', c20._log(mm['got'])]]
            if exp == got:
                continue        # only the number of consecutive truth tests of one value differed (see notes)
            w = {'ext': '.pyx' if typed else '.py', 'case': mm['case'], 'expected': mm['exp'], 'observed': mm['got'],
                 'module_source': HEADER + (cmpgen.SWITCH_PRELUDE_PYX if typed else '') + (f.get('pyx') or f['src']), 'setup': SETUP}
            if typed:
                w['ref_source'] = HEADER + cmpgen.SWITCH_PRELUDE_REF + (f['src'] if f.get('pyx') else '\n'.join(
                    l for l in f['src'].split('\n') if not l.strip().startswith('cdef ')))
            ck.discrepancy(classify(f, mm['case'], mm['exp'], mm['got']), '%s on %s: CPython %s / %s, compiled %s / %s' % (
                (f.get('pyx') or f['src']).strip(), mm['case']['a'], mm['exp'][:2], [(c20.ev_name(e), c20.ev_fullkey(e)) for e in c20._log(mm['exp'])][:14],
                mm['got'][:2], [(c20.ev_name(e), c20.ev_fullkey(e)) for e in c20._log(mm['got'])][:14]), w)
        for c in res.crashes:
            f = byname[c['case']['f']]
            ckey = 'cmp:crash:%s:%s' % (f['family'], f['cls'])
            if f['family'] == 'chain-typed' and f['ops'][0] in ('in', 'not in') and len(f['ops']) >= 2 and 'C' in f['cls'].rsplit(':', 1)[-1]:
                # `a in b == cl`: the C operand of the link after a membership test is cast to PyObject* instead of converted
                ckey = 'cmp:in-cascade-c-operand-cast-to-pointer:crash'
            ck.discrepancy(ckey, 'crash/hang %s: %s on %s\n%s' % (
                c['kind'], (f.get('pyx') or f['src']).strip(), c['case']['a'], c['stderr'][-300:]),
                {'ext': '.pyx' if typed else '.py', 'case': c['case'], 'stderr': c['stderr'],
                 'module_source': HEADER + (cmpgen.SWITCH_PRELUDE_PYX if typed else '') + (f.get('pyx') or f['src']), 'setup': SETUP})
        for ft in res.fatal:
            ck.inconclusive_if(True, 'driver failed for %s: %s' % (name, str(ft)[-400:]))
    # ------------------------------------------------------------------ reach
    fam_counts = {}
    for k, v in hist.items():
        fam_counts[k.split('|')[0]] = fam_counts.get(k.split('|')[0], 0) + v
    ck.inconclusive_if(sw_total and sw_with_switch < 0.5 * sw_total,
                       'only %d of %d if-chains over C subjects were compiled to a C switch' % (sw_with_switch, sw_total))
    ck.inconclusive_if(not sw_total, 'no switch function was built')
    for need in ('__Pyx_PyUnicode_Equals', '__Pyx_PySequence_ContainsTF'):
        ck.inconclusive_if(not helpers.get(need), 'helper %s absent from all generated C' % need)
    for fam in ('chain/value', 'chain/if', 'chain-typed/value', 'member/()', 'member/[]', 'member/{}', 'member-typed/Py_UCS4',
                'member-typed/int', 'member-typed/str', 'switch/int', 'switch/Py_UCS4'):
        ck.inconclusive_if(not fam_counts.get(fam), 'no case observed for %s' % fam)
    ck.inconclusive_if(skipped > 0.2 * len(jobs), '%d of %d modules failed to build' % (skipped, len(jobs)))
    ck.cov['skipped_build_failure'] = skipped
    interesting = ['PrimaryCmpNode', 'CascadedCmpNode', 'SwitchStatNode', 'SwitchCaseNode', 'BoolBinopNode', 'BoolBinopResultNode',
                   'IfStatNode', 'NotNode', 'CondExprNode', 'EvalWithTempExprNode', 'ResultRefNode', 'CoerceToBooleanNode', 'GenericBoolBinopNode']
    return ck.finish(
        total_n, total_distinct,
        'generated comparison chains (length 1-4, all ten operators, logging / plain / C-typed operands, seven contexts), '
        'membership tests against literal containers (needles of many classes incl. NaN, the shared-object case, logging and '
        'hostile objects), C-typed needles, and if/elif chains over C-typed subjects; each compared with CPython on result, '
        'exception type and ordered event log. distinct = distinct (function, arguments, CPython outcome); chains are '
        'non-trivial by construction (at least one logging operand or C operand), switch cases count as reached when the '
        'generated C of the function contains `switch (` (reported)',
        samples,
        extra={'functions': {fam: sum(1 for f in fns if f['family'] == fam) for fam in sorted({f['family'] for f in fns})},
               'switch_functions': sw_total, 'switch_functions_compiled_to_c_switch': sw_with_switch,
               'helpers_in_generated_c (modules)': dict(sorted(helpers.items())), 'cases_by_family': dict(sorted(fam_counts.items())),
               'node_classes_final': {k: nodes['final'].get(k, 0) for k in interesting if nodes['final'].get(k)},
               'outcome_hist_top': dict(sorted(hist.items(), key=lambda kv: -kv[1])[:30])},
        assumptions=['CPython 3.12.1 executing the same source is the reference',
                     'consecutive repeated truth tests of one value are collapsed in both logs (C20 note)',
                     'typed variants: reference = same statements without cdef declarations; C subjects only receive in-range values'])


def replay(ck, data):
    w = data.get('witness', data)
    tree = cy.Tree('replay')
    d = tree.subdir('r')
    shutil.copy(os.path.join(core.VERIF, 'vlib', 'ref', 'c20h.py'), os.path.join(d, 'c20h.py'))
    d, info = tree.build_sources({'replaymod': w['module_source']}, subdir='r', ext=w.get('ext', '.py'))
    inf = info['replaymod']
    if not inf['ok']:
        print('build failed at', inf['stage'], inf['errors'][-2000:])
        return 2
    refpath = inf['src']
    if w.get('ref_source'):
        refpath = os.path.join(d, 'replaymod_ref.py')
        open(refpath, 'w', encoding='utf-8').write(w['ref_source'])
    res = diff.run_cases(tree, d, 'replaymod', [w['case']], ref=refpath, compare={'exc_args': False, 'log': True}, setup=SETUP, nproc=1)
    for m in res.mismatches:
        print('expected', m['exp'][:2], [(c20.ev_name(e), c20.ev_fullkey(e)) for e in c20._log(m['exp'])])
        print('observed', m['got'][:2], [(c20.ev_name(e), c20.ev_fullkey(e)) for e in c20._log(m['got'])])
    for c in res.crashes:
        print('crash', c['kind'], c['stderr'][-1500:])
    if res.mismatches or res.crashes:
        print('VIOLATION property=%s replay=<replayed>' % ck.pid)
        return 1
    print('replay: case now agrees with the reference (%d evaluated, fatal=%s)' % (res.n, res.fatal))
    return 0
