"""C31 match statements behave like CPython (DESIGN.md section 5, C31).

Generated functions `def fzNz(s): match s: case ...` (<= 4 cases, pattern nesting <= 3, all pattern kinds, guards that
log through the harness) are compiled as .py modules by the working-tree compiler and called on subjects derived from
their own patterns (matching examples, perturbed near-misses, wrapped in list/tuple/deque/Sequence/Mapping ABCs,
registered classes, subclasses, hostile objects) plus a generic pool.  Reference = CPython executing the same source.
Each case body returns (case id, names bound by that case) - only names of the selected case are observed (DESIGN FA).
"""
import re
import time
from concurrent.futures import ThreadPoolExecutor

from vlib import cy, diff
from vlib.gen import matchgen

SETUP = 'import collections, types, array\n'


def subject_kind(expr):
    for pat, k in ((r'^M\.(Seq|RegSeq|LenRaise|GetRaise)\(', 'sequence-abc'), (r'^M\.NotSeq', 'len-getitem-non-sequence'),
                   (r'^M\.(ListSub|TupSub)', 'sequence-subclass'), (r'^collections\.deque|^range|^array', 'other-sequence'),
                   (r'^\[|^\(.*,.*\)$|^\(\)$', 'list-tuple'), (r"^b'|^bytearray|^'|^M\.StrSub|^memoryview", 'str-bytes'),
                   (r'^M\.(Map|MapGetLog|MapGetRaise|RegMap)\(', 'mapping-abc'),
                   (r'^\{.*:|^\{\}$|^M\.DictSub|^types\.Mapping|^collections\.OrderedDict', 'dict'),
                   (r'^M\.(Point|P3|DC|One|DC1|Zero)\(', 'class-instance'), (r'^M\.(LA|LARaise)\(', 'logging-attrs'),
                   (r'^M\.(BadArgs|DupArgs|NoArgs|StrArgs)', 'bad-match-args'), (r'^M\.Eq', 'hostile-eq'),
                   (r'^M\.Color', 'enum')):
        if re.search(pat, expr):
            return k
    return 'scalar-other'


def outcome_of(o):
    if o[0] == 'exc':
        return 'exc:' + o[1]
    try:
        return o[1][1][0][1].strip("'")    # ('caseN', ...) -> caseN / nomatch
    except Exception:
        return '?'


def norm(o):
    return 'no-error' if not o.startswith('exc:') else o[4:]


def classify(fn, case, exp, got):
    """mechanism key from: structural features of the function (run-time-invalid patterns, `as` over a value pattern),
    hostility of the subject (hooks that raise / log), the exception types involved and what differs"""
    eo, go = outcome_of(exp), outcome_of(got)
    subj = case['a'][1:-2]
    sk = subject_kind(subj)
    feats = fn.get('features', [])
    raising = bool(re.search(r'M\.(LARaise|MapGetRaise|EqRaise)\(', subj))
    logging_ = bool(re.search(r'M\.(LA|MapGetLog|EqLog)\(', subj))
    if eo.startswith('case'):
        top = fn['cases'][int(eo[4:])]['pattern'][0]
    elif go.startswith('case'):
        top = fn['cases'][int(go[4:])]['pattern'][0]
    else:
        top = '-'
    if eo != go:
        if 'ValueError' in (norm(eo), norm(go)) and 'duplicate-mapping-keys' in feats:
            return 'duplicate-mapping-keys:ValueError-raised-at-different-point:%s->%s' % (norm(eo), norm(go))
        if norm(eo) == 'TypeError' and norm(go) == 'no-error' and 'invalid-class-pattern' in feats and not raising:
            # the run-time validation of the class pattern (duplicate attribute / too many positionals / bad
            # __match_args__) that CPython performs did not happen at all: the opposite of the eager-validation finding
            return 'invalid-class-pattern:TypeError-not-raised:compiled-%s' % ('selects-case' if go.startswith('case') else 'no-match')
        if 'TypeError' in (norm(eo), norm(go)) and 'invalid-class-pattern' in feats:
            return 'invalid-class-pattern:TypeError-raised-at-different-point:%s->%s' % (norm(eo), norm(go))
        if raising:
            return 'exception-raising-subject-hook:%s->%s' % (norm(eo), norm(go))
        return 'selected:%s->%s:subject=%s:top=%s' % (re.sub(r'\d+', 'N', eo), re.sub(r'\d+', 'N', go), sk, top)
    if exp[:2] != got[:2]:
        if 'as-over-value-pattern' in feats:
            return 'bindings-differ:as-over-value-pattern:subject=%s' % sk
        return 'bindings-differ:subject=%s:top=%s' % (sk, top)
    # same outcome, same bindings: the side-effect log differs
    if 'as-over-value-pattern' in feats and not raising and not logging_:
        # the name bound by `<value> as name` reaches a guard (logged) although the guarded case is not selected
        return 'bindings-differ:as-over-value-pattern:subject=%s' % sk
    if raising:
        return 'side-effect-log-differs:exception-raising-subject-hook'
    if logging_:
        hooks = sorted(set(re.findall(r'M\.(LA|MapGetLog|EqLog)\(', subj)))
        return 'side-effect-log-differs:logging-subject-hook:%s' % '+'.join(hooks)
    return 'side-effect-log-differs:guards:top=%s' % top


def main(ck):
    tree = cy.Tree('C31')
    nfun = ck.pick(200, 1200)
    per_mod = ck.pick(25, 100)
    nsub = ck.pick(25, 50)
    rng = ck.rng('gen')
    funcs = []
    rejected = 0
    tries = 0
    while len(funcs) < nfun and tries < nfun * 3:
        tries += 1
        fn = matchgen.gen_function(ck.rng('f%d' % tries), len(funcs))
        try:
            compile(fn['src'], '<gen>', 'exec')
        except SyntaxError:
            rejected += 1      # CPython rejects it at compile time: out of scope (DESIGN FA)
            continue
        funcs.append(fn)
    # functions using `_ as name` (crashes the unchanged compiler in nested positions: C43 territory) are quarantined
    # in small modules so that a translation failure does not hide the other functions
    normal = [f for f in funcs if not f['wild_as']]
    quarantine = [f for f in funcs if f['wild_as']]
    groups = [normal[i:i + per_mod] for i in range(0, len(normal), per_mod)]
    groups += [quarantine[i:i + 4] for i in range(0, len(quarantine), 4)]
    fmap = {}
    info = {}
    modfuncs = {}
    t0 = time.time()
    level = 0
    lost_functions = []
    nmod = 0
    while groups and level < 5:
        mods = {}
        for g in groups:
            name = 'c31m%d' % nmod
            nmod += 1
            mods[name] = matchgen.PREAMBLE + '\n\n' + '\n\n'.join(f['src'] for f in g)
            modfuncs[name] = g
        d, inf_ = tree.build_sources(mods, subdir='b', ext='.py')
        groups = []
        for name, inf in inf_.items():
            g = modfuncs[name]
            if inf['ok']:
                info[name] = inf
                for f in g:
                    fmap[f['name']] = (name, f)
            elif len(g) == 1 or level == 4:
                lost_functions.extend(g)
                ck.note('build failure (%d function(s), e.g. %s) at %s: %s' % (
                    len(g), g[0]['src'].replace('\n', ' | ')[:300], inf['stage'], inf['errors'][-300:]))
            else:
                # bisect: one bad function must not hide the others
                h = (len(g) + 1) // 2
                groups += [g[:h], g[h:]]
        level += 1
    ck.cov['build_s'] = round(time.time() - t0, 1)
    mods = info
    skipped = 0
    jobs = []
    helpers = {}
    matrix = {}
    for mname, inf in info.items():
        if not inf['ok']:
            skipped += 1
            ck.note('build failure %s at %s: %s' % (mname, inf['stage'], inf['errors'][-700:]))
            continue
        ctext = open(inf['c'], encoding='utf-8', errors='replace').read()
        for h in set(re.findall(r'__Pyx_(?:MatchCase_\w+|ExtractExactDict|MatchCase\w*)', ctext)):
            helpers[h] = helpers.get(h, 0) + 1
        cases = []
        for fname, (mn, fn) in fmap.items():
            if mn != mname:
                continue
            r = ck.rng('subj:' + fname)
            subs = []
            for c in fn['cases']:
                for _ in range(3):
                    subs.append(matchgen.example(c['pattern'], r, exact=True))
                for _ in range(2):
                    subs.append(matchgen.example(c['pattern'], r, exact=False))
            subs = subs[:nsub - 6] + r.sample(matchgen.GENERIC_SUBJECTS, 6 if len(subs) >= nsub - 6 else nsub - len(subs))
            seen = set()
            for e in subs:
                if e in seen:
                    continue
                seen.add(e)
                tag = '/'.join(fn['kinds'])[:60]
                if fn.get('boundary_cell'):
                    tag = 'B:%s;%s' % (fn['boundary_cell'], tag)
                cases.append({'f': fname, 'a': '(%s,)' % e, 't': tag})
                sk = subject_kind(e)
                for k in fn['kinds']:
                    matrix[(k, sk)] = matrix.get((k, sk), 0) + 1
        jobs.append((mname, inf, cases))

    def run_one(job):
        mname, inf, cases = job
        return diff.run_cases(tree, d, mname, cases, ref=inf['src'], compare={'exc_args': False, 'log': True},
                              setup=SETUP, tagdir='run_' + mname, timeout=900, nproc=ck.pick(2, 4), max_restarts=2000)

    t0 = time.time()
    with ThreadPoolExecutor(8) as ex:
        results = list(ex.map(run_one, jobs))
    ck.cov['run_s'] = round(time.time() - t0, 1)
    total_n = total_distinct = 0
    samples = []
    hist = {}
    bcells = {}
    for (mname, inf, cases), res in zip(jobs, results):
        total_n += res.n
        total_distinct += res.distinct
        samples.extend(res.samples[:1])
        for k, v in res.hist.items():
            oc = k.split('|')[1]
            hist[oc] = hist.get(oc, 0) + v
            if k.startswith('B:'):
                cell = k[2:].split(';')[0]
                bcells.setdefault(cell, {})
                bcells[cell][oc] = bcells[cell].get(oc, 0) + v
        for m in res.mismatches:
            fn = fmap[m['case']['f']][1]
            key = classify(fn, m['case'], m['exp'], m['got'])
            ck.discrepancy(key, '%s on %s: CPython %s, compiled %s' % (fn['src'], m['case']['a'], str(m['exp'])[:400],
                                                                     str(m['got'])[:400]),
                           {'module_source': matchgen.PREAMBLE + '\n\n' + fn['src'], 'ext': '.py', 'case': m['case'], 'setup': SETUP,
                            'compare': {'exc_args': False, 'log': True}, 'expected': m['exp'], 'observed': m['got']})
        for c in res.crashes:
            fn = fmap[c['case']['f']][1]
            ck.discrepancy('crash:%s' % ('exception-raising-subject-hook' if re.search(r'M\.(LARaise|MapGetRaise|EqRaise)\(', c['case']['a']) else
                                       'or-of-values-as-sub-pattern' if 'or-of-values' in fn.get('features', []) else 'kinds=' + '+'.join(fn['kinds'])), 'crash/hang %s in %s on %s' % (c['kind'], fn['src'], c['case']['a']),
                           {'module_source': matchgen.PREAMBLE + '\n\n' + fn['src'], 'ext': '.py', 'case': c['case'], 'setup': SETUP,
                            'stderr': c['stderr']})
        for ft in res.fatal:
            ck.inconclusive_if(True, 'driver failed for %s: %s' % (mname, str(ft)[-400:]))
    ck.inconclusive_if(len(lost_functions) > len(funcs) // 5, '%d of %d functions failed to build' % (len(lost_functions), len(funcs)))
    ck.cov['skipped_build_failure_functions'] = len(lost_functions)
    ck.cov['skipped_build_failure_with_wildcard_as'] = sum(1 for f in lost_functions if f['wild_as'])
    ck.inconclusive_if(not helpers, 'no MatchCase.c helper in the generated C')
    pkinds = ['literal', 'capture', 'wildcard', 'value', 'sequence', 'sequence-star', 'mapping', 'mapping-rest', 'class',
              'class-builtin', 'or', 'as', 'guard']
    skinds = ['list-tuple', 'sequence-abc', 'sequence-subclass', 'other-sequence', 'str-bytes', 'dict', 'mapping-abc',
              'class-instance', 'logging-attrs', 'scalar-other']
    empty = [(p, s) for p in pkinds for s in skinds if not matrix.get((p, s))]
    ck.inconclusive_if(bool(empty), 'pattern-kind x subject-kind cells without a case: %s' % empty[:5])
    selected = sum(v for k, v in hist.items() if k.startswith('ok'))
    return ck.finish(
        total_n, total_distinct,
        'one case = (generated match function, subject expression); observed: selected case id + values of the names that case '
        'binds, exception type, ordered log of guard evaluations / logged attribute, __eq__ and get() calls; reference = CPython '
        'executing the same source. distinct = distinct (function, reference observation)',
        samples,
        extra={'functions': len(funcs), 'rejected_by_cpython_at_compile_time': rejected, 'modules': len(mods),
               'helpers_reached': helpers, 'matrix_cells': len(matrix), 'matrix_min': min(matrix.values()) if matrix else 0,
               'matrix': {'%s|%s' % k: v for k, v in sorted(matrix.items())}, 'outcome_hist': hist,
               'boundary_class_pattern_cells': {k: bcells[k] for k in sorted(bcells)}},
        assumptions=['CPython 3.12.1 executing the identical source is the reference',
                     'patterns CPython rejects at compile time are discarded by the generator',
                     'only the selected case id and the names bound by the selected case are compared, not leftovers of failed cases'])


def replay(ck, data):
    w = data.get('witness', data)
    tree = cy.Tree('replay')
    d, info = tree.build_sources({'c31m': w['module_source']}, subdir='r', ext='.py')
    inf = info['c31m']
    if not inf['ok']:
        print('build failed at', inf['stage'], inf['errors'][-2000:])
        return 2
    res = diff.run_cases(tree, d, 'c31m', [w['case']], ref=inf['src'], compare={'exc_args': False, 'log': True},
                         setup=w.get('setup', SETUP), nproc=1)
    for m in res.mismatches:
        print('expected', m['exp'])
        print('observed', m['got'])
    for c in res.crashes:
        print('crash', c['kind'], c['stderr'][-1500:])
    if res.mismatches or res.crashes:
        print('VIOLATION property=%s replay=<replayed>' % ck.pid)
        return 1
    print('replay: case now agrees with the reference (%d evaluated, fatal=%s)' % (res.n, res.fatal))
    return 0 if res.n else 2
