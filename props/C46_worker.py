"""C46 worker (mirror first on PYTHONPATH; the compiler and Build.Dependencies run interpreted).

  python -m props.C46_worker graphs <spec.json>   exhaustive/sampled digraphs on <= 4 real .pxd files, every order
  python -m props.C46_worker random <spec.json>   larger random trees (packages, includes), ground-truth BFS
  python -m props.C46_worker scan   <spec.json>   all_dependencies() vs files opened by a real compile()
"""
import itertools
import json
import os
import random
import shutil
import sys

from vlib.gen import c46_trees as T

_audit = {'on': False, 'files': []}


def _hook(event, args):
    if _audit['on'] and event == 'open':
        p = args[0]
        if isinstance(p, (str, bytes, os.PathLike)):
            try:
                _audit['files'].append((os.fsdecode(p), args[1]))
            except Exception:
                pass


def write_tree(root, files):
    for rel, text in files.items():
        p = os.path.join(root, rel)
        os.makedirs(os.path.dirname(p), exist_ok=True)
        with open(p, 'w') as f:
            f.write(text)


def setup(spec):
    import Cython.Build.Dependencies as D
    import Cython.Utils as U
    from Cython.Compiler.Main import Context
    from Cython.Compiler.Options import CompilationOptions, default_options, get_directive_defaults
    mroot = os.path.realpath(spec['mirror'])
    ok = all(m.__file__.endswith('.py') and os.path.realpath(m.__file__).startswith(mroot) for m in (D, U))
    counters = {'cache_hits': 0, 'helper_calls': 0}

    class CountingTree(D.DependencyTree):
        def transitive_merge_helper(self, node, extract, merge, seen, stack, outgoing):
            counters['helper_calls'] += 1
            if node in seen:
                counters['cache_hits'] += 1
            return D.DependencyTree.transitive_merge_helper(self, node, extract, merge, seen, stack, outgoing)

    ctxs = {}

    def fresh_tree(root):
        """new DependencyTree with every function cache of Cython.Utils cleared; the Context (include path only, no
        per-file state is used by the dependency code) is shared per root"""
        U.clear_function_caches()
        ctx = ctxs.get(root)
        if ctx is None:
            ctx = ctxs[root] = Context([root], get_directive_defaults(), options=CompilationOptions(default_options))
        return CountingTree(ctx, quiet=True)

    return ok, D, U, fresh_tree, counters


def do_graphs(spec):
    ok, D, U, fresh_tree, counters = setup(spec)
    res = {'mirror_ok': ok, 'graphs': 0, 'queries': 0, 'cyclic_graphs': 0, 'orders': 0, 'mismatches': {}, 'witnesses': {},
           'distinct': 0, 'samples': []}
    if not ok:
        return res
    n = spec['n']
    root = spec['root']
    rng = random.Random('C46:orders:%s:%s' % (spec['seed'], spec['chunk']))
    perms = list(itertools.permutations(range(n)))
    paths = [os.path.join(root, 'm%d.pxd' % i) for i in range(n)]
    for mask in spec['masks']:
        adj = T.edges_of_mask(n, mask)
        shutil.rmtree(root, ignore_errors=True)
        os.makedirs(root)
        write_tree(root, T.small_graph_files(n, adj))
        expected = [{paths[j] for j in T.reach(n, adj, i)} for i in range(n)]
        cyc = T.has_cycle(n, adj)
        res['graphs'] += 1
        res['cyclic_graphs'] += cyc
        if len(adj) >= 2:
            res['distinct'] += 1
        orders = perms if spec['all_orders'] else rng.sample(perms, spec['n_orders'])
        for order in orders:
            dt = fresh_tree(root)
            res['orders'] += 1
            for qi, i in enumerate(order):
                got = set(dt.all_dependencies(paths[i]))
                res['queries'] += 1
                if got != expected[i]:
                    kind = 'missing' if expected[i] - got else 'extra'
                    key = 'transitive:%s:%s:%s' % (kind, 'cyclic' if cyc else 'acyclic', 'first-query' if qi == 0 else 'after-earlier-queries')
                    res['mismatches'][key] = res['mismatches'].get(key, 0) + 1
                    ws = res['witnesses'].setdefault(key, [])
                    if len(ws) < 2:
                        ws.append({'kind': 'graph', 'n': n, 'edges': sorted(adj), 'order': list(order), 'query': i,
                                   'expected': sorted(os.path.basename(p) for p in expected[i]),
                                   'observed': sorted(os.path.basename(p) for p in got)})
        if len(res['samples']) < 2 and cyc and len(adj) >= 4:
            res['samples'].append({'files': n, 'cimport_edges': sorted(adj), 'all_dependencies': [sorted(os.path.basename(p) for p in e) for e in expected]})
    res.update(counters)
    shutil.rmtree(root, ignore_errors=True)
    return res


def closure_over(imm_out, imm_deps, start):
    """BFS over the tree's OWN immediate edges: what transitive_merge should compute from them"""
    seen = {start}
    todo = [start]
    deps = set()
    while todo:
        x = todo.pop()
        deps |= imm_deps(x)
        for t in imm_out(x):
            if t not in seen:
                seen.add(t)
                todo.append(t)
    return deps


def do_random(spec):
    ok, D, U, fresh_tree, counters = setup(spec)
    res = {'mirror_ok': ok, 'trees': 0, 'queries': 0, 'cyclic_trees': 0, 'mismatches': {}, 'witnesses': {}, 'distinct': 0,
           'forms_used': {}, 'samples': []}
    if not ok:
        return res
    root = spec['root']
    for ti in range(spec['start'], spec['start'] + spec['count']):
        rng = random.Random('C46:random:%s:%d' % (spec['seed'], ti))
        tree = T.random_tree(rng, rng.randint(4, 12))
        shutil.rmtree(root, ignore_errors=True)
        os.makedirs(root)
        write_tree(root, tree['files'])
        res['trees'] += 1
        res['distinct'] += 1
        for f, lst in tree['cimports'].items():
            for (_, form) in lst:
                res['forms_used'][form] = res['forms_used'].get(form, 0) + 1
        for f, lst in tree['includes'].items():
            for (_, form) in lst:
                res['forms_used'][form] = res['forms_used'].get(form, 0) + 1
        queries = list(tree['queries'])
        rng.shuffle(queries)
        dt = fresh_tree(root)
        cyc = False
        for qi, q in enumerate(queries):
            ap = os.path.join(root, q)
            got = {os.path.relpath(p, root) for p in dt.all_dependencies(ap)}
            exp = T.truth_closure(tree, q)
            res['queries'] += 1
            if q in {t for x in exp for (t, _) in tree['cimports'].get(x, [])}:
                cyc = True
            if got == exp:
                continue
            # is it the transitive merge or the scan of immediate edges?
            ref = fresh_tree(root)
            own = {os.path.relpath(p, root) for p in closure_over(lambda x: ref.cimported_files(x), lambda x: ref.immediate_dependencies(x), ap)}
            forms = T.edge_forms(tree, q)
            if got != own:
                kind = 'missing' if own - got else 'extra'
                key = 'transitive:%s:random-tree:%s' % (kind, 'first-query' if qi == 0 else 'after-earlier-queries')
            else:
                miss = sorted(exp - got)
                extra = sorted(got - exp)

                def edges_from_seen(target):
                    """forms of the ground-truth edges that lead from a file Cython did reach to `target`"""
                    out = []
                    for x in sorted(got | {q}):
                        for (t, form) in tree['cimports'].get(x, []) + tree['includes'].get(x, []):
                            if t == target:
                                out.append(form)
                    return out
                if miss:
                    cands = [(m_, edges_from_seen(m_)) for m_ in miss]
                    cands = [c for c in cands if c[1]] or [(miss[0], [forms.get(miss[0], 'unknown')])]
                    fl = sorted(cands[0][1], key=lambda f: (not f.startswith('from-pkg-cimport-module'), f))
                    key = 'scan:missed:' + fl[0]
                else:
                    key = 'scan:extra:' + forms.get(extra[0], 'unknown')
            res['mismatches'][key] = res['mismatches'].get(key, 0) + 1
            ws = res['witnesses'].setdefault(key, [])
            if len(ws) < 2:
                ws.append({'kind': 'random', 'files': tree['files'], 'query': q, 'earlier_queries': queries[:qi],
                           'expected': sorted(exp), 'observed': sorted(got), 'closure_of_own_immediate_edges': sorted(own)})
        res['cyclic_trees'] += cyc
        if len(res['samples']) < 1:
            res['samples'].append({'files': sorted(tree['files']), 'query': queries[0], 'all_dependencies': sorted(T.truth_closure(tree, queries[0]))})
    res.update(counters)
    shutil.rmtree(root, ignore_errors=True)
    return res


def do_scan(spec):
    ok, D, U, fresh_tree, counters = setup(spec)
    res = {'mirror_ok': ok, 'trees': 0, 'compared': 0, 'compile_failed': 0, 'mismatches': {}, 'witnesses': {}, 'forms_seen': {},
           'distinct': 0, 'samples': [], 'files_opened': 0, 'compile_errors': []}
    if not ok:
        return res
    from Cython.Compiler.Main import compile as cy_compile
    from Cython.Compiler.Options import CompilationOptions, default_options
    sys.addaudithook(_hook)
    root = spec['root']
    exts = ('.pyx', '.pxd', '.pxi', '.py')
    for ti in range(spec['start'], spec['start'] + spec['count']):
        rng = random.Random('C46:scan:%s:%d' % (spec['seed'], ti))
        tree = T.scan_tree(rng, pure=rng.random() < 0.12)
        shutil.rmtree(root, ignore_errors=True)
        os.makedirs(root)
        write_tree(root, tree['files'])
        res['trees'] += 1
        main = os.path.join(root, tree['main'])
        dt = fresh_tree(root)
        deps = {os.path.relpath(p, root) for p in dt.all_dependencies(main)}
        U.clear_function_caches()
        opts = dict(default_options)
        opts['include_path'] = [root]
        opts['language_level'] = 3
        err = sys.stderr
        import io
        sys.stderr = io.StringIO()
        cwd = os.getcwd()
        os.chdir(root)
        _audit['files'] = []
        _audit['on'] = True
        try:
            try:
                result = cy_compile(main, CompilationOptions(**opts))
                nerr = result.num_errors
            except BaseException as e:  # noqa
                nerr = -1
        finally:
            _audit['on'] = False
            os.chdir(cwd)
            msg = sys.stderr.getvalue()
            sys.stderr = err
        if nerr != 0:
            res['compile_failed'] += 1
            if len(res['compile_errors']) < 5:
                res['compile_errors'].append({'main': tree['files'][tree['main']], 'errors': msg[-600:]})
            continue
        opened = set()
        rroot = os.path.realpath(root)
        for p, mode in _audit['files']:
            if mode and any(c in str(mode) for c in 'wax+'):
                continue
            ap = os.path.realpath(os.path.join(root, p))
            if ap.startswith(rroot + os.sep) and ap.endswith(exts):
                opened.add(os.path.relpath(ap, rroot))
        res['files_opened'] += len(opened)
        res['compared'] += 1
        res['distinct'] += 1
        for rel, (form, cls) in tree['refs'].items():
            k = '%s/%s' % (cls, form)
            res['forms_seen'][k] = res['forms_seen'].get(k, 0) + 1
        if deps == opened:
            if len(res['samples']) < 1:
                res['samples'].append({'main': tree['files'][tree['main']], 'all_dependencies == files opened': sorted(deps)})
            continue
        for rel in sorted(deps ^ opened):
            form, cls = tree['refs'].get(rel, ('unlisted:' + os.path.basename(rel), '?'))
            if rel in opened:
                key = 'scan:missed:%s' % form        # the compiler read it, the scanner does not list it
            else:
                key = 'scan:extra:%s' % form
            res['mismatches'][key] = res['mismatches'].get(key, 0) + 1
            ws = res['witnesses'].setdefault(key, [])
            if len(ws) < 2:
                ws.append({'kind': 'scan', 'files': tree['files'], 'main': tree['main'], 'file': rel, 'form': form, 'class': cls,
                           'expected': sorted(opened), 'observed': sorted(deps)})
    shutil.rmtree(root, ignore_errors=True)
    return res


if __name__ == '__main__':
    spec = json.load(open(sys.argv[2]))
    fn = {'graphs': do_graphs, 'random': do_random, 'scan': do_scan}[sys.argv[1]]
    out = fn(spec)
    with open(spec['out'], 'w') as f:
        json.dump(out, f)
    sys.stdout.flush()
    os._exit(0)
