"""C06 C double arithmetic and float parsing match CPython (DESIGN.md section 5, C06).

Part A: a generated .pyx module with one function per (operator, form) on C doubles, compared with a plain
Python reference model of the same functions (CPython float arithmetic).  Part B: float(x) on str / bytes /
bytearray / object arguments (typed and untyped, .py and .pyx), compared with CPython's float().
Discrepancies are classified by *defect models*: the observed value is compared with what a named faulty
formula computes (e.g. floor(a / b) for //); a discrepancy no model explains gets an `unexplained` key.
"""
import math
import re

from vlib import core, creach, cy, diff, values
from vlib.gen import floatstr, numblocks as nb

ARITH = ['+', '-', '*', '/', '//', '%']
CMP = ['<', '<=', '==', '!=', '>', '>=']
OPNAME = {'+': 'add', '-': 'sub', '*': 'mul', '/': 'truediv', '//': 'floordiv', '%': 'mod', '<': 'lt', '<=': 'le',
          '==': 'eq', '!=': 'ne', '>': 'gt', '>=': 'ge'}
CONSTS = ['0.0', '(-0.0)', '1.0', '5.0', '(-5.0)', '0.1', '3.0', '(-7.0)', '1e308', '1e999', '(-1e999)', '5e-324', '0.5']

SPECIALS = [0.0, -0.0, 1.0, -1.0, 0.5, -2.5, 3.0, -7.0, 0.1, 0.3, 4.5, 5.5, 2.675, 0.49999999999999994, 1e-5,
            1e308, -1e308, 5e-324, -5e-324, 2.2250738585072014e-308, 2.225073858507201e-308, 1.7976931348623157e308,
            -1.7976931348623157e308, math.inf, -math.inf, math.nan, 9007199254740992.0, 9007199254740994.0, 1e16, 1e22,
            1e23, 9223372036854775808.0, -9223372036854775808.0, 18446744073709551616.0, 2147483648.0, -2147483649.0]
LONGS = [0, 1, -1, 2, -3, 7, 10, 2 ** 31 - 1, -2 ** 31, 2 ** 53 + 1, 2 ** 63 - 1, -2 ** 63]

# ----------------------------------------------------------------------------- defect models (classifier)
MODEL_PRELUDE = '''
import math
def _cfloor(q):
    if q != q or q in (math.inf, -math.inf) or q == 0:
        return q
    f = float(math.floor(q))
    return f
def _m_fdiv(a, b):
    """what `floor(a / b)` computes (C floor keeps -0.0)"""
    a = float(a); b = float(b)
    if b == 0: raise ZeroDivisionError
    return _cfloor(_cdiv(a, b))
def _cdiv(a, b):
    try:
        return a / b
    except OverflowError:
        return math.copysign(math.inf, a) * math.copysign(1.0, b)
def _m_mod(a, b):
    """what `r = fmod(a, b); r += ((r != 0) & ((r < 0) ^ (b < 0))) * b` computes"""
    a = float(a); b = float(b)
    if b == 0: raise ZeroDivisionError
    try:
        r = math.fmod(a, b)
    except ValueError:
        r = math.nan
    k = float((r != 0) & ((r < 0) ^ (b < 0)))
    if k == 0 and b in (math.inf, -math.inf):
        t = math.nan
    else:
        t = k * b
    return r + t
'''


class Bin:
    def __init__(self, op, l, r):
        self.op, self.l, self.r = op, l, r

    def render(self, model=()):
        l = self.l.render(model) if isinstance(self.l, Bin) else self.l
        r = self.r.render(model) if isinstance(self.r, Bin) else self.r
        if self.op in model:
            return '%s(%s, %s)' % ({'%': '_m_mod', '//': '_m_fdiv'}[self.op], l, r)
        return '(%s %s %s)' % (l, self.op, r)

    def ops(self):
        s = {self.op}
        for x in (self.l, self.r):
            if isinstance(x, Bin):
                s |= x.ops()
        return s


def gen_functions():
    """Part A functions: dicts {name, tag, op, form, sig, pyx, ref, models{frozenset: src}, args: pool kind}"""
    funcs = []

    def add(tag, op, form, sig, body_fn, argkind, expr=None):
        name = 'fz%dz' % len(funcs)
        csig, psig = sig
        f = {'name': name, 'tag': tag, 'op': op, 'form': form, 'argkind': argkind,
             'pyx': 'def %s(%s):\n%s\n' % (name, csig, body_fn(True, ())),
             'ref': 'def %s(%s):\n%s\n' % (name, psig, body_fn(False, ())), 'models': {}}
        mops = sorted((expr.ops() if expr is not None else {op}) & {'%', '//'})
        subsets = [(m,) for m in mops] + ([tuple(mops)] if len(mops) > 1 else [])
        for sub in subsets:
            f['models'][sub] = 'def %s(%s):\n%s\n' % (name, psig, body_fn(False, sub))
        funcs.append(f)

    DD = ('double a, double b', 'a, b')
    D = ('double a', 'a')
    DL = ('double a, long n', 'a, n')
    DI = ('double a, int n', 'a, n')

    def ret(e):
        return lambda pyx, model: '    return ' + (e.render(model) if isinstance(e, Bin) else e)

    def local(e):
        return lambda pyx, model: ('    cdef double r = %s\n    return r' if pyx else '    r = %s\n    return r') % e.render(model)

    def inplace(op):
        def body(pyx, model):
            if op in model:
                return '    a = %s\n    return a' % Bin(op, 'a', 'b').render(model)
            return '    a %s= b\n    return a' % op
        return body

    def nogil(e):
        def body(pyx, model):
            if pyx:
                return '    cdef double r\n    with nogil:\n        r = %s\n    return r' % e.render(model)
            return '    r = %s\n    return r' % e.render(model)
        return body

    def cond(e):
        return lambda pyx, model: "    if %s:\n        return 'T'\n    return 'F'" % e.render(model)

    for op in ARITH:
        e = Bin(op, 'a', 'b')
        add('%s/vv' % op, op, 'vv', DD, ret(e), 'pairs', e)
        add('%s/local' % op, op, 'local', DD, local(e), 'pairs', e)
        add('%s/ip' % op, op, 'ip', DD, inplace(op), 'pairs', e)
        if op in ('/', '//', '%'):
            add('%s/nogil' % op, op, 'nogil', DD, nogil(e), 'pairs', e)
        e = Bin(op, 'a', 'n')
        add('%s/vl' % op, op, 'vl', DL, ret(e), 'dl', e)
        e = Bin(op, 'n', 'a')
        add('%s/lv' % op, op, 'lv', DL, ret(e), 'dl', e)
        for c in CONSTS:
            e = Bin(op, 'a', c)
            add('%s/vc' % op, op, 'vc:' + c, D, ret(e), 'singles', e)
            e = Bin(op, c, 'a')
            add('%s/cv' % op, op, 'cv:' + c, D, ret(e), 'singles', e)
    for op in CMP:
        e = Bin(op, 'a', 'b')
        add('%s/vv' % op, op, 'vv', DD, ret(e), 'pairs', e)
        add('%s/if' % op, op, 'if', DD, cond(e), 'pairs', e)
        for c in ('0.0', '1e999', '0.1'):
            add('%s/vc' % op, op, 'vc:' + c, D, ret(Bin(op, 'a', c)), 'singles', Bin(op, 'a', c))
    add('cmp/chain', '<', 'chain', DD, lambda pyx, model: '    return a < b <= a + 1.0 != b', 'pairs')
    add('cmp/chain', '==', 'chain', DD, lambda pyx, model: '    return a == b == a', 'pairs')
    # nested expressions over the delicate operators
    for e in (Bin('//', Bin('%', 'a', 'b'), 'b'), Bin('-', 'a', Bin('*', Bin('//', 'a', 'b'), 'b')),
              Bin('+', Bin('*', Bin('//', 'a', 'b'), 'b'), Bin('%', 'a', 'b')), Bin('%', Bin('%', 'a', 'b'), Bin('-', '0.0', 'b'))):
        add('nested', '//' if '//' in e.ops() else '%', 'nested', DD, ret(e), 'pairs', e)
    # unary / builtins
    for tag, text in (('neg', '-a'), ('pos', '+a'), ('abs', 'abs(a)'), ('int', 'int(a)'), ('round', 'round(a)'),
                      ('round2c', 'round(a, 2)'), ('roundm1', 'round(a, -1)'), ('bool', 'bool(a)'), ('not', 'not a'),
                      ('float', 'float(a)'), ('negabs', '-abs(a)'), ('absneg', 'abs(-a)'), ('selfcmp', 'a == a'),
                      ('selfne', 'a != a')):
        add(tag, tag, 'un', D, (lambda t: lambda pyx, model: '    return ' + t)(text), 'singles')
    add('truth', 'truth', 'un', D, lambda pyx, model: "    if a:\n        return 'T'\n    return 'F'", 'singles')
    add('round2', 'round2', 'un', DI, lambda pyx, model: '    return round(a, n)', 'di')
    for tag, text in (('divmod', 'divmod(a, b)'), ('min2', 'min(a, b)'), ('max2', 'max(a, b)'), ('min3', 'min(a, b, 1.0)'),
                      ('max3', 'max(1.0, a, b)')):
        add(tag, tag, 'bi', DD, (lambda t: lambda pyx, model: '    return ' + t)(text), 'pairs')
    return funcs


# C-level anchors: what the generated body must contain for the case to exercise C double code
def anchor_ok(f, body):
    op = f['op']
    if re.search(r'PyNumber_(Add|Subtract|Multiply|TrueDivide|FloorDivide|Remainder|InPlace\w+)\(|PyObject_RichCompare\(|__Pyx_PyFloat_\w+ObjC', body):
        return False
    if op == '%':
        return '__Pyx_mod_double(' in body
    if op == '//':
        return 'floor(' in body or '__Pyx_floordiv_double(' in body or '__Pyx_div_double(' in body
    if op == 'abs':
        return 'fabs(' in body
    if op == 'int':
        return 'PyLong_FromDouble(' in body or '__Pyx_PyLong_FromDouble' in body
    if op in ('round', 'round2', 'round2c', 'roundm1', 'divmod'):
        return False        # delegated to the builtin on a Python float
    return True


# ----------------------------------------------------------------------------- Part B sources
PARSE_PY = '''# cython: language_level=3
import cython

def fz0z(s: str):
    return float(s)

def fz1z(s: bytes):
    return float(s)

def fz2z(s: bytearray):
    return float(s)

def fz3z(s):
    return float(s)

def fz4z(s: str):
    x: cython.double = float(s)
    return x
'''
PARSE_PYX = '''# cython: language_level=3
def fz5z(str s):
    cdef double d = float(s)
    return d

def fz6z(bytes s):
    cdef double d = float(s)
    return d

def fz7z(s):
    cdef double d = float(s)
    return d

def fz8z(bytearray s):
    return float(s)

def fz9z(unicode s not None):
    return float(s)
'''
PARSE_REF = '''
def fz5z(s): return float(s)
def fz6z(s): return float(s)
def fz7z(s): return float(s)
def fz8z(s): return float(s)
def fz9z(s): return float(s)
'''
PARSE_FUNCS = {  # name -> (module, arg kind, helper regex)
    'fz0z': ('c06p', 'str', r'__Pyx_PyUnicode_AsDouble'), 'fz1z': ('c06p', 'bytes', r'__Pyx_PyBytes_AsDouble'),
    'fz2z': ('c06p', 'bytearray', r'__Pyx_PyByteArray_AsDouble'), 'fz3z': ('c06p', 'object', r'__Pyx_PyObject_AsDouble|__Pyx_PyNumber_Float'),
    'fz4z': ('c06p', 'str', r'__Pyx_PyUnicode_AsDouble'),
    'fz5z': ('c06q', 'str', r'__Pyx_PyUnicode_AsDouble'), 'fz6z': ('c06q', 'bytes', r'__Pyx_PyBytes_AsDouble'),
    'fz7z': ('c06q', 'object', r'__Pyx_PyObject_AsDouble|__Pyx_PyNumber_Float'), 'fz8z': ('c06q', 'bytearray', r'__Pyx_PyByteArray_AsDouble'),
    'fz9z': ('c06q', 'str', r'__Pyx_PyUnicode_AsDouble'),
}
OBJECT_ARGS = ["S('1.5')", "S('1_0')", "S(' 1e+_5')", "B(b'2.5')", "B(b'1__0')", '1.5', 'F(2.5)', '7', '-2**70', '10**400', 'True',
               'None', 'FloatLike(2.5)', "FloatLike('x')", 'FloatLike(F(3.5))', 'FloatLike(7)', 'Idx(3)', 'IdxRaises()', 'IdxBad()',
               'IntOnly(3)', "memoryview(b'1.25')", "memoryview(b' 1_0 ')", 'Obj(1)', '[1]', '1+0j', 'I(12)', "bytearray(b'1e5')",
               "bytearray(b'1e+_5')", 'inf', 'nan', '-0.0']


def arg_expr(kind, s):
    if kind in ('str', 'object'):
        return '(%r,)' % s
    b = floatstr.to_bytes(s)
    return '(%r,)' % b if kind == 'bytes' else '(bytearray(%r),)' % b


def overflow_candidate(val):
    """structural precondition of the one-byte buffer overflow in the non-ASCII str copy loop: a non-ASCII str whose
    whitespace-stripped length is >= 39"""
    return isinstance(val, str) and not val.isascii() and len(val.strip()) >= 39


def classify_parse(kind, arg, exp, got):
    """arg: the str/bytes/bytearray text (or an expression for object args)"""
    text = arg
    isstr = isinstance(text, str)
    if isinstance(text, (bytes, bytearray)):
        text = bytes(text).decode('latin-1')
    feat = []
    if isinstance(text, str):
        if isstr and exp == '! ValueError' and got.startswith('float ') and not text.isascii():
            # model: every Py_UNICODE_ISSPACE character is stripped, including the ASCII separators 0x1c-0x1f that
            # CPython's float() does not strip
            core = text.strip()
            edge = text[:len(text) - len(text.lstrip())] + text[len(text.rstrip()):]
            try:
                if re.search('[\x1c-\x1f]', edge) and 'float ' + repr(float(core)) == got:
                    return 'float-parse:ascii-separator-whitespace-stripped-in-nonascii-str'
            except ValueError:
                pass
        if exp == '! ValueError' and got.startswith('float ') and re.search(r'[eE][+-]_[0-9]', text):
            # the model: deleting every underscore yields a text CPython accepts with exactly the observed value
            try:
                if 'float ' + repr(float(text.replace('_', ''))) == got:
                    return 'float-parse:underscore-after-exponent-sign-accepted'
            except ValueError:
                pass
        if '_' in text:
            feat.append('underscore')
        if any(ord(c) > 127 for c in text):
            feat.append('nonascii')
        if '\x00' in text:
            feat.append('nul')
        if len(text) >= 39:
            feat.append('long')
    ec = exp.split(' ')[0] if not exp.startswith('!') else exp[2:]
    gc = got.split(' ')[0] if not got.startswith('!') else got[2:]
    return 'float-parse:unexplained:%s:%s->%s:%s' % (kind, ec, gc, '+'.join(feat) or 'plain')


class Models:
    """lazily compiled defect-model variants of the Part A functions"""

    def __init__(self, funcs):
        self.funcs = {f['name']: f for f in funcs}
        self.ns = {}

    def outcome(self, fname, sub, args):
        key = (fname, sub)
        if key not in self.ns:
            ns = {}
            exec(MODEL_PRELUDE + self.funcs[fname]['models'][sub], ns)
            self.ns[key] = ns[fname]
        return nb.outcome(self.ns[key], args)

    def classify(self, fname, args, exp, got):
        f = self.funcs[fname]
        for sub in f['models']:
            if self.outcome(fname, sub, args) == got:
                if sub == ('//',):
                    return 'floordiv-double:floor-of-quotient', self.fdiv_symptom(args, exp, got)
                if sub == ('%',):
                    return 'mod-double:adjust-multiplies-divisor', self.mod_symptom(args, exp, got)
                return 'floordiv+mod-double:both-models', 'nested'
        ec = exp.split(' ')[0] if not exp.startswith('!') else exp[2:]
        gc = got.split(' ')[0] if not got.startswith('!') else got[2:]
        return '%s-double:unexplained:%s:%s->%s' % (OPNAME.get(f['op'], f['op']), f['form'].split(':')[0], ec, gc), 'unexplained'

    @staticmethod
    def fdiv_symptom(args, exp, got):
        a, b = float(args[0]), float(args[-1])
        if got in ('float -0.0', 'float 0.0') and exp in ('float -1.0',):
            return 'inf-divisor' if abs(b) == math.inf else 'quotient-underflows-to-zero'
        if abs(a) == math.inf:
            return 'inf-dividend'
        try:
            if float(got.split(' ')[1]) - float(exp.split(' ')[1]) == 1.0:
                return 'quotient-rounds-up-to-integer'
        except (ValueError, IndexError):
            pass
        if got in ('float inf', 'float -inf'):
            return 'quotient-overflows'
        return 'other'

    @staticmethod
    def mod_symptom(args, exp, got):
        b = float(args[-1])
        if got == 'float nan' and abs(b) == math.inf:
            return 'inf-divisor-gives-nan'
        if exp in ('float 0.0', 'float -0.0') and got in ('float 0.0', 'float -0.0'):
            return 'zero-remainder-sign'
        return 'other'


NMOD_A = 4


def main(ck):
    from concurrent.futures import ThreadPoolExecutor
    tree = cy.Tree('C06')
    funcs = gen_functions()
    fmap = {f['name']: f for f in funcs}
    models = Models(funcs)
    seed = ck.seed
    amods = {}
    for i, f in enumerate(funcs):
        f['mod'] = 'c06a%d' % (i % NMOD_A)
        amods.setdefault(f['mod'], []).append(f)
    pyx_srcs = {m: '# cython: language_level=3\n' + '\n'.join(f['pyx'] for f in fs) for m, fs in amods.items()}
    pyx_srcs['c06q'] = PARSE_PYX
    with ThreadPoolExecutor(2) as ex:
        fa = ex.submit(tree.build_sources, pyx_srcs, subdir='pyx', ext='.pyx')
        fb = ex.submit(tree.build_sources, {'c06p': PARSE_PY}, subdir='py', ext='.py')
        d, info = fa.result()
        d2, info2 = fb.result()
    info.update(info2)
    dirs = {m: d for m in pyx_srcs}
    dirs['c06p'] = d2
    failed = [m for m in info if not info[m]['ok']]
    for m in failed:
        ck.note('build failure %s at %s: %s' % (m, info[m]['stage'], info[m]['errors'][-600:]))
    ck.inconclusive_if(bool(failed), 'module(s) failed to build: %s' % failed)

    # ------------------------------------------------------------------ plan part A
    n_pairs = ck.pick(5000, 200000)
    n_pairs_other = ck.pick(1000, 30000)
    n_single = ck.pick(600, 12000)
    poolspec = {'pairs': ['double_pairs', seed, n_pairs], 'singles': ['double_singles', seed, n_single],
                'dl': ['double_long_pairs', seed, n_single], 'di': ['double_int_pairs', seed, n_single]}
    pools = {k: nb.build_pool(*v) for k, v in poolspec.items()}
    poolspec = nb.dump_pools(pools, tree.work, 'poolA')
    special_args = {
        'pairs': [(a, b) for a in SPECIALS for b in SPECIALS],
        'singles': [(a,) for a in SPECIALS],
        'dl': [(a, n) for a in SPECIALS for n in LONGS],
        'di': [(a, n) for a in SPECIALS for n in (0, 1, 2, -1, -2, 15, 17, 300, -300, 400)],
    }
    small = SPECIALS[:10] + SPECIALS[15:26]
    special_pairs_small = [(a, b) for a in small for b in small]
    nontrivial = set()
    helpers = {}
    runs = []           # dicts: label, part, mod, cases, ref, setup, nontrivial(bool)
    for m, fs in sorted(amods.items()):
        if not info[m]['ok']:
            continue
        refpath = info[m]['src'] + '.ref.py'
        with open(refpath, 'w') as fh:
            fh.write('\n'.join(f['ref'] for f in fs))
        ctext = open(info[m]['c'], encoding='utf-8', errors='replace').read()
        bodies = creach.bodies_by_token(ctext, [f['name'] for f in fs])
        for f in fs:
            body = bodies.get(f['name'], '')
            if anchor_ok(f, body):
                nontrivial.add(f['name'])
            for h in creach.helpers_in(body, r'__Pyx_mod_double|__Pyx_floordiv_double|\bfloor\(|\bfabs\(|\bfmod\(|PyLong_FromDouble'):
                helpers[h] = helpers.get(h, 0) + 1
        for grp in ('c', 'delegated'):
            cases = []
            for f in fs:
                if (f['name'] in nontrivial) != (grp == 'c'):
                    continue
                core_vv = f['form'] == 'vv' and f['argkind'] == 'pairs'
                sp = special_args[f['argkind']]
                if ck.quick and f['argkind'] == 'pairs' and not core_vv and f['op'] not in ('%', '//'):
                    sp = special_pairs_small
                for args in sp:
                    cases.append({'f': f['name'], 'a': nb.args_lit(args), 't': f['tag']})
                n = len(pools[f['argkind']]) if f['argkind'] != 'pairs' else (n_pairs if core_vv else n_pairs_other)
                cases += nb.block_cases(f['name'], f['argkind'], n, f['tag'] + '/random', bs=200)
            if cases:
                runs.append({'label': 'A_%s_%s' % (m, grp), 'part': 'A', 'mod': m, 'cases': cases, 'ref': refpath,
                             'setup': 'set_pools(%r)' % poolspec, 'nontrivial': grp == 'c', 'pools': pools})
    ck.cov['helpers_reached'] = helpers
    ck.cov['functions'] = len(funcs)
    ck.cov['functions_c_level'] = len(nontrivial)

    # ------------------------------------------------------------------ plan part B
    n_txt = ck.pick(4000, 300000)
    exh_len = ck.pick(5, 6)
    rng = ck.rng('texts')
    percall_texts = [s for s, _ in floatstr.texts(rng, ck.pick(1000, 6000))] + list(floatstr.exhaustive(exh_len)) + [
        '1' * 38, '1' * 39, '1' * 40, '1' * 41, '1_' * 19 + '1', '1_' * 20 + '1', '\xa0' + '1' * 38, '\xa0' + '1_' * 19 + '1',
        '\xa0' + '1' * 30 + 'e5', '\xa01e_5', '\xa01_e5', '\xa01e+_5', '\xa01_0e+1_0', '\xa01_0.5_0e-0_1 ',
        '1_' * 19 + '1 ', '1e+_5', '1E-_5', '-1e+_5', '+_5', '-_5', '1_0e+1_0', 'inf\x1c\xa0', '\x1f\xa0nan', ' 1.5\x1d']
    percall_small = [s for s in percall_texts if len(s) != 5 or not set(s) <= set(floatstr.STRUCT_ALPHABET)]
    acc = sum(1 for s in percall_texts if _accepts(s))
    ck.cov['percall_texts'] = len(percall_texts)
    pool_texts = [s for s, _ in floatstr.texts(ck.rng('pooltexts'), n_txt)]
    # Texts that meet the structural precondition of the copy-buffer overflow (non-ASCII str, stripped length >= 39) may
    # corrupt the heap of the process that evaluates them; they are evaluated as str only in separate "zone" processes
    # (run under PYTHONMALLOC=malloc so that the one-byte overflow aborts instead of silently damaging later cases).
    zone_limit = ck.pick(60, 600)
    zone_pool = [s for s in pool_texts if overflow_candidate(s)][:zone_limit]
    zone_percall = [s for s in percall_texts if overflow_candidate(s)]
    poolsB = {'str': [(s,) for s in pool_texts if not overflow_candidate(s)], 'bytes': [(floatstr.to_bytes(s),) for s in pool_texts],
              'bytearray': [(bytearray(floatstr.to_bytes(s)),) for s in pool_texts], 'zone': [(s,) for s in zone_pool]}
    ck.cov['overflow_zone_texts'] = len(zone_pool) + len(zone_percall)
    poolspecB = nb.dump_pools(poolsB, tree.work, 'poolB')
    pool_acc = sum(1 for s in pool_texts if _accepts(s))
    total_txt = len(percall_texts) + n_txt
    acc_frac = (acc + pool_acc) / float(total_txt)
    ck.cov['texts_accepted_by_cpython'] = acc + pool_acc
    ck.cov['texts_rejected_by_cpython'] = total_txt - acc - pool_acc
    ck.inconclusive_if(acc_frac < 0.2 or acc_frac > 0.8, 'accept/reject balance of generated texts out of range: %.2f' % acc_frac)
    ck.inconclusive_if(pool_acc < 0.3 * n_txt or pool_acc > 0.7 * n_txt,
                       'grammar/mutation texts: accepted fraction %.2f outside 0.3..0.7' % (pool_acc / float(n_txt)))
    parse_helpers = {}
    bsrc = {'c06p': (PARSE_PY, None, '.py'), 'c06q': (PARSE_PYX, PARSE_REF, '.pyx')}
    for mod in ('c06p', 'c06q'):
        if not info[mod]['ok']:
            continue
        src_ref = bsrc[mod][1]
        if src_ref is None:
            refpath = info[mod]['src']
        else:
            refpath = info[mod]['src'] + '.ref.py'
            with open(refpath, 'w') as fh:
                fh.write(src_ref)
        ctext = open(info[mod]['c'], encoding='utf-8', errors='replace').read()
        names = [n for n, v in PARSE_FUNCS.items() if v[0] == mod]
        bodies = creach.bodies_by_token(ctext, names)
        for name in names:
            cases = []
            kind, rx = PARSE_FUNCS[name][1], PARSE_FUNCS[name][2]
            hs = creach.helpers_in(bodies.get(name, ''), rx)
            ck.inconclusive_if(not hs, 'generated C of %s (%s argument) does not call %s' % (name, kind, rx))
            for h in hs:
                parse_helpers[h] = parse_helpers.get(h, 0) + 1
            for s in (percall_texts if mod == 'c06p' or not ck.quick else percall_small):
                if kind in ('str', 'object') and overflow_candidate(s):
                    continue
                cases.append({'f': name, 'a': arg_expr(kind, s), 't': 'float(%s)' % kind})
            if kind == 'object':
                for e in OBJECT_ARGS:
                    cases.append({'f': name, 'a': '(%s,)' % e, 't': 'float(object)/other'})
                for s in percall_texts[:1500]:
                    cases.append({'f': name, 'a': arg_expr('bytes', s), 't': 'float(object)/bytes'})
                    cases.append({'f': name, 'a': arg_expr('bytearray', s), 't': 'float(object)/bytearray'})
            pk = 'str' if kind == 'object' else kind
            cases += nb.block_cases(name, pk, len(poolsB[pk]), 'float(%s)/random' % kind, bs=200)
            runs.append({'label': 'B_%s_%s' % (mod, name), 'part': 'B', 'mod': mod, 'cases': cases, 'ref': refpath,
                         'setup': 'set_pools(%r)' % {pk: poolspecB[pk]}, 'nontrivial': bool(hs), 'pools': poolsB})
            if kind in ('str', 'object'):
                zc = [{'f': name, 'a': arg_expr(kind, s), 't': 'float(%s)/overflow-zone' % kind} for s in zone_percall]
                zc += nb.block_cases(name, 'zone', len(poolsB['zone']), 'float(%s)/overflow-zone' % kind, bs=10)
                runs.append({'label': 'Z_%s_%s' % (mod, name), 'part': 'B', 'mod': mod, 'cases': zc, 'ref': refpath, 'zone': True,
                             'setup': 'set_pools(%r)' % {'zone': poolspecB['zone']}, 'nontrivial': bool(hs), 'pools': poolsB})
    ck.cov['parse_helpers_reached'] = parse_helpers

    # ------------------------------------------------------------------ run (each run_cases call = own processes)
    def go(r):
        return diff.run_cases(tree, dirs[r['mod']], r['mod'], r['cases'], ref=r['ref'], compare={'log': False},
                              env_mods=['vlib.values', 'vlib.gen.numblocks'], setup=r['setup'], tagdir='run' + r['label'],
                              timeout=1500, spec_extra={'max_mismatch_records': 5000},
                              extra_env={'PYTHONMALLOC': 'malloc'} if r.get('zone') else None, max_restarts=400 if r.get('zone') else 25,
                              nproc=max(1, min(core.NCPU, ck.pick(3, 8), (len(r['cases']) + 3999) // 4000)))
    with ThreadPoolExecutor(ck.pick(4, 3)) as ex:
        results = list(ex.map(go, runs))

    evaluations = distinct = 0
    samples = []
    symptoms = {}
    cells = {}
    hist = {}
    c_level_calls = 0
    for r, res in zip(runs, results):
        cases = r['cases']
        total = sum((c['blk'][3] - c['blk'][2]) if 'blk' in c else 1 for c in cases)
        lost = 0
        for c in res.crashes:
            blk = c['case'].get('blk')
            lost += (blk[3] - blk[2]) if blk else 1
            fname = c['case'].get('f') or blk[0]
            if r['part'] == 'A':
                f = fmap[fname]
                key = 'crash:%s:%s' % (OPNAME.get(f['op'], f['op']), f['form'].split(':')[0])
                wit = {'function_source': '# cython: language_level=3\n' + f['pyx'], 'ref_source': f['ref'], 'ext': '.pyx'}
            else:
                kind = PARSE_FUNCS[fname][1]
                if blk:
                    cand = [a[0] for a in r['pools'][blk[1]][blk[2]:blk[3]]]
                else:
                    try:
                        cand = [eval(c['case']['a'], dict(vars(values)))[0]]
                    except Exception:
                        cand = []
                if r.get('zone') and cand and all(overflow_candidate(v) for v in cand):
                    key = 'crash:float-parse:nonascii-str-copy-buffer-overflow'
                else:
                    key = 'crash:float-parse:%s' % kind
                wit = {'module_source': bsrc[r['mod']][0], 'ref_source': bsrc[r['mod']][1], 'ext': bsrc[r['mod']][2]}
            wit.update({'case': c['case'], 'stderr': c['stderr'], 'compare': {'log': False}, 'cflags': [], 'directives': {},
                        'expected': 'no crash', 'observed': c['kind']})
            ck.discrepancy(key, 'crash/hang %s while evaluating %s' % (c['kind'], ascii(c['case'])[:300]), wit)
        for ft in res.fatal:
            ck.inconclusive_if(True, 'driver failed (%s): %s' % (r['label'], str(ft)[-300:]))
        if not res.fatal:
            evaluations += total - lost
            if r['nontrivial']:
                distinct += res.distinct
                c_level_calls += total - lost
        samples.extend(res.samples[:1])
        for k, v in res.hist.items():
            hist[k] = hist.get(k, 0) + v
            cells[k.split('|')[0]] = cells.get(k.split('|')[0], 0) + v
        for m in res.mismatches:
            if 'blk' in m['case']:
                items = nb.explode(m, r['pools'])
            elif r['part'] == 'A':
                items = [(m['case']['f'], eval(m['case']['a'], {'inf': math.inf, 'nan': math.nan}),
                          nb.sig_to_text(m['exp']), nb.sig_to_text(m['got']))]
            else:
                items = [(m['case']['f'], m['case']['a'], nb.sig_to_text(m['exp']), nb.sig_to_text(m['got']))]
            for fname, args, exp, got in items:
                if r['part'] == 'A':
                    f = fmap[fname]
                    if args is None:
                        key, sym = 'block-evaluation-failed', 'harness'
                    else:
                        key, sym = models.classify(fname, args, exp, got)
                    symptoms['%s/%s' % (key, sym)] = symptoms.get('%s/%s' % (key, sym), 0) + 1
                    ck.discrepancy(key, '%s on %s: CPython %s, compiled %s (%s)' % (
                        f['pyx'].strip().replace('\n', ' ; '), args, exp, got, sym),
                        {'function_source': '# cython: language_level=3\n' + f['pyx'], 'ref_source': f['ref'], 'ext': '.pyx',
                         'case': {'f': fname, 'a': nb.args_lit(args) if args is not None else None},
                         'compare': {'log': False}, 'cflags': [], 'directives': {}, 'expected': exp, 'observed': got,
                         'symptom': sym})
                    continue
                kind = PARSE_FUNCS[fname][1]
                if isinstance(args, str):      # per-call: expression text
                    aexpr = args
                    try:
                        val = eval(args, dict(vars(values)))[0]
                    except Exception:
                        val = args
                elif args is None:
                    aexpr, val = None, None
                else:
                    val = args[0]
                    aexpr = '(%r,)' % (val,) if not isinstance(val, bytearray) else '(bytearray(%r),)' % bytes(val)
                key = classify_parse(kind, val if isinstance(val, (str, bytes, bytearray)) else aexpr, exp, got) \
                    if args is not None else 'block-evaluation-failed'
                symptoms[key] = symptoms.get(key, 0) + 1
                ck.discrepancy(key, 'float(%s) in %s: CPython %s, compiled %s' % (ascii(aexpr), fname, exp, got),
                               {'module_source': bsrc[r['mod']][0], 'ref_source': bsrc[r['mod']][1], 'ext': bsrc[r['mod']][2],
                                'case': {'f': fname, 'a': aexpr}, 'compare': {'log': False}, 'cflags': [], 'directives': {},
                                'expected': exp, 'observed': got})
    ck.cov['c_level_calls'] = c_level_calls
    # ------------------------------------------------------------------ reach floors
    if not failed:
        missing = [op for op in ARITH + CMP if not any(k.startswith(op + '/') for k in cells)]
        ck.inconclusive_if(bool(missing), 'operator cells never observed: %s' % missing)
        for op in ('%', '//'):
            names = [f['name'] for f in funcs if f['op'] == op and f['form'] == 'vv']
            ck.inconclusive_if(not any(n in nontrivial for n in names),
                               'generated C of the %s function does not contain the C-level helper' % op)
        ck.inconclusive_if(len(nontrivial) < len(funcs) * 0.8, 'fewer than 80%% of the functions compiled to C double code (%d/%d)'
                           % (len(nontrivial), len(funcs)))
        for kind in ('str', 'bytes', 'bytearray', 'object'):
            ck.inconclusive_if(not any(k.startswith('float(%s)' % kind) for k in cells), 'float(%s) never observed' % kind)
    return ck.finish(
        evaluations, distinct,
        'Part A: one .pyx function per (operator, form: two double variables / cdef double local / in-place / nogil / '
        'double-with-long / constant on either side / truth context / chained / nested) plus unary and builtin calls, each '
        'called on all pairs of %d special doubles and on seeded random pairs biased to near-integral quotients; reference = '
        'the same expressions in plain Python.  Part B: float() of str/bytes/bytearray/object arguments in .py and .pyx '
        'functions on grammar-generated and mutated numeric texts plus all strings of length <= %d over {1 _ . e + space}; '
        'reference = CPython float().  evaluations = calls judged (block cases count their slice length); '
        'distinct = distinct (function or block, CPython outcome) over functions whose generated C performs the '
        'operation on C doubles (no PyNumber_* call; %% calls __Pyx_mod_double, // calls floor or __Pyx_floordiv_double) and '
        'over float() functions whose C calls the __Pyx_Py*_AsDouble helper' % (len(SPECIALS), exh_len),
        samples,
        extra={'cells': cells, 'symptoms_of_classified_discrepancies': symptoms,
               'outcome_hist_top': dict(sorted(hist.items(), key=lambda kv: -kv[1])[:60]),
               'random_pairs_per_core_operator': n_pairs, 'random_texts_per_function': n_txt},
        assumptions=['CPython 3.12.1 float arithmetic / float() is the reference',
                     'exception message text is not compared (type only), as DESIGN C06 FA states',
                     'comparisons between a C long and a C double are excluded (C promotion is documented Cython behaviour, the '
                     'statement speaks of comparisons on C doubles); mixed arithmetic is included because Python converts the int '
                     'to float first as well',
                     'cdivision=True code is not part of the property (C semantics requested explicitly)'])


def _accepts(s):
    try:
        float(s)
        return True
    except ValueError:
        return False
