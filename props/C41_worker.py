"""C41 part (b): directive strings -> the real Options.parse_directive_value / parse_directive_list /
parse_compile_time_env and `# cython:` header comments through the real parser (p_compiler_directive_comments),
compared with an independent model built from Options.directive_types and the documentation.

usage: python -m props.C41_worker spec.json   (mirror first on PYTHONPATH)
"""
import json
import os
import random
import sys

BOOL_TEXT = ['True', 'False', 'true', 'false', 'TRUE', 'yes', 'no', 'Yes', 'NO', '1', '0', 'None', '', ' True', 'True ', 'Flase',
             'Treu', 'on', 'off', 'y', 'n', 'T', 'F', 'true ', 'False,']
INT_TEXT = ['0', '1', '8', ' 8', '8 ', '+8', '-8', '08', '8.0', '1e3', '0x10', '1_000', '', 'eight', '٣', '--8']
STR_TEXT = ['3', '2', '3str', 'abc', '', 'a b', 'SOURCEFILE', '/x/y', 'None']
ENUM_TEXT = ['bytes', 'bytearray', 'str', 'unicode', 'Bytes', 'unnicode', '', 'c', 'clinic', 'python', 'sequence', 'mapping', 'no',
             'shared_gil', 'own_gil', 'utf8', 'UTF-8', 'us-ascii', 'deFAuLT', 'latin-1', 'NoSuch--Enc']


def model_value(Options, name, value, relaxed):
    """('ok', value) | ('none',) | ('ValueError',) | ('unspecified',)"""
    t = Options.directive_types.get(name)
    if not t:
        return ('none',)
    if t is bool:
        v = str(value)
        if v == 'True':
            return ('ok', True)
        if v == 'False':
            return ('ok', False)
        if relaxed and v.lower() in ('true', 'yes'):
            return ('ok', True)
        if relaxed and v.lower() in ('false', 'no'):
            return ('ok', False)
        return ('ValueError',)
    if t is int:
        try:
            return ('ok', int(value))
        except ValueError:
            return ('ValueError',)
    if t is str:
        return ('ok', str(value))
    if name == 'c_string_type':
        v = {'unicode': 'str'}.get(value, value)
        return ('ok', v) if v in ('bytes', 'bytearray', 'str') else ('ValueError',)
    if name == 'c_string_encoding':
        if not value:
            return ('ok', '')
        low = value.lower()
        common = {'utf8': 'utf8', 'utf-8': 'utf8', 'default': 'utf8', 'ascii': 'ascii', 'us-ascii': 'ascii'}
        if low in common:
            return ('ok', common[low])
        import codecs
        try:
            dec = codecs.getdecoder(value)
        except LookupError:
            return ('ok', value)
        for nm in ('ascii', 'utf8'):
            if codecs.getdecoder(nm) == dec:
                return ('ok', nm)
        return ('ok', value)
    enums = {'collection_type': ('sequence', 'mapping'), 'embedsignature.format': ('c', 'clinic', 'python'),
             'subinterpreters_compatible': ('no', 'shared_gil', 'own_gil')}
    if name in enums:
        return ('ok', value) if value in enums[name] else ('ValueError',)
    return ('unspecified',)      # list / dict / type / deferred directives: not settable from a string by the docs


def observe(fn, *a, **k):
    try:
        return ('ok', fn(*a, **k))
    except ValueError:
        return ('ValueError',)
    except Exception as e:    # noqa
        return ('exc', type(e).__name__, str(e)[:120])


def kind_of(Options, name):
    t = Options.directive_types.get(name)
    if not t:
        return 'unknown-or-untyped'
    for ty, k in ((bool, 'bool'), (int, 'int'), (str, 'str'), (list, 'list'), (dict, 'dict'), (type, 'type')):
        if t is ty:
            return k
    if t is type(None):
        return 'NoneType-default'
    return 'callable:' + getattr(t, '__name__', type(t).__name__)


def main():
    spec = json.load(open(sys.argv[1]))
    from Cython.Compiler import Options
    ok = Options.__file__.endswith('.py') and os.path.realpath(Options.__file__).startswith(os.path.realpath(spec['mirror']))
    res = {'mirror_ok': ok, 'n': 0, 'value_calls': 0, 'list_calls': 0, 'env_calls': 0, 'header_calls': 0, 'mismatches': {},
           'witnesses': {}, 'outcomes': {}, 'distinct': 0, 'samples': []}
    if not ok:
        json.dump(res, open(spec['out'], 'w'))
        return 0
    rng = random.Random('C41:parse:%s:%s' % (spec['seed'], spec['chunk']))
    names = sorted(Options._directive_defaults)
    typed = sorted(Options.directive_types)
    seen = set()

    def mismatch(key, what, wit):
        res['mismatches'][key] = res['mismatches'].get(key, 0) + 1
        ws = res['witnesses'].setdefault(key, [])
        if len(ws) < 2:
            ws.append(dict(wit, what=what))

    def text_for(name):
        k = kind_of(Options, name)
        pool = {'bool': BOOL_TEXT, 'int': INT_TEXT, 'str': STR_TEXT}.get(k, ENUM_TEXT + BOOL_TEXT[:4])
        if rng.random() < 0.15:
            pool = BOOL_TEXT + INT_TEXT + ENUM_TEXT
        return rng.choice(pool)

    def some_name():
        r = rng.random()
        if r < 0.75:
            return rng.choice(typed)
        if r < 0.85:
            n = rng.choice(names)
            return rng.choice([n.upper(), n.capitalize(), n + ' ', n[:-1], n + 'x', n.replace('_', '-')])
        return rng.choice(['nonexisting', '', 'warn.all', 'optimize.all', 'boundscheck.x', 'Boundscheck', 'cython.boundscheck'])

    # ---- parse_directive_value
    for _ in range(spec['n_value']):
        name = some_name()
        value = text_for(name) if name in Options.directive_types else rng.choice(BOOL_TEXT)
        relaxed = rng.random() < 0.4
        exp = model_value(Options, name, value, relaxed)
        got = observe(Options.parse_directive_value, name, value, relaxed_bool=relaxed)
        res['value_calls'] += 1
        seen.add(('v', name, value, relaxed))
        oc = 'value:%s:%s' % (kind_of(Options, name), got[0] if got[0] != 'ok' else ('None' if got[1] is None else 'ok'))
        res['outcomes'][oc] = res['outcomes'].get(oc, 0) + 1
        good = True
        if exp[0] == 'none':
            good = got == ('ok', None)
        elif exp[0] == 'ok':
            good = got[0] == 'ok' and got[1] == exp[1] and type(got[1]) is type(exp[1])
        elif exp[0] == 'ValueError':
            good = got[0] == 'ValueError'
        else:   # list / dict / type / deferred / untyped directives: any value or any error ("rejected with an error")
            good = True
        if not good:
            key = 'parse:value:%s:expected-%s:got-%s' % (kind_of(Options, name), exp[0], got[0] if got[0] != 'exc' else got[1])
            mismatch(key, 'parse_directive_value(%r, %r, relaxed_bool=%r) -> %r, model %r' % (name, value, relaxed, got, exp),
                     {'kind': 'parse', 'call': 'parse_directive_value', 'args': [name, value, relaxed], 'expected': repr(exp), 'observed': repr(got)})
        elif len(res['samples']) < 2 and exp[0] == 'ValueError':
            res['samples'].append({'call': 'parse_directive_value(%r, %r, relaxed_bool=%r)' % (name, value, relaxed), 'outcome': repr(got)})

    # ---- parse_directive_list (model: split on ',', strip, NAME=VALUE, unknown names rejected, later items win)
    safe = [n for n in typed if kind_of(Options, n) in ('bool', 'int', 'str') or n in ('c_string_type', 'c_string_encoding', 'embedsignature.format')]
    for _ in range(spec['n_list']):
        items = []
        exp = {}
        err = None
        for _i in range(rng.randint(0, 5)):
            r = rng.random()
            if r < 0.08:
                raw = rng.choice(['', ' ', '   '])
                items.append(raw)
                continue
            if r < 0.14:
                raw = rng.choice(['asdf', 'boundscheck', 'boundscheck True', '=True'])
                items.append(raw)
                if raw.strip() and err is None:
                    err = 'ValueError'
                continue
            name = rng.choice(safe) if rng.random() < 0.9 else rng.choice(['unknown', 'Boundscheck', 'bounds check'])
            value = text_for(name) if name in Options.directive_types else 'True'
            if ',' in value:
                continue
            ws1, ws2, ws3, ws4 = (rng.choice(['', ' ', '  ']) for _ in range(4))
            items.append('%s%s%s=%s%s%s' % (ws1, name, ws2, ws3, value, ws4))
            if err is None:
                if name not in Options._directive_defaults:
                    err = 'ValueError'
                else:
                    m = model_value(Options, name, value.strip(), False)
                    if m[0] == 'ok':
                        exp[name] = m[1]
                    elif m[0] == 'ValueError':
                        err = 'ValueError'
                    elif m[0] == 'none':
                        exp[name] = None
        s = ','.join(items) + rng.choice(['', '', ',', ' ,'])
        got = observe(Options.parse_directive_list, s)
        res['list_calls'] += 1
        seen.add(('l', s))
        oc = 'list:%s' % got[0]
        res['outcomes'][oc] = res['outcomes'].get(oc, 0) + 1
        good = (got[0] == 'ValueError') if err else (got[0] == 'ok' and got[1] == exp and all(type(got[1][k]) is type(exp[k]) for k in exp))
        if not good:
            mismatch('parse:list:expected-%s:got-%s' % (err or 'dict', got[0] if got[0] != 'exc' else got[1]),
                     'parse_directive_list(%r) -> %r, model %r' % (s, got, err or exp),
                     {'kind': 'parse', 'call': 'parse_directive_list', 'args': [s], 'expected': repr(err or exp), 'observed': repr(got)})

    # ---- parse_compile_time_env
    for _ in range(spec['n_env']):
        items = []
        exp = {}
        err = None
        for _i in range(rng.randint(0, 4)):
            if rng.random() < 0.1:
                raw = rng.choice(['', ' ', 'asdf'])
                items.append(raw)
                if raw.strip() and err is None:
                    err = 'ValueError'
                continue
            name = rng.choice(['A', 'HAVE_X', 'n1', 'unknown'])
            value = rng.choice(['True', 'False', 'None', '4', '04', '1.5', '1e3', 'abc', 'true', '', '-3', 'a=b', ' 7 ', 'inf', 'nan'])
            items.append('%s=%s' % (name, value))
            if err is None:
                v = value.strip()
                if v == 'True':
                    exp[name] = True
                elif v == 'False':
                    exp[name] = False
                elif v == 'None':
                    exp[name] = None
                elif v.isdigit():
                    exp[name] = int(v)
                else:
                    try:
                        exp[name] = float(v)
                    except ValueError:
                        exp[name] = v
        s = ','.join(items)
        got = observe(Options.parse_compile_time_env, s)
        res['env_calls'] += 1
        seen.add(('e', s))

        def same(a, b):
            if type(a) is not type(b):
                return False
            return a == b or (isinstance(a, float) and a != a and b != b)
        good = (got[0] == 'ValueError') if err else (got[0] == 'ok' and set(got[1]) == set(exp) and all(same(got[1][k], exp[k]) for k in exp))
        if not good:
            mismatch('parse:env:expected-%s:got-%s' % (err or 'dict', got[0] if got[0] != 'exc' else got[1]),
                     'parse_compile_time_env(%r) -> %r, model %r' % (s, got, err or exp),
                     {'kind': 'parse', 'call': 'parse_compile_time_env', 'args': [s], 'expected': repr(err or exp), 'observed': repr(got)})

    # ---- header comments through the real parser, and scope rules through a real compilation
    from Cython.Compiler.Main import compile as cy_compile
    from Cython.Compiler.Options import CompilationOptions, default_options
    import io
    d = spec['dir']
    os.makedirs(d, exist_ok=True)
    for i in range(spec['n_header']):
        mode = rng.choice(['header', 'header', 'scope'])
        if mode == 'header':
            name = rng.choice(['boundscheck', 'cdivision', 'wraparound', 'embedsignature', 'c_string_type', 'language_level', 'Boundscheck', 'nosuch'])
            value = text_for(name) if name in Options.directive_types else 'True'
            if ',' in value or '\n' in value:
                value = 'True'
            variants = ['# cython: %s=%s' % (name, value), '#cython: %s=%s' % (name, value), '#   cython:%s = %s' % (name, value),
                        '# Cython: %s=%s' % (name, value), '# cython: %s=%s, wraparound=False' % (name, value)]
            line = rng.choice(variants)
            body = line + '\nx = 1\n'
            m = model_value(Options, name, value.strip(), False) if name in Options._directive_defaults else ('ignored',)
            if line.startswith('# Cython'):
                m = ('ignored',)      # the marker is lower-case `cython:` in the documentation
            if name == 'language_level' and m[0] == 'ok' and value.strip() not in ('2', '3', '3str'):
                m = ('unspecified',)
            if name == 'c_string_type' and m[0] == 'ok' and m[1] == 'str':
                m = ('unspecified',)      # needs c_string_encoding as well: the compiler may reject it with a positioned error
            expect_error = m[0] == 'ValueError'
        else:
            # a directive used in a scope its directive_scopes entry does not allow must be rejected
            dname, form, allowed = rng.choice([
                ('c_string_type', "with cython.c_string_type('str'):\n    x = 1\n", False),
                ('c_string_type', "@cython.c_string_type('str')\ndef f():\n    pass\n", False),
                ('language_level', "@cython.language_level('3')\ndef f():\n    pass\n", False),
                ('final', "@cython.final\ndef f():\n    pass\n", True),
                ('boundscheck', "@cython.boundscheck(False)\ndef f():\n    pass\n", True),
                ('boundscheck', "with cython.boundscheck(False):\n    x = 1\n", True),
                ('ccomplex', "with cython.ccomplex(True):\n    x = 1\n", False),
                ('auto_pickle', "@cython.auto_pickle(True)\ndef f():\n    pass\n", False),
                ('internal', "@cython.internal\ndef f():\n    pass\n", False),
                ('cdivision', "@cython.cdivision('yes')\ndef f():\n    pass\n", False),
                ('cdivision', "@cython.cdivision(True)\ndef f():\n    pass\n", True),
                ('nosuchdirective', "@cython.nosuchdirective(True)\ndef f():\n    pass\n", False),
            ])
            body = 'cimport cython\n' + form
            expect_error = not allowed
            m = ('scope', dname)
        p = os.path.join(d, 'h%d_%d.pyx' % (spec['chunk'], i))
        with open(p, 'w') as f:
            f.write(body)
        err_io = io.StringIO()
        old = sys.stderr
        sys.stderr = err_io
        try:
            try:
                r = cy_compile(p, CompilationOptions(**dict(default_options, language_level=3)))
                outcome = ('errors', r.num_errors)
            except Exception as e:    # noqa
                outcome = ('exc', type(e).__name__, str(e)[:200])
        finally:
            sys.stderr = old
        msgs = err_io.getvalue()
        positioned = bool(__import__('re').search(r'h%d_%d\.pyx:\d+:\d+:' % (spec['chunk'], i), msgs))
        res['header_calls'] += 1
        seen.add(('h', body))
        oc = '%s:%s' % (mode, 'rejected' if outcome[0] == 'errors' and outcome[1] else outcome[0] if outcome[0] == 'exc' else 'accepted')
        res['outcomes'][oc] = res['outcomes'].get(oc, 0) + 1
        if outcome[0] == 'exc':
            mismatch('parse:%s:compiler-crash:%s' % (mode, outcome[1]), 'compiling %r crashed: %r' % (body, outcome),
                     {'kind': 'parse', 'call': 'compile', 'module_source': body, 'expected': 'accepted or positioned error', 'observed': repr(outcome)})
        elif m[0] == 'unspecified':
            pass
        elif expect_error and not (outcome[1] and positioned):
            mismatch('parse:%s:not-rejected:%s' % (mode, m[1] if mode == 'scope' else kind_of(Options, name)),
                     'source %r: expected a positioned error, got %r %s' % (body, outcome, msgs[-200:]),
                     {'kind': 'parse', 'call': 'compile', 'module_source': body, 'expected': 'positioned error', 'observed': repr(outcome) + msgs[-300:]})
        elif not expect_error and outcome[1]:
            mismatch('parse:%s:wrongly-rejected:%s' % (mode, m[1] if mode == 'scope' else kind_of(Options, name)),
                     'source %r: expected to compile, got %s' % (body, msgs[-300:]),
                     {'kind': 'parse', 'call': 'compile', 'module_source': body, 'expected': 'accepted', 'observed': msgs[-300:]})
        for ext in ('.pyx', '.c'):
            try:
                os.unlink(os.path.splitext(p)[0] + ext)
            except OSError:
                pass
    res['n'] = res['value_calls'] + res['list_calls'] + res['env_calls'] + res['header_calls']
    res['distinct'] = len(seen)
    json.dump(res, open(spec['out'], 'w'))
    return 0


if __name__ == '__main__':
    rc = main()
    sys.stdout.flush()
    os._exit(rc)
