"""Shared by the C03/C04 checks (generator side) and the differential driver (evaluation side, imported through
run_cases(setup='from props.C03_rows import *')): C integer type table, boundary pools, deterministic operand
lists and the row evaluator.  A *row* is one driver case that calls one compiled function on a whole operand list and
returns the list of outcomes, so that 10^5..10^7 calls do not need 10^5..10^7 case records."""
import random

__all__ = ['CT', 'bounds', 'boundary', 'plist', 'row', 'fits']

# short name -> (C declaration, bits, signed)
CT = {
    'c': ('char', 8, True),            # plain char is signed on x86-64/gcc (the only platform available here)
    'sc': ('signed char', 8, True),
    'uc': ('unsigned char', 8, False),
    's': ('short', 16, True),
    'us': ('unsigned short', 16, False),
    'i': ('int', 32, True),
    'si': ('signed int', 32, True),    # explicitly signed (type.signed == 2 inside the compiler)
    'ui': ('unsigned int', 32, False),
    'l': ('long', 64, True),
    'sl': ('signed long', 64, True),   # explicitly signed above int rank: keeps type.signed == 2 through promotion
    'ul': ('unsigned long', 64, False),
    'll': ('long long', 64, True),
    'ull': ('unsigned long long', 64, False),
    'z': ('Py_ssize_t', 64, True),
    'sz': ('size_t', 64, False),
}


def bounds(t):
    _, bits, signed = CT[t]
    if signed:
        return -(1 << (bits - 1)), (1 << (bits - 1)) - 1
    return 0, (1 << bits) - 1


def fits(v, bits, signed):
    if signed:
        return -(1 << (bits - 1)) <= v <= (1 << (bits - 1)) - 1
    return 0 <= v <= (1 << bits) - 1


_bcache = {}


def boundary(t, level=1):
    """boundary values of C type t: 0, +-1..3, min/max and neighbours, +-2**k and neighbours."""
    key = (t, level)
    if key in _bcache:
        return _bcache[key]
    lo, hi = bounds(t)
    s = {0, 1, 2, 3, 5, 7, 10, -1, -2, -3, -5, -7, -10, lo, lo + 1, lo + 2, hi, hi - 1, hi - 2, lo // 2, hi // 2,
         hi // 2 + 1, lo // 2 - 1, lo // 3, hi // 3}
    ks = (4, 7, 8, 15, 16, 31, 32, 63) if level == 1 else tuple(range(2, 64))
    for k in ks:
        for d in (-1, 0, 1):
            s.add((1 << k) + d)
            s.add(-(1 << k) + d)
    if level > 1:
        s.update([6, 9, 11, 12, 13, 100, 1000, -100, -1000, 12345, -12345, 46341, -46341, 3037000500, -3037000500])
    out = sorted(v for v in s if lo <= v <= hi)
    _bcache[key] = out
    return out


def _rand_val(rng, t):
    lo, hi = bounds(t)
    _, bits, signed = CT[t]
    k = rng.random()
    if k < 0.12:
        v = rng.choice(boundary(t))
    elif k < 0.22:
        v = rng.randint(-16, 16)
    elif k < 0.30:
        v = rng.randint(lo, hi)
    else:
        nb = rng.randint(1, bits)
        v = rng.getrandbits(nb)
        if signed and rng.random() < 0.5:
            v = -v
    if v < lo or v > hi:
        v = max(lo, min(hi, v))
    return v


def plist(spec, nz=0, excl=()):
    """Deterministic operand-tuple list.
      ('exh', t1, t2, a)      -> (a, b) for every b of t2
      ('bnd', t1, t2, a, lvl) -> (a, b) for b in boundary(t2)
      ('rnd', t1, t2, seed, n)-> n random pairs (mixed magnitudes, small divisors, exact multiples)
      ('bnd1', t, lvl)        -> (a,) for a in boundary(t)
      ('exh1', t)             -> (a,) for every a of t (8/16-bit only)
      ('rnd1', t, seed, n)    -> n random 1-tuples
      ('shf', t1, t2, lvl)    -> (a, k) for boundary a of t1 and every shift count k in [-2, 72] that t2 can hold
      ('rndk', t, k, seed, n) -> n random k-tuples of t with magnitudes around 2**(bits/k') so that nested products
                                 sometimes fit and sometimes do not
    nz=1 drops pairs whose last element is 0; excl drops the listed tuples."""
    kind = spec[0]
    out = []
    if kind == 'exh':
        _, t1, t2, a = spec
        lo, hi = bounds(t2)
        out = [(a, b) for b in range(lo, hi + 1)]
    elif kind == 'bnd':
        _, t1, t2, a, lvl = spec
        out = [(a, b) for b in boundary(t2, lvl)]
    elif kind == 'rnd':
        _, t1, t2, seed, n = spec
        rng = random.Random('C03:%s:%s:%s' % (t1, t2, seed))
        lo1, hi1 = bounds(t1)
        for _i in range(n):
            b = _rand_val(rng, t2)
            k = rng.random()
            if k < 0.15 and b != 0:
                # exact multiple of the divisor (zero remainder with every sign combination)
                m = _rand_val(rng, t1)
                a = (m // b) * b if b else m
                if not (lo1 <= a <= hi1):
                    a = 0
            elif k < 0.25 and b != 0:
                # one off an exact multiple
                m = _rand_val(rng, t1)
                a = (m // b) * b + rng.choice((-1, 1))
                if not (lo1 <= a <= hi1):
                    a = m
            else:
                a = _rand_val(rng, t1)
            out.append((a, b))
    elif kind == 'bnd1':
        _, t, lvl = spec
        out = [(a,) for a in boundary(t, lvl)]
    elif kind == 'exh1':
        _, t = spec
        lo, hi = bounds(t)
        out = [(a,) for a in range(lo, hi + 1)]
    elif kind == 'rnd1':
        _, t, seed, n = spec
        rng = random.Random('C03:1:%s:%s' % (t, seed))
        out = [(_rand_val(rng, t),) for _i in range(n)]
    elif kind == 'shf':
        _, t1, t2, lvl = spec
        lo2, hi2 = bounds(t2)
        ks = [k for k in range(-2, 73) if lo2 <= k <= hi2]
        out = [(a, k) for a in boundary(t1, lvl) for k in ks]
    elif kind == 'rndk':
        _, t, k, seed, n = spec
        rng = random.Random('C03:k:%s:%s:%s' % (t, k, seed))
        lo, hi = bounds(t)
        _, bits, signed = CT[t]
        for _i in range(n):
            tup = []
            for _j in range(k):
                m = rng.random()
                if m < 0.25:
                    v = rng.randint(-9, 9)
                elif m < 0.55:
                    v = rng.getrandbits(rng.randint(1, bits // 2 + 1))
                    if rng.random() < 0.5:
                        v = -v
                elif m < 0.75:
                    v = rng.getrandbits(rng.randint(bits // 2, bits))
                    if rng.random() < 0.5:
                        v = -v
                elif m < 0.9:
                    v = rng.choice(boundary(t))
                else:
                    v = rng.choice((0, 1, -1, 2))
                if not signed:
                    v = abs(v)
                tup.append(max(lo, min(hi, v)))
            out.append(tuple(tup))
    else:
        raise ValueError(spec)
    if nz:
        out = [p for p in out if p[-1] != 0]
    if excl:
        ex = {tuple(e) for e in excl}
        out = [p for p in out if p not in ex]
    return out


def row(f, ps):
    """call f on every operand tuple; exceptions are recorded by type name"""
    out = []
    app = out.append
    for p in ps:
        try:
            app(f(*p))
        except Exception as e:
            app('!' + type(e).__name__)
    return out
