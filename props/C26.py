"""C26 Global and builtin lookups always see the current binding (DESIGN.md section 5, C26).

A compiled .py module with reader functions for module globals (bound at import / declared but unbound /
never declared), for builtin names the module itself also assigns (`min`, `sorted`) and for builtin names it
never assigns (`len`, `abs`) is driven through generated mutation histories of its namespace (setattr, __dict__
item assignment, delattr, dict.pop, dict.update, exec into the module dict, `global` writes from inside the module,
globals().update, unrelated-key version bumps, and - only in the cache_builtins=False build - mutation of the
builtins module, always restored).  Every read is compared with CPython executing the same source under the same
history.  Builds: default, -DCYTHON_USE_DICT_VERSIONS=1 (the per-call-site dict-version cache; off by default on
CPython >= 3.12), cache_builtins=False (+ dict versions); thorough adds explicit -DCYTHON_USE_DICT_VERSIONS=0.
"""
import re
import time
from concurrent.futures import ThreadPoolExecutor

from vlib import core, cy, diff

GLOBALS_BOUND = ['g0', 'g1']          # assigned at import
GLOBALS_DECLARED = ['g2']             # `global g2` writer exists, never bound at import
GLOBALS_UNKNOWN = ['g3', 'g4']        # only read: unknown name at compile time (error_on_unknown_names=False)
BUILTINS_ASSIGNED = ['min', 'sorted'] # builtin names the module also assigns through a `global` writer
BUILTINS_PLAIN = ['len', 'abs']       # builtin names the module never assigns
WRITABLE = GLOBALS_BOUND + GLOBALS_DECLARED + BUILTINS_ASSIGNED
ALLNAMES = GLOBALS_BOUND + GLOBALS_DECLARED + GLOBALS_UNKNOWN + BUILTINS_ASSIGNED + BUILTINS_PLAIN
CALLARG = {'min': '[3, 1, 2]', 'sorted': '[3, 1, 2]', 'len': '[3, 1, 2]', 'abs': '-3'}


def name_class(n):
    if n in GLOBALS_BOUND:
        return 'global-bound-at-import'
    if n in GLOBALS_DECLARED:
        return 'global-declared-unbound'
    if n in GLOBALS_UNKNOWN:
        return 'name-unknown-at-compile-time'
    if n in BUILTINS_ASSIGNED:
        return 'builtin-also-assigned-in-module'
    return 'builtin-never-assigned-in-module'


def module_source():
    out = ['# cython: language_level=3', "g0 = 'init0'", "g1 = 'init1'", '']
    for n in ALLNAMES:
        out.append('def rd_%s():\n    return %s\n' % (n, n))
        # the same call site is hit k times with a callback (mutating the namespace) between the hits
        out.append('def lp_%s(k, cb):\n    out = []\n    for i in range(k):\n        try:\n            out.append(%s)\n'
                   '        except NameError:\n            out.append("<NameError>")\n        cb(i)\n    return out\n' % (n, n))
        out.append('def ne_%s():\n    def inner():\n        return %s\n    return inner()\n' % (n, n))
        out.append('def cl_%s():\n    class K:\n        v = %s\n    return K.v\n' % (n, n))
        out.append('def cn_%s():\n    class K:\n        %s = %s\n    return K.%s\n' % (n, n, n, n))
        out.append('def ge_%s():\n    return [%s for _ in range(2)][1], (lambda: %s)()\n' % (n, n, n))
    for n in BUILTINS_ASSIGNED + BUILTINS_PLAIN:
        out.append('def ca_%s(x):\n    return %s(x)\n' % (n, n))
    for n in WRITABLE:
        out.append('def wr_%s(v):\n    global %s\n    %s = v\n' % (n, n, n))
        out.append('def dl_%s():\n    global %s\n    del %s\n' % (n, n, n))
    out.append('def upd(d):\n    globals().update(d)\n')
    out.append('def gl():\n    return globals()\n')
    return '\n'.join(out)


SETUP = r'''
import builtins as _b

class Sh:
    """shadow value for a builtin name"""
    def __init__(self, t): self.t = t
    def __call__(self, *a): return ('Sh', self.t, a.__len__())
    def __vsig__(self): return ('Sh', self.t)

_ALL = %(all)r
_ORIG = {n: getattr(_b, n) for n in %(bnames)r}

def _restore_builtins():
    for n, v in _ORIG.items():
        setattr(_b, n, v)
    for n in _ALL:
        if n not in _ORIG and hasattr(_b, n):
            delattr(_b, n)

def _reset(M):
    d = M.__dict__
    d['g0'] = 'init0'
    d['g1'] = 'init1'
    for n in _ALL:
        if n not in ('g0', 'g1'):
            d.pop(n, None)
    for k in [k for k in d if k.startswith('zz')]:
        del d[k]
    _restore_builtins()

def _obs(f, *a):
    try:
        return f(*a)
    except Exception as e:
        return '<%%s>' %% type(e).__name__

def _step(M, st):
    op = st[0]
    d = M.__dict__
    if op == 'set':
        how, n, v = st[1], st[2], st[3]
        if how == 'setattr': return _obs(setattr, M, n, v)
        if how == 'dict': return _obs(d.__setitem__, n, v)
        if how == 'update': return _obs(d.update, {n: v})
        if how == 'exec': return _obs(_exec_set, d, n, v)
        if how == 'inmod': return _obs(getattr(M, 'wr_' + n), v)
        if how == 'gupd': return _obs(M.upd, {n: v})
        if how == 'gl': return _obs(M.gl().__setitem__, n, v)
    if op == 'del':
        how, n = st[1], st[2]
        if how == 'delattr': return _obs(delattr, M, n)
        if how == 'dict': return _obs(d.__delitem__, n)
        if how == 'pop': return _obs(d.pop, n, '<absent>')
        if how == 'inmod': return _obs(getattr(M, 'dl_' + n))
    if op == 'bump':
        k = 'zz%%d' %% st[1]
        if k in d:
            del d[k]
        else:
            d[k] = st[1]
        return None
    if op == 'bset':
        return _obs(setattr, _b, st[1], st[2])
    if op == 'bdel':
        return _obs(delattr, _b, st[1])
    if op == 'read':
        kind, n = st[1], st[2]
        if kind == 'lp':
            subs = st[4]
            def cb(i):
                for sub in subs[i:i + 1]:
                    for s in sub:
                        _step(M, s)
            return _obs(getattr(M, 'lp_' + n), st[3], cb)
        if kind == 'ca':
            return _obs(getattr(M, 'ca_' + n), st[3])
        return _obs(getattr(M, kind + '_' + n))
    raise AssertionError(st)

def _exec_set(d, n, v):
    d['_tmpv'] = v
    try:
        exec('%%s = _tmpv' %% n, d)
    finally:
        d.pop('_tmpv', None)

def hist(M, steps):
    _reset(M)
    try:
        return [_step(M, st) for st in steps]
    finally:
        _reset(M)
'''


def val(rng, n, i):
    if n in BUILTINS_ASSIGNED + BUILTINS_PLAIN:
        return "Sh('%s@%d')" % (n, i)
    return "'v%d'" % i


def gen_mutation(rng, i, allow_builtins_module, names=None):
    names = names or ALLNAMES
    n = rng.choice(names)
    r = rng.random()
    if allow_builtins_module and r < 0.22:
        bn = rng.choice(GLOBALS_UNKNOWN + GLOBALS_DECLARED + BUILTINS_ASSIGNED + BUILTINS_PLAIN)
        if rng.random() < 0.65:
            return "('bset', %r, %s)" % (bn, val(rng, bn, i))
        return "('bdel', %r)" % bn
    if r < 0.12:
        return "('bump', %d)" % rng.randint(0, 3)
    if r < 0.70:
        hows = ['setattr', 'dict', 'update', 'exec', 'gupd', 'gl'] + (['inmod', 'inmod'] if n in WRITABLE else [])
        return "('set', %r, %r, %s)" % (rng.choice(hows), n, val(rng, n, i))
    hows = ['delattr', 'dict', 'pop'] + (['inmod', 'inmod'] if n in WRITABLE else [])
    return "('del', %r, %r)" % (rng.choice(hows), n)


def gen_read(rng, i, allow_builtins_module, focus=None):
    n = focus if focus and rng.random() < 0.7 else rng.choice(ALLNAMES)
    r = rng.random()
    if n in CALLARG and r < 0.25:
        return "('read', 'ca', %r, %s)" % (n, CALLARG[n])
    if r < 0.45:
        k = rng.randint(2, 4)
        subs = []
        for j in range(k):
            subs.append('[%s]' % ', '.join(gen_mutation(rng, i * 10 + j, allow_builtins_module, names=[n, n, rng.choice(ALLNAMES)])
                                           for _ in range(rng.choice([0, 1, 1, 2]))))
        return "('read', 'lp', %r, %d, [%s])" % (n, k, ', '.join(subs))
    kind = rng.choice(['rd', 'rd', 'ne', 'cl', 'cn', 'ge'])
    return "('read', %r, %r)" % (kind, n)


def gen_history(rng, maxlen, allow_builtins_module):
    steps = []
    focus = rng.choice(ALLNAMES)
    ln = rng.randint(3, maxlen)
    for i in range(ln):
        if rng.random() < 0.5:
            steps.append(gen_read(rng, i, allow_builtins_module, focus))
        else:
            steps.append(gen_mutation(rng, i, allow_builtins_module, names=[focus, focus, rng.choice(ALLNAMES)]))
    return '[%s]' % ', '.join(steps)


def reach_stats(histories):
    """fraction of reads that hit an already used call site after an intervening mutation (within the history)"""
    reads = repeats = 0
    for h in histories:
        steps = eval(h, {'Sh': lambda t: t})
        seen = {}
        nmut = 0
        for st in steps:
            if st[0] == 'read':
                site = (st[1], st[2])
                reads += 1
                if st[1] == 'lp':
                    # k hits of one site with callbacks in between
                    inner = sum(1 for j in range(1, st[3]) if j - 1 < len(st[4]) and st[4][j - 1])
                    reads += st[3] - 1
                    repeats += inner
                    nmut += sum(len(s) for s in st[4])
                if site in seen and seen[site] < nmut:
                    repeats += 1
                seen[site] = nmut
            else:
                nmut += 1
    return reads, repeats


def describe_step(st):
    if st[0] == 'read':
        return 'read:' + {'rd': 'plain', 'lp': 'loop-same-site', 'ne': 'nested-function', 'cl': 'class-body', 'cn': 'class-body-same-name',
                          'ge': 'comprehension+lambda', 'ca': 'call'}[st[1]]
    if st[0] in ('set', 'del'):
        return '%s:%s' % (st[0], st[1])
    return st[0]


def classify(cfg, history, exp, got):
    """mechanism key: class of the name read at the first diverging step, how it was read, which kind of mutation
    last touched that name (module namespace / builtins module), and the kind of divergence"""
    steps = eval(history, {'Sh': lambda t: ('Sh', t)})
    if exp[0] != 'ok' or got[0] != 'ok':
        return 'history-level:%s->%s' % (exp[0] + ':' + str(exp[1])[:30], got[0] + ':' + str(got[1])[:30])
    el, gl = exp[1][1], got[1][1]
    idx = next((i for i in range(min(len(el), len(gl))) if el[i] != gl[i]), None)
    if idx is None:
        return 'length-differs'
    st = steps[idx]
    if st[0] != 'read':
        return 'mutation-step-outcome:%s:%s:%s->%s' % (describe_step(st), name_class(st[2]) if len(st) > 2 else '-',
                                                     el[idx][1].strip("'"), gl[idx][1].strip("'"))
    n = st[2]
    # last mutation of this name before (or inside, for loops) the step
    last = 'none'
    scan = []
    for s in steps[:idx + 1]:
        if s[0] == 'read' and s[1] == 'lp':
            for sub in s[4]:
                scan.extend(sub)
        elif s[0] != 'read':
            scan.append(s)
    for s in scan:
        if s[0] in ('set', 'del') and s[2] == n:
            last = 'module-namespace'
        elif s[0] in ('bset', 'bdel') and s[1] == n:
            last = 'builtins-module'
    if name_class(n) == 'builtin-never-assigned-in-module':
        # one mechanism whatever the read form: the name is bound to the builtin when the module is compiled
        return 'builtin-never-assigned-in-module:bound-at-compile-time:cache_builtins=%s:last-change=%s' % (
            cfg['cache_builtins'], last)
    e, g = el[idx], gl[idx]
    es, gs = repr(e), repr(g)

    def kind(s):
        if 'NameError' in s:
            return 'NameError'
        if "'Sh'" in s:
            return 'shadow'
        if 'callable' in s or "'int'" in s or "'list'" in s:
            return 'builtin'
        return 'value'
    if st[1] == 'lp':
        ek = gk = 'sequence'
    else:
        ek, gk = kind(es), kind(gs)
    return '%s:%s:%s:last-change=%s:%s->%s' % (name_class(n), describe_step(st), 'cache_builtins=' + str(cfg['cache_builtins']),
                                               last, ek, gk)


def main(ck):
    tree = cy.Tree('C26')
    src = module_source()
    configs = [
        {'name': 'default', 'cflags': [], 'cache_builtins': True},
        {'name': 'dictversions', 'cflags': ['-DCYTHON_USE_DICT_VERSIONS=1'], 'cache_builtins': True},
        {'name': 'nocache_dictversions', 'cflags': ['-DCYTHON_USE_DICT_VERSIONS=1'], 'cache_builtins': False},
    ]
    if not ck.quick:
        configs.append({'name': 'noversions', 'cflags': ['-DCYTHON_USE_DICT_VERSIONS=0'], 'cache_builtins': True})
        configs.append({'name': 'nocache_noversions', 'cflags': ['-DCYTHON_USE_DICT_VERSIONS=0'], 'cache_builtins': False})
    nhist = ck.pick(700, 12000)
    maxlen = ck.pick(10, 30)
    setup = SETUP % {'all': ALLNAMES, 'bnames': BUILTINS_ASSIGNED + BUILTINS_PLAIN}

    def build(cfg):
        d, info = tree.build_sources({'c26m': src}, subdir='b_' + cfg['name'], ext='.py', cflags=cfg['cflags'],
                                     job_extra={'global_options': {'error_on_unknown_names': False,
                                                                   'cache_builtins': cfg['cache_builtins']}})
        return d, info['c26m']

    t0 = time.time()
    with ThreadPoolExecutor(len(configs)) as ex:
        built = list(ex.map(build, configs))
    ck.cov['build_s'] = round(time.time() - t0, 1)
    total_n = total_distinct = 0
    samples = []
    reach = {}
    static = {}
    skipped = 0
    jobs = []
    for cfg, (d, inf) in zip(configs, built):
        if not inf['ok']:
            skipped += 1
            ck.note('build failure %s at %s: %s' % (cfg['name'], inf['stage'], inf['errors'][-600:]))
            continue
        ctext = open(inf['c'], encoding='utf-8', errors='replace').read()
        nsites = len(re.findall(r'__Pyx_GetModuleGlobalName\(', ctext))
        # is the dict-version cache compiled in for this configuration?
        r = core.run(['gcc', '-E', '-dM', '-I' + cy.PY_INC] + cfg['cflags'] + [inf['c']], timeout=300, as_gb=0)
        m = re.search(r'#define CYTHON_USE_DICT_VERSIONS (.*)', r.out or '')
        static[cfg['name']] = {'GetModuleGlobalName_sites': nsites, 'CYTHON_USE_DICT_VERSIONS': m.group(1).strip() if m else '?',
                               'cached_builtin_lookups': len(re.findall(r'__pyx_builtin_\w+ = __Pyx_GetBuiltinName', ctext))}
        rng = ck.rng('hist:' + cfg['name'])
        hs = [gen_history(rng, maxlen, not cfg['cache_builtins']) for _ in range(nhist)]
        reads, repeats = reach_stats(hs)
        reach[cfg['name']] = {'histories': len(hs), 'reads': reads, 'reads_repeating_a_site_after_mutation': repeats,
                              'fraction': round(repeats / max(1, reads), 3)}
        cases = [{'x': 'hist(M, %s)' % h, 't': cfg['name']} for h in hs]
        jobs.append((cfg, d, inf, cases))

    def run_one(job):
        cfg, d, inf, cases = job
        return diff.run_cases(tree, d, 'c26m', cases, ref=inf['src'], compare={'exc_args': False, 'log': False},
                              setup=setup, tagdir='run_' + cfg['name'], timeout=900, nproc=ck.pick(3, 6))

    t0 = time.time()
    with ThreadPoolExecutor(len(jobs) or 1) as ex:
        results = list(ex.map(run_one, jobs))
    ck.cov['run_s'] = round(time.time() - t0, 1)
    outcome = {}
    for (cfg, d, inf, cases), res in zip(jobs, results):
        total_n += res.n
        total_distinct += res.distinct
        samples.extend(res.samples[:2])
        outcome[cfg['name']] = {'histories_run': res.n, 'mismatching': res.nmismatch}
        for m in res.mismatches:
            h = m['case']['x'][len('hist(M, '):-1]
            key = classify(cfg, h, m['exp'], m['got'])
            ck.discrepancy(key, 'config %s: history %s: CPython %s, compiled %s' % (cfg['name'], h[:300], str(m['exp'])[:300],
                                                                                  str(m['got'])[:300]),
                           {'module_source': src, 'ext': '.py', 'case': m['case'], 'setup': setup, 'cflags': cfg['cflags'],
                            'job_extra': {'global_options': {'error_on_unknown_names': False, 'cache_builtins': cfg['cache_builtins']}},
                            'config': cfg['name'], 'expected': m['exp'], 'observed': m['got']})
        for c in res.crashes:
            ck.discrepancy('crash:%s' % cfg['name'], 'crash/hang %s on %s' % (c['kind'], c['case']['x'][:300]),
                           {'module_source': src, 'ext': '.py', 'case': c['case'], 'setup': setup, 'cflags': cfg['cflags'],
                            'config': cfg['name'], 'stderr': c['stderr']})
        for ft in res.fatal:
            ck.inconclusive_if(True, 'driver failed for %s: %s' % (cfg['name'], str(ft)[-400:]))
    ck.inconclusive_if(skipped > 0, '%d configuration(s) failed to build' % skipped)
    for name, st in static.items():
        ck.inconclusive_if(st['GetModuleGlobalName_sites'] < 20, 'too few __Pyx_GetModuleGlobalName call sites in ' + name)
    dv = static.get('dictversions', {}).get('CYTHON_USE_DICT_VERSIONS')
    ck.inconclusive_if(dv != '1', 'dict-version cache not compiled in for the dictversions build (%r)' % dv)
    for name, r in reach.items():
        ck.inconclusive_if(r['fraction'] < 0.30, 'fewer than 30%% of reads repeat a call site after a mutation in %s' % name)
    return ck.finish(
        total_n, total_distinct,
        'one case = one generated history (3..%d steps) of namespace mutations and reads applied to the compiled module and '
        'to the same source executed by CPython (fresh module namespace, same process); every step observation (value read, '
        'NameError, outcome of the mutation) is compared. distinct = distinct (history, CPython observation list)' % maxlen,
        samples,
        extra={'configs': [c['name'] for c in configs], 'static_reach': static, 'reach': reach, 'per_config': outcome,
               'names': {n: name_class(n) for n in ALLNAMES}},
        assumptions=['CPython 3.12.1 executing the identical source is the reference',
                     'builtins-module mutations only in the cache_builtins=False builds (documented limitation of the default), '
                     'always restored before the next observation',
                     'CYTHON_USE_DICT_VERSIONS=1 is forced by -D on CPython 3.12 (off by default there) to exercise the cache'])


def replay(ck, data):
    w = data.get('witness', data)
    tree = cy.Tree('replay')
    d, info = tree.build_sources({'c26m': w['module_source']}, subdir='r', ext='.py', cflags=w.get('cflags') or [],
                                 job_extra=w.get('job_extra'))
    inf = info['c26m']
    if not inf['ok']:
        print('build failed at', inf['stage'], inf['errors'][-2000:])
        return 2
    res = diff.run_cases(tree, d, 'c26m', [w['case']], ref=inf['src'], compare={'exc_args': False, 'log': False},
                         setup=w['setup'], nproc=1)
    for m in res.mismatches:
        print('expected', m['exp'])
        print('observed', m['got'])
    for c in res.crashes:
        print('crash', c['kind'], c['stderr'][-1500:])
    if res.mismatches or res.crashes:
        print('VIOLATION property=%s replay=<replayed>' % ck.pid)
        return 1
    print('replay: case now agrees with the reference (%d evaluated, fatal=%s)' % (res.n, res.fatal))
    return 0 if res.n else 2
