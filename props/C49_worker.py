"""C49 direct part: drive the real Cython.StringIOTree.StringIOTree (interpreted, from the mirror) with
operation histories and compare every observable with the list-of-holes model.

python -m props.C49_worker <spec.json> <out.json>

History ops (handles: 0..NROOTS-1 are the initial buffers, further handles are created by 'ip' in order):
  ['W', h]      write a unique one-line fragment "<k>\\n" with one marker, exactly as CCodeWriter.write does
                (markers.extend([m] * s.count('\\n')) followed by tree.write(s))
  ['w', h]      write a unique fragment without newline (no marker)
  ['M', h]      write a unique two-line fragment (two equal markers)
  ['n', h]      write a bare newline (one marker)
  ['e', h]      write the empty string
  ['ip', h]     new handle = h.insertion_point()
  ['ins', h, o] h.insert(o)
  ['c', h]      h.commit()
  ['r', h]      h.reset()
  ['o', h]      observe h (getvalue, copyto, allmarkers, empty) and compare with the model
  ['new']       new handle = a fresh, unplaced buffer (random histories only; what CCodeWriter.new_writer does)
"""
import io
import json
import random
import sys

from vlib.ref.holes import Hole, diagnose

NROOTS = 3
WRITE_KINDS = ('W', 'w', 'M', 'n', 'e')


def frag_for(kind, k):
    if kind == 'W':
        return '<%d>\n' % k, 1
    if kind == 'w':
        return '<%d>' % k, 0
    if kind == 'M':
        return '<%da>\n<%db>\n' % (k, k), 2
    if kind == 'n':
        return '\n', 1
    return '', 0


class Discrepancy(Exception):
    def __init__(self, key, detail):
        Exception.__init__(self, key)
        self.key = key
        self.detail = detail


def observe(real, model, h, step):
    """compare all observables of handle h; raise Discrepancy on the first difference"""
    frs = list(model.frags())
    exp_val = ''.join([f[0] for f in frs])
    got_val = real.getvalue()
    if got_val != exp_val:
        raise Discrepancy('getvalue:' + diagnose([f[0] for f in frs], got_val),
                          {'handle': h, 'step': step, 'expected': exp_val, 'observed': got_val})
    buf = io.StringIO()
    real.copyto(buf)
    if buf.getvalue() != exp_val:
        raise Discrepancy('copyto:' + diagnose([f[0] for f in frs], buf.getvalue()),
                          {'handle': h, 'step': step, 'expected': exp_val, 'observed': buf.getvalue()})
    exp_m = []
    for f in frs:
        exp_m.extend(f[1])
    got_m = list(real.allmarkers())
    if got_m != exp_m:
        if len(got_m) != len(exp_m):
            how = 'count'
        elif sorted(got_m) == sorted(exp_m):
            how = 'reordered'
        else:
            how = 'wrong-marker'
        raise Discrepancy('allmarkers:' + how, {'handle': h, 'step': step, 'expected': exp_m, 'observed': got_m})
    if len(got_m) != got_val.count('\n'):
        raise Discrepancy('allmarkers:not-one-per-line', {'handle': h, 'step': step, 'observed': got_m,
                                                          'value': got_val})
    exp_e = (exp_val == '')
    got_e = real.empty()
    if bool(got_e) != exp_e or not isinstance(got_e, bool):
        raise Discrepancy('empty:' + ('true-on-nonempty' if got_e else 'false-on-empty'),
                          {'handle': h, 'step': step, 'expected': exp_e, 'observed': repr(got_e), 'value': exp_val})


def run_history(cls, hist, observe_every=False, stats=None):
    """Execute hist on fresh real trees and models. Returns (models, nobs). Raises Discrepancy."""
    reals = [cls() for _ in range(NROOTS)]
    models = [Hole() for _ in range(NROOTS)]
    nobs = 0
    step = -1
    try:
        for step, op in enumerate(hist):
            k = op[0]
            if k == 'new':
                reals.append(cls())
                models.append(Hole())
                continue
            h = op[1]
            r = reals[h]
            m = models[h]
            if k in WRITE_KINDS:
                text, nl = frag_for(k, step)
                marker = ('src', step)
                # exactly what CCodeWriter.write/_write_lines do
                if '\n' in text:
                    r.markers.extend([marker] * text.count('\n'))
                r.write(text)
                m.write(text, [marker] * nl)
            elif k == 'ip':
                reals.append(r.insertion_point())
                models.append(m.insertion_point())
            elif k == 'ins':
                r.insert(reals[op[2]])
                m.insert(models[op[2]])
            elif k == 'c':
                r.commit()
            elif k == 'r':
                r.reset()
                m.reset()
            elif k == 'o':
                observe(r, m, h, step)
                nobs += 1
            else:
                raise ValueError(op)
            if observe_every == 'all':
                for i in range(len(reals)):
                    observe(reals[i], models[i], i, step)
                    nobs += 1
            elif observe_every:
                # the buffers this step touched, and the roots they are placed under
                seen = set()
                for i in op[1:]:
                    b = models[i]
                    while b is not None and b.uid not in seen:
                        seen.add(b.uid)
                        j = i if b is models[i] else next(x for x in range(len(models)) if models[x] is b)
                        observe(reals[j], models[j], j, step)
                        nobs += 1
                        b = b.parent
        for i in range(len(reals)):
            observe(reals[i], models[i], i, 'end')
            nobs += 1
    except Discrepancy:
        raise
    except RecursionError as e:
        raise Discrepancy('exception:RecursionError', {'step': step, 'error': repr(e)[:200]})
    except Exception as e:   # the real class raised where the model has defined behaviour
        raise Discrepancy('exception:%s:%s' % (hist[step][0] if 0 <= step < len(hist) else '?', type(e).__name__),
                          {'step': step, 'error': repr(e)[:300]})
    return models, nobs


def nontrivial(models):
    """a hole exists, >= 2 non-empty fragments, and the output order differs from the order of writing
    (fragments carry their step number) -- i.e. an insertion point changed where text ended up"""
    best = False
    for m in models:
        if m.parent is not None:
            continue
        seq = []
        for f in m.frags():
            t = f[0]
            if t.startswith('<'):
                seq.append(int(t[1:t.index('>')].rstrip('ab')))
        if len(seq) >= 2 and seq != sorted(seq) and m.nholes():
            best = True
    return best


def avail_handles(nt, nh):
    """handles an operand may name under the symmetry reduction: touched roots, created handles and the
    first untouched root (untouched roots are interchangeable)"""
    hs = list(range(nt)) + list(range(NROOTS, nh))
    if nt < NROOTS:
        hs.append(nt)
    return hs


def next_ops(models, nt):
    """all mutating ops valid in this state (model state decides validity of insert) -> [(op, nt')]"""
    nh = len(models)
    out = []
    for h in avail_handles(nt, nh):
        nt1 = nt + 1 if h == nt and h < NROOTS else nt
        for k in ('W', 'w', 'ip', 'c', 'r'):
            out.append(([k, h], nt1))
        for o in avail_handles(nt1, nh):
            if o == h:
                continue
            mo = models[o]
            if mo.parent is not None or mo.contains(models[h]):
                continue
            nt2 = nt1 + 1 if o == nt1 and o < NROOTS else nt1
            out.append((['ins', h, o], nt2))
    return out


def model_only(hist):
    models = [Hole() for _ in range(NROOTS)]
    for step, op in enumerate(hist):
        if op[0] == 'new':
            models.append(Hole())
            continue
        k, h = op[0], op[1]
        m = models[h]
        if k in WRITE_KINDS:
            text, nl = frag_for(k, step)
            m.write(text, [('src', step)] * nl)
        elif k == 'ip':
            models.append(m.insertion_point())
        elif k == 'ins':
            m.insert(models[op[2]])
        elif k == 'r':
            m.reset()
    return models


def touched_roots(hist):
    nt = 0
    for op in hist:
        for h in op[1:]:
            if h < NROOTS and h >= nt:
                nt = h + 1
    return nt


# ------------------------------------------------------------------ CCodeWriter level (Code.py: write/_write_lines/
# insertion_point/new_writer/insert): the marker of every output line must be last_marked_pos[:2] of the writer at the
# time of the write, (None, 0) when nothing was marked yet
class _FakeGlobalState:
    code_config = None


def ccw_generate(rng, maxlen):
    """op list for a CCodeWriter-level history (model only decides which inserts are valid)"""
    models = [Hole()]
    hist = []
    for step in range(rng.randint(5, maxlen)):
        h = rng.randrange(len(models)) if rng.random() < 0.6 else len(models) - 1
        r = rng.random()
        if r < 0.45:
            hist.append(['W', h, rng.choice(WRITE_KINDS)])
        elif r < 0.62:
            hist.append(['pos', h, step])
        elif r < 0.82:
            models.append(models[h].insertion_point())
            hist.append(['ip', h])
        elif r < 0.90:
            models.append(Hole())
            hist.append(['nw', h])
        else:
            cands = [o for o in range(len(models)) if o != h and models[o].parent is None and not models[o].contains(models[h])]
            if cands:
                o = rng.choice(cands)
                models[h].insert(models[o])
                hist.append(['ins', h, o])
    return hist


def ccw_run(Code, hist, acc):
    root = Code.CCodeWriter()
    root.set_global_state(_FakeGlobalState())
    reals = [root]
    models = [Hole()]
    lmp = [None]
    try:
        for step, op in enumerate(hist):
            k, h = op[0], op[1]
            if k == 'W':
                text, nl = frag_for(op[2], step)
                reals[h].write(text)
                m = lmp[h][:2] if lmp[h] else (None, 0)
                models[h].write(text, [m] * nl)
            elif k == 'pos':
                pos = ('src%d' % (op[2] % 3), op[2], op[2] % 7)
                reals[h].last_marked_pos = pos
                lmp[h] = pos
            elif k == 'ip':
                reals.append(reals[h].insertion_point())
                models.append(models[h].insertion_point())
                lmp.append(lmp[h])
            elif k == 'nw':
                reals.append(reals[h].new_writer())
                models.append(Hole())
                lmp.append(lmp[h])
            elif k == 'ins':
                reals[h].insert(reals[op[2]])
                models[h].insert(models[op[2]])
            else:
                raise ValueError(op)
        for i in range(len(reals)):
            exp = models[i].value()
            got = reals[i].getvalue()
            if got != exp:
                raise Discrepancy('ccodewriter:getvalue:' + diagnose([f[0] for f in models[i].frags()], got),
                                  {'handle': i, 'expected': exp, 'observed': got})
            buf = io.StringIO()
            reals[i].copyto(buf)
            if buf.getvalue() != exp:
                raise Discrepancy('ccodewriter:copyto:' + diagnose([f[0] for f in models[i].frags()], buf.getvalue()),
                                  {'handle': i, 'expected': exp, 'observed': buf.getvalue()})
            em = [list(x) for x in models[i].markers()]
            gm = [list(x) for x in reals[i].buffer.allmarkers()]
            if gm != em:
                how = 'count' if len(gm) != len(em) else 'wrong-marker'
                raise Discrepancy('ccodewriter:allmarkers:' + how, {'handle': i, 'expected': em, 'observed': gm})
            acc.observations += 3
    except Discrepancy as d:
        acc.record_disc(d, hist, 'ccodewriter')
    except Exception as e:
        acc.record_disc(Discrepancy('ccodewriter:exception:' + type(e).__name__, {'error': repr(e)[:300]}), hist, 'ccodewriter')
    acc.evaluations += 1
    acc.ccw += 1
    if any(m.nholes() for m in models if m.parent is None):
        acc.ccw_nontrivial += 1


def ccw_history(Code, rng, maxlen, acc):
    ccw_run(Code, ccw_generate(rng, maxlen), acc)


class Acc:
    def __init__(self):
        self.evaluations = 0
        self.histories = 0
        self.nontrivial = 0
        self.observations = 0
        self.opcount = {}
        self.maxdepth = 0
        self.maxhandles = 0
        self.by_len = {}
        self.disc = {}       # key -> {count, history, detail}
        self.samples = []
        self.leaves = 0
        self.ccw = 0
        self.ccw_nontrivial = 0
        self.b_every = 1
        self.b_runs = 0

    def record_disc(self, d, hist, mode):
        e = self.disc.get(d.key)
        if e is None:
            self.disc[d.key] = {'count': 1, 'history': [list(o) for o in hist], 'detail': d.detail, 'mode': mode}
        else:
            e['count'] += 1
            if len(hist) < len(e['history']):
                e['history'] = [list(o) for o in hist]
                e['detail'] = d.detail
                e['mode'] = mode

    def judge(self, cls, hist, leaf):
        """mode A (observe at the end) always; mode B (observe every handle after every op) on leaves"""
        self.histories += 1
        self.by_len[len(hist)] = self.by_len.get(len(hist), 0) + 1
        models = None
        try:
            models, nobs = run_history(cls, hist, False)
            self.observations += nobs
        except Discrepancy as d:
            self.record_disc(d, hist, 'end')
        self.evaluations += 1
        if leaf:
            self.leaves += 1
            # every b_every-th maximal history: observe the touched buffers and their ancestors after every step;
            # every 16th of those: observe all handles after every step
            if self.leaves % self.b_every == 0:
                self.b_runs += 1
                mode = 'all' if self.b_runs % 16 == 0 else 'touched'
                try:
                    models, nobs = run_history(cls, hist, mode)
                    self.observations += nobs
                except Discrepancy as d:
                    self.record_disc(d, hist, 'every-step-' + mode)
                self.evaluations += 1
        if models is None:
            models = model_only(hist)
        for op in hist:
            self.opcount[op[0]] = self.opcount.get(op[0], 0) + 1
        if nontrivial(models):
            self.nontrivial += 1
            if len(self.samples) < 3 and len(hist) >= 4:
                self.samples.append({'history': [list(o) for o in hist],
                                     'model_output': [m.value() for m in models[:NROOTS]]})
        dd = max(m.depth() for m in models if m.parent is None)
        if dd > self.maxdepth:
            self.maxdepth = dd
        if len(models) > self.maxhandles:
            self.maxhandles = len(models)
        return models


def exhaustive(cls, acc, prefix, maxlen):
    """DFS below prefix (prefix itself included)"""
    stack = [list(prefix)]
    while stack:
        hist = stack.pop()
        leaf = len(hist) >= maxlen
        models = acc.judge(cls, hist, leaf)
        if leaf:
            continue
        nt = touched_roots(hist)
        for op, _ in next_ops(models, nt):
            stack.append(hist + [op])


def random_history(rng, maxlen):
    n = rng.randint(8, maxlen)
    models = [Hole() for _ in range(NROOTS)]
    hist = []
    style = rng.choice(['mixed', 'deep', 'wide', 'resetty', 'inserty'])
    w = {'W': 6, 'w': 3, 'M': 2, 'n': 1, 'e': 1, 'ip': 4, 'ins': 2, 'c': 2, 'r': 0.3, 'o': 2, 'new': 1}
    if style == 'deep':
        w['ip'] = 9
    elif style == 'resetty':
        w['r'] = 2
    elif style == 'inserty':
        w['ins'] = 6
        w['new'] = 4
    kinds = list(w)
    weights = [w[k] for k in kinds]
    last = 0
    for step in range(n):
        k = rng.choices(kinds, weights)[0]
        if k == 'new':
            models.append(Hole())
            hist.append(['new'])
            continue
        nh = len(models)
        if style == 'deep' and rng.random() < 0.6:
            h = last
        elif rng.random() < 0.35:
            h = rng.randrange(max(0, nh - 4), nh)
        else:
            h = rng.randrange(nh)
        if k == 'ins':
            cands = [o for o in range(nh) if o != h and models[o].parent is None and not models[o].contains(models[h])]
            if not cands:
                k = 'W'
            else:
                o = rng.choice(cands)
                hist.append(['ins', h, o])
                models[h].insert(models[o])
                continue
        if k in WRITE_KINDS:
            text, nl = frag_for(k, step)
            models[h].write(text, [('src', step)] * nl)
        elif k == 'ip':
            models.append(models[h].insertion_point())
            last = len(models) - 1
        elif k == 'r':
            models[h].reset()
        hist.append([k, h])
    return hist


def main():
    spec = json.load(open(sys.argv[1]))
    import Cython.StringIOTree as S
    import os
    mroot = os.path.realpath(spec['mirror'])
    f = S.__file__
    mirror_ok = f.endswith('.py') and os.path.realpath(f).startswith(mroot + os.sep)
    out = {'mirror_ok': mirror_ok, 'module_file': f}
    if not mirror_ok:
        json.dump(out, open(sys.argv[2], 'w'))
        return 3
    cls = S.StringIOTree
    acc = Acc()
    acc.b_every = int(spec.get('b_every', 1))
    if spec['mode'] == 'exhaustive':
        for hist in spec.get('shallow', ()):
            acc.judge(cls, hist, False)
        for prefix in spec.get('prefixes', ()):
            exhaustive(cls, acc, prefix, spec['maxlen'])
    elif spec['mode'] == 'random':
        rng = random.Random(spec['seed'])
        for i in range(spec['count']):
            hist = random_history(rng, spec['maxlen'])
            acc.judge(cls, hist, True)
        if spec.get('ccw_count'):
            import Cython.Compiler.Code as Code
            cf = Code.__file__
            if not (cf.endswith('.py') and os.path.realpath(cf).startswith(mroot + os.sep)) or Code.StringIOTree is not cls:
                out['mirror_ok'] = False
                out['module_file'] = cf
                json.dump(out, open(sys.argv[2], 'w'))
                return 3
            for i in range(spec['ccw_count']):
                ccw_history(Code, rng, 120, acc)
    elif spec['mode'] == 'replay' and spec.get('witness_mode') == 'ccodewriter':
        import Cython.Compiler.Code as Code
        ccw_run(Code, spec['history'], acc)
    elif spec['mode'] == 'replay':
        acc.judge(cls, spec['history'], False)
        for mode in ('touched', 'all'):
            try:
                run_history(cls, spec['history'], mode)
            except Discrepancy as d:
                acc.record_disc(d, spec['history'], 'every-step-' + mode)
    out.update({'ccw_histories': acc.ccw, 'ccw_nontrivial': acc.ccw_nontrivial, 'every_step_runs': acc.b_runs, 'evaluations': acc.evaluations, 'histories': acc.histories, 'nontrivial': acc.nontrivial,
                'observations': acc.observations, 'opcount': acc.opcount, 'maxdepth': acc.maxdepth,
                'maxhandles': acc.maxhandles, 'by_len': acc.by_len, 'disc': acc.disc, 'samples': acc.samples})
    with open(sys.argv[2], 'w') as fo:
        json.dump(out, fo)
    return 0


if __name__ == '__main__':
    sys.exit(main())
