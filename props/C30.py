"""C30 cdef dataclasses behave like standard dataclasses (DESIGN.md section 5, C30).

One generated template per class is rendered twice: `@cython.dataclasses.dataclass(...) cdef class` in a .pyx module and
`@dataclasses.dataclass(...) class` as the reference (cython.dataclasses.field -> dataclasses.field, cython.int -> int,
cython.double -> float, InitVar likewise).  Generated: <= 5 fields (object / int / str / list annotations, C int / C double),
defaults, field(default=, default_factory=, init=False, repr=False, compare=False, hash=), InitVar + __post_init__,
decorator options init repr eq order unsafe_hash frozen kw_only match_args, single inheritance between dataclasses.
Operations: construction with generated positional/keyword arguments (incl. wrong counts), repr, ==, !=, ordering, hash,
attribute set/delete (frozen), dataclasses.fields/asdict/astuple/replace/is_dataclass, __match_args__, match statements.
Values for C-typed and annotated-builtin fields are drawn inside the type (DESIGN FA).
"""
import re
import time
from concurrent.futures import ThreadPoolExecutor

from vlib import cy, diff

FIELD_TYPES = ['object', 'object', 'int', 'str', 'list', 'cint', 'cdouble']
ANNOT_PYX = {'object': 'object', 'int': 'int', 'str': 'str', 'list': 'list', 'cint': 'cython.int', 'cdouble': 'cython.double'}
ANNOT_PY = {'object': 'object', 'int': 'int', 'str': 'str', 'list': 'list', 'cint': 'int', 'cdouble': 'float'}
VALUES = {
    'object': ['None', '1', "'s'", '(1, 2)', '2.5', '[1]', "{'k': 1}", 'True', '-7'],
    'int': ['0', '1', '-3', '2**40', '7'],
    'str': ["''", "'a'", "'xyz'", "'\\xe9'"],
    'list': ['[]', '[1, 2]', "['a']", '[[1], 2]'],
    'cint': ['0', '1', '-5', '123456', '2'],
    'cdouble': ['0.0', '1.5', '-2.25', '1e10', '3.0'],
}
DEFAULTS = {
    'object': ['None', '1', "'d'", '(1, 2)'],
    'int': ['0', '5', '-1'],
    'str': ["'dflt'", "''"],
    'cint': ['0', '3', '-2'],
    'cdouble': ['0.5', '2.0'],
}
FACTORIES = {'object': ['list', 'dict', 'int'], 'list': ['list']}
OPTIONS = ['init', 'repr', 'eq', 'order', 'unsafe_hash', 'frozen', 'kw_only', 'match_args']
OPT_DEFAULT = {'init': True, 'repr': True, 'eq': True, 'order': False, 'unsafe_hash': False, 'frozen': False,
               'kw_only': False, 'match_args': True}


def gen_class(rng, name, base=None, force_opts=None):
    """class description dict"""
    opts = {}
    for o in OPTIONS:
        if rng.random() < 0.3:
            opts[o] = not OPT_DEFAULT[o]
    if force_opts:
        opts.update(force_opts)
    eff = dict(OPT_DEFAULT)
    eff.update(opts)
    if eff['order'] and not eff['eq']:
        opts['eq'] = True     # order=True requires eq=True (ValueError in both)
        eff['eq'] = True
    if base is not None:
        # frozen-ness must agree between base and derived (TypeError at class creation in CPython)
        if base['eff']['frozen']:
            opts['frozen'] = True
        else:
            opts.pop('frozen', None)
        # per-field kw_only is not supported by cdef dataclasses (compile error), so a hierarchy is either all
        # keyword-only or not at all
        if base['eff']['kw_only']:
            opts['kw_only'] = True
        else:
            opts.pop('kw_only', None)
        eff = dict(OPT_DEFAULT)
        eff.update(opts)
    nf = rng.randint(0 if base else 1, 5 if not base else 3)
    fields = []
    seen_default = bool(base) and any(f['has_default'] and f['init'] for f in base['all_fields'])
    used = {f['name'] for f in (base['all_fields'] if base else [])}
    has_initvar = False
    for i in range(nf):
        fname = '%s%d' % (rng.choice('abcdxyz'), i)
        while fname in used:
            fname += 'q'
        used.add(fname)
        t = rng.choice(FIELD_TYPES)
        f = {'name': fname, 'type': t, 'has_default': False, 'default': None, 'factory': None, 'init': True, 'repr': True,
             'compare': True, 'hash': None, 'initvar': False, 'use_field': False}
        r = rng.random()
        need_default = seen_default and not eff['kw_only']
        if r < 0.12 and t == 'object' and not has_initvar and not (seen_default and not eff['kw_only']):
            f['initvar'] = True
            has_initvar = True
        if t in FACTORIES and not f['initvar'] and (rng.random() < 0.35 or (need_default and t == 'list')):
            f['factory'] = rng.choice(FACTORIES[t])
            f['has_default'] = True
            f['use_field'] = True
        elif f['initvar'] and not need_default:
            pass      # InitVar without default: the class-attribute default of an InitVar is not readable on an extension type
        elif t in DEFAULTS and (rng.random() < 0.45 or need_default):
            f['default'] = rng.choice(DEFAULTS[t])
            f['has_default'] = True
            f['use_field'] = rng.random() < 0.5
        elif need_default:
            f['type'] = t = 'object'
            f['default'] = 'None'
            f['has_default'] = True
        if not f['initvar']:
            if f['has_default'] and rng.random() < 0.2:
                f['init'] = False
                f['use_field'] = True
            if rng.random() < 0.2:
                f['repr'] = False
                f['use_field'] = True
            if rng.random() < 0.2:
                f['compare'] = False
                f['use_field'] = True
            if rng.random() < 0.12:
                f['hash'] = rng.choice([True, False])
                f['use_field'] = True
        if f['has_default'] and f['init']:
            seen_default = True
        fields.append(f)
    all_initvars = [f['name'] for f in (base['all_fields'] if base else []) + fields if f['initvar']]
    post_init = bool(all_initvars) or rng.random() < 0.2
    return {'name': name, 'base': base['name'] if base else None, 'opts': opts, 'eff': eff, 'fields': fields,
            'chain_init': (base.get('chain_init', [True]) if base else []) + [eff['init']],
            'all_fields': (base['all_fields'] if base else []) + fields, 'post_init': post_init,
            'initvars': all_initvars, 'own_post_init': post_init}


def render(cls, pyx):
    A = ANNOT_PYX if pyx else ANNOT_PY
    mod = 'cython.dataclasses' if pyx else 'dataclasses'
    optxt = ', '.join('%s=%r' % (k, v) for k, v in sorted(cls['opts'].items()))
    out = ['@%s.dataclass%s' % (mod, '(%s)' % optxt if optxt else '')]
    out.append('%sclass %s%s:' % ('cdef ' if pyx else '', cls['name'], '(%s)' % cls['base'] if cls['base'] else ''))
    for f in cls['fields']:
        ann = A[f['type']]
        if f['initvar']:
            # the supported spelling in .pyx files is the stdlib one (cf. tests/run/cdef_class_dataclass.pyx)
            ann = 'dataclasses.InitVar[%s]' % ann
        rhs = ''
        if f['use_field']:
            kw = []
            if f['factory']:
                kw.append('default_factory=%s' % f['factory'])
            elif f['has_default']:
                kw.append('default=%s' % f['default'])
            for k in ('init', 'repr', 'compare'):
                if not f[k]:
                    kw.append('%s=False' % k)
            if f['hash'] is not None:
                kw.append('hash=%r' % f['hash'])
            rhs = ' = %s.field(%s)' % (mod, ', '.join(kw))
        elif f['has_default']:
            rhs = ' = %s' % f['default']
        out.append('    %s: %s%s' % (f['name'], ann, rhs))
    if cls['post_init']:
        out.append('    def __post_init__(self%s):' % ''.join(', ' + n for n in cls['initvars']))
        out.append('        log((%r, %s))' % (cls['name'] + '.__post_init__', ''.join(n + ', ' for n in cls['initvars'])))
    if not cls['fields'] and not cls['post_init']:
        out.append('    pass')
    return '\n'.join(out) + '\n'


SETUP = r'''
import dataclasses, copy

def _mk(M, cls, a, k):
    return getattr(M, cls)(*a, **k)

def _view(o):
    """observable state of an instance through the dataclass protocol"""
    try:
        fs = dataclasses.fields(o)
    except Exception as e:
        return ('fields-error', type(e).__name__)
    vals = []
    for f in fs:
        try:
            vals.append((f.name, getattr(o, f.name)))
        except Exception as e:
            vals.append((f.name, '<%s>' % type(e).__name__))
    return tuple(vals)

def _obs(f, *a, **k):
    try:
        return f(*a, **k)
    except Exception as e:
        return '<%s>' % type(e).__name__

def _repr(o):
    import re
    r = repr(o)
    # default object repr: drop the module name and the address
    return re.sub(r' at 0x[0-9a-f]+', '', r).replace(type(o).__module__ + '.', '')

def construct(M, cls, a, k):
    o = _mk(M, cls, a, k)
    return (_view(o), _obs(_repr, o))

def compare(M, cls, a1, k1, a2, k2):
    x = _mk(M, cls, a1, k1)
    y = _mk(M, cls, a2, k2)
    import operator
    out = []
    for op in (operator.eq, operator.ne, operator.lt, operator.le, operator.gt, operator.ge):
        out.append(_obs(op, x, y))
    hx, hy = _obs(hash, x), _obs(hash, y)
    out.append(('hash', hx if isinstance(hx, str) else 'int', hy if isinstance(hy, str) else 'int',
                (hx == hy) if not isinstance(hx, str) and not isinstance(hy, str) else None))
    out.append(_obs(lambda: x == (1, 2)))
    out.append(_obs(lambda: x < 3))
    return out

def hashval(M, cls, a, k):
    o = _mk(M, cls, a, k)
    h = hash(o)
    # the stdlib hashes the tuple of the hash-participating fields
    fs = [f for f in dataclasses.fields(o) if (f.compare if f.hash is None else f.hash)]
    return h == hash(tuple(getattr(o, f.name) for f in fs))

def mutate(M, cls, a, k, name, v):
    o = _mk(M, cls, a, k)
    r1 = _obs(setattr, o, name, v)
    return (r1, _view(o))

def introspect(M, cls):
    C = getattr(M, cls)
    fs = dataclasses.fields(C)
    p = C.__dataclass_params__
    def dflt(f):
        return 'MISSING' if f.default is dataclasses.MISSING else f.default
    def fact(f):
        return 'MISSING' if f.default_factory is dataclasses.MISSING else f.default_factory.__name__
    return ([(f.name, dflt(f), fact(f), f.init, f.repr, f.compare, f.hash, f._field_type.name) for f in fs],
            (p.init, p.repr, p.eq, p.order, p.unsafe_hash, p.frozen),
            getattr(C, '__match_args__', 'absent'), dataclasses.is_dataclass(C),
            sorted(n for n in C.__dataclass_fields__),
            [f.kw_only if isinstance(f.kw_only, bool) else type(f.kw_only).__name__ for f in fs])

def protocol(M, cls, a, k, changes):
    o = _mk(M, cls, a, k)
    return (_obs(dataclasses.asdict, o), _obs(dataclasses.astuple, o),
            _obs(lambda: _view(dataclasses.replace(o, **changes))), dataclasses.is_dataclass(o),
            _obs(lambda: _view(copy.copy(o))))

def matchit(M, cls, a, k, npos):
    o = _mk(M, cls, a, k)
    C = getattr(M, cls)
    if npos == 0:
        match o:
            case C():
                return 'matched0'
        return 'nomatch'
    if npos == 1:
        match o:
            case C(p):
                return ('matched1', p)
        return 'nomatch'
    match o:
        case C(p, q):
            return ('matched2', p, q)
    return 'nomatch'
'''


def gen_args(rng, cls, wrong=False):
    """(args expr, kwargs expr) for the constructor"""
    init_fields = [f for f in cls['all_fields'] if f['init']]
    kw_only = cls['eff']['kw_only']
    if not cls['eff']['init']:
        return '()', '{}'
    args, kw = [], []
    npos = 0 if kw_only else rng.randint(0, len(init_fields))
    for i, f in enumerate(init_fields):
        v = rng.choice(VALUES[f['type']])
        if i < npos:
            args.append(v)
        elif not f['has_default'] or rng.random() < 0.6:
            kw.append('%r: %s' % (f['name'], v))
    if wrong:
        r = rng.random()
        if kw_only and init_fields and r < 0.5:
            # one positional argument for a keyword-only __init__ (the count would fit)
            f0 = init_fields[0]
            args.append(rng.choice(VALUES[f0['type']]))
            kw = [x for x in kw if not x.startswith(repr(f0['name']) + ':')]
        elif r < 0.3:
            args.append('99')
            args.extend(['98'] * len(init_fields))
        elif r < 0.5:
            kw.append("'nosuchfield': 1")
        elif r < 0.75 and (args or kw):
            if args:
                args.pop()
            else:
                kw.pop()
            kw = [x for x in kw]
        elif args and init_fields:
            kw.append('%r: %s' % (init_fields[0]['name'], rng.choice(VALUES[init_fields[0]['type']])))   # duplicate
    return '(%s%s)' % (', '.join(args), ',' if len(args) == 1 else ''), '{%s}' % ', '.join(kw)


def gen_cases(rng, cls, n):
    name = cls['name']
    cases = []

    def add(expr, tag):
        cases.append({'x': expr, 't': tag, '_c': name})

    add('introspect(M, %r)' % name, 'introspect')
    if not cls['eff']['init'] or any(not c2 for c2 in cls.get('chain_init', [True])):
        return cases
    for i in range(n):
        r = rng.random()
        a, k = gen_args(rng, cls)
        if r < 0.22:
            add('construct(M, %r, %s, %s)' % (name, a, k), 'construct')
        elif r < 0.34:
            a, k = gen_args(rng, cls, wrong=True)
            add('construct(M, %r, %s, %s)' % (name, a, k), 'construct-wrong-args')
        elif r < 0.56:
            if rng.random() < 0.4:
                a2, k2 = a, k
            else:
                a2, k2 = gen_args(rng, cls)
            add('compare(M, %r, %s, %s, %s, %s)' % (name, a, k, a2, k2), 'compare')
        elif r < 0.62:
            add('hashval(M, %r, %s, %s)' % (name, a, k), 'hash-value')
        elif r < 0.76:
            fs = [f for f in cls['all_fields'] if not f['initvar']]
            if fs:
                f = rng.choice(fs)
                add('mutate(M, %r, %s, %s, %r, %s)' % (name, a, k, f['name'], rng.choice(VALUES[f['type']])), 'setattr')
        elif r < 0.9:
            fs = [f for f in cls['all_fields'] if f['init'] and not f['initvar']]
            ch = {}
            for f in rng.sample(fs, min(len(fs), rng.randint(0, 2))):
                ch[f['name']] = rng.choice(VALUES[f['type']])
            add('protocol(M, %r, %s, %s, {%s})' % (name, a, k, ', '.join('%r: %s' % kv for kv in ch.items())), 'asdict-astuple-replace')
        else:
            lead = 0
            for f in cls['all_fields']:
                if f['initvar']:
                    break
                lead += 1
            add('matchit(M, %r, %s, %s, %d)' % (name, a, k, min(lead, rng.randint(0, 2))), 'match-statement')
    return cases


def classify(cls, case, exp, got, bases=()):
    """mechanism key from the operation, the decorator options / field features that matter for it and what differs"""
    tag = case['t']
    eff = cls['eff']
    nondefault = sorted(k for k in OPTIONS if eff[k] != OPT_DEFAULT[k])
    fields = cls['all_fields']

    def oc(o):
        if o[0] == 'exc':
            return 'exc:' + o[1]
        return 'ok'
    es, gs = str(exp), str(got)
    comp = None
    if oc(exp) == 'ok' and oc(got) == 'ok':
        try:
            e, g = exp[1][1], got[1][1]
            comp = next((i for i in range(min(len(e), len(g))) if e[i] != g[i]), None)
        except Exception:
            comp = None
    log_only = exp[:-1] == got[:-1] and exp[-1] != got[-1]
    if log_only and cls['base'] and not cls.get('own_post_init', True):
        return 'post_init:inherited-__post_init__-not-called'
    if tag == 'introspect' and comp == 5:
        return 'introspect:Field.kw_only-is-not-a-bool'
    if tag == 'setattr' and eff['frozen'] and 'FrozenInstanceError' in es and 'AttributeError' in gs:
        return 'frozen:assignment-raises-AttributeError-instead-of-FrozenInstanceError'
    if cls['base'] and not eff['eq'] and eff['unsafe_hash'] and tag in ('compare', 'hash-value') and (
            any(b['eff']['eq'] for b in bases)):
        return 'inheritance:subclass-defining-only-__hash__-loses-inherited-comparisons'
    if tag == 'compare' and (eff['order'] or any(b['eff']['order'] for b in bases)) and comp is not None and 2 <= comp <= 5 \
            and "'<TypeError>'" in gs:
        return 'order:TypeError-when-leading-fields-are-equal-but-unorderable'
    hashdiff = any(not f['compare'] and f['hash'] is None and not f['initvar'] for f in fields)
    if hashdiff and (tag == 'hash-value' or (tag == 'compare' and comp == 6)):
        return 'hash:compare=False-field-included-in-__hash__'
    if (tag == 'match-statement' or (tag == 'introspect' and comp == 2)) and any(not f['init'] for f in fields):
        return 'match_args:init=False-field-listed-in-__match_args__'
    what = '%s->%s' % (oc(exp), oc(got))
    if comp is not None:
        what = 'component%s' % comp
    if log_only:
        what = 'post_init-log'
    return '%s:%s:opts=%s' % (tag, what, '+'.join(nondefault) or 'default')


def main(ck):
    tree = cy.Tree('C30')
    ncls = ck.pick(80, 360)
    per_mod = ck.pick(10, 30)
    nops = ck.pick(30, 40)
    classes = []
    # option lattice floor: every single option and every pair of options at least once
    forced = [{o: not OPT_DEFAULT[o]} for o in OPTIONS]
    for i, a in enumerate(OPTIONS):
        for b in OPTIONS[i + 1:]:
            forced.append({a: not OPT_DEFAULT[a], b: not OPT_DEFAULT[b]})
    i = 0
    while len(classes) < ncls:
        rng = ck.rng('cls%d' % i)
        fo = forced[i] if i < len(forced) else None
        c = gen_class(rng, 'D%d' % len(classes), force_opts=fo)
        classes.append(c)
        if rng.random() < 0.25 and len(classes) < ncls:
            classes.append(gen_class(rng, 'D%d' % len(classes), base=c))
        i += 1
    # keep base and derived class in the same module
    groups = []
    cur = []
    for c in classes:
        if len(cur) >= per_mod and c['base'] is None:
            groups.append(cur)
            cur = []
        cur.append(c)
    if cur:
        groups.append(cur)
    fmap = {}
    info = {}
    modclasses = {}
    lost = []
    t0 = time.time()
    nmod = 0
    level = 0
    refs = {}
    while groups and level < 5:
        mods = {}
        for g in groups:
            name = 'c30m%d' % nmod
            nmod += 1
            mods[name] = 'cimport cython\nimport dataclasses\n\nlog = None\n\n' + '\n'.join(render(c, True) for c in g)
            refs[name] = 'import dataclasses\n\nlog = None\n\n' + '\n'.join(render(c, False) for c in g)
            modclasses[name] = g
        d, inf_ = tree.build_sources(mods, subdir='b', ext='.pyx')
        groups = []
        for name, inf in inf_.items():
            g = modclasses[name]
            if inf['ok']:
                info[name] = inf
            elif len([c for c in g if c['base'] is None]) <= 1 or level == 4:
                lost.extend(g)
                ck.note('build failure (%d classes, e.g. %s) at %s: %s' % (len(g), render(g[0], True).replace('\n', ' | ')[:300],
                                                                             inf['stage'], inf['errors'][-400:]))
            else:
                # bisect at a base-class boundary
                cut = len(g) // 2
                while cut < len(g) and g[cut]['base'] is not None:
                    cut += 1
                if cut >= len(g):
                    cut = len(g) // 2
                    while cut > 0 and g[cut]['base'] is not None:
                        cut -= 1
                groups += [x for x in (g[:cut], g[cut:]) if x]
        level += 1
    ck.cov['build_s'] = round(time.time() - t0, 1)
    # the reference rendering must itself be valid (a generator bug otherwise)
    jobs = []
    opt_single = {}
    opt_pairs = {}
    for name, inf in info.items():
        refpath = inf['src'] + '.ref.py'
        with open(refpath, 'w') as f:
            f.write(refs[name])
        cases = []
        for c in modclasses[name]:
            fmap[c['name']] = c
            nd = sorted(k for k in OPTIONS if c['eff'][k] != OPT_DEFAULT[k])
            for a in nd:
                opt_single[a] = opt_single.get(a, 0) + 1
            for x, a in enumerate(nd):
                for b in nd[x + 1:]:
                    opt_pairs[a + '+' + b] = opt_pairs.get(a + '+' + b, 0) + 1
            cases.extend(gen_cases(ck.rng('ops:' + c['name']), c, nops))
        jobs.append((name, inf, refpath, cases))

    def run_one(job):
        name, inf, refpath, cases = job
        return diff.run_cases(tree, d, name, cases, ref=refpath, compare={'exc_args': False, 'log': True},
                              setup=SETUP, tagdir='run_' + name, timeout=900, nproc=2)

    t0 = time.time()
    with ThreadPoolExecutor(8) as ex:
        results = list(ex.map(run_one, jobs))
    ck.cov['run_s'] = round(time.time() - t0, 1)
    total_n = total_distinct = 0
    samples = []
    hist = {}
    for (name, inf, refpath, cases), res in zip(jobs, results):
        total_n += res.n
        total_distinct += res.distinct
        samples.extend(res.samples[:1])
        for k, v in res.hist.items():
            hist[k] = hist.get(k, 0) + v
        for m in res.mismatches:
            c = fmap[m['case']['_c']]
            chain = [c] if not c['base'] else [fmap[c['base']], c]
            pyx = 'cimport cython\nimport dataclasses\n\nlog = None\n\n' + '\n'.join(render(x, True) for x in chain)
            ref = 'import dataclasses\n\nlog = None\n\n' + '\n'.join(render(x, False) for x in chain)
            key = classify(c, m['case'], m['exp'], m['got'], bases=chain[:-1])
            ck.discrepancy(key, '%s | %s: stdlib dataclass %s, cdef dataclass %s' % (render(c, True).replace('\n', ' | ')[:400],
                                                                                   m['case']['x'][:300], str(m['exp'])[:300],
                                                                                   str(m['got'])[:300]),
                           {'module_source': pyx, 'ref_source': ref, 'ext': '.pyx', 'case': m['case'], 'setup': SETUP,
                            'compare': {'exc_args': False, 'log': True}, 'expected': m['exp'], 'observed': m['got']})
        for cr in res.crashes:
            c = fmap[cr['case']['_c']]
            ck.discrepancy('crash:%s' % cr['case']['t'], 'crash/hang %s on %s' % (cr['kind'], cr['case']['x'][:300]),
                           {'module_source': 'cimport cython\nimport dataclasses\n\nlog = None\n\n' + render(c, True), 'ext': '.pyx', 'case': cr['case'],
                            'setup': SETUP, 'stderr': cr['stderr']})
        for ft in res.fatal:
            ck.inconclusive_if(True, 'driver failed for %s: %s' % (name, str(ft)[-600:]))
    ck.inconclusive_if(len(lost) > len(classes) // 5, '%d of %d classes failed to build' % (len(lost), len(classes)))
    missing_single = [o for o in OPTIONS if not opt_single.get(o)]
    missing_pairs = ['+'.join(sorted((a, b))) for i, a in enumerate(OPTIONS) for b in OPTIONS[i + 1:]
                     if not opt_pairs.get('+'.join(sorted((a, b)))) and not ({a, b} == {'eq', 'order'})]
    ck.inconclusive_if(bool(missing_single or missing_pairs), 'option lattice cells not observed: %s %s' % (missing_single, missing_pairs[:5]))
    return ck.finish(
        total_n, total_distinct,
        'one case = (generated dataclass, operation with generated arguments); observed through the dataclass protocol '
        '(fields values, repr, comparison results, hash, exceptions, asdict/astuple/replace, __match_args__, match, '
        '__post_init__ log); reference = the same class built by the stdlib dataclasses module. distinct = distinct '
        '(operation expression, reference outcome)',
        samples,
        extra={'classes': len(classes), 'classes_lost_to_build_failure': len(lost), 'modules': len(info),
               'options_single': opt_single, 'option_pairs_observed': len(opt_pairs),
               'operation_hist': {k: v for k, v in sorted(hist.items(), key=lambda kv: -kv[1])[:40]}},
        assumptions=['CPython 3.12.1 dataclasses module is the reference',
                     'values for C-typed / builtin-annotated fields are drawn inside the declared type',
                     'class-level introspection that exposes the extension type (class attribute defaults, __slots__, '
                     '__dict__, qualnames of generated methods) is not compared'])


def replay(ck, data):
    w = data.get('witness', data)
    tree = cy.Tree('replay')
    d, info = tree.build_sources({'c30m': w['module_source']}, subdir='r', ext='.pyx')
    inf = info['c30m']
    if not inf['ok']:
        print('build failed at', inf['stage'], inf['errors'][-2000:])
        return 2
    refpath = inf['src'] + '.ref.py'
    open(refpath, 'w').write(w['ref_source'])
    res = diff.run_cases(tree, d, 'c30m', [w['case']], ref=refpath, compare=w.get('compare'), setup=w['setup'], nproc=1)
    for m in res.mismatches:
        print('expected', m['exp'])
        print('observed', m['got'])
    for c in res.crashes:
        print('crash', c['kind'], c['stderr'][-1500:])
    if res.mismatches or res.crashes:
        print('VIOLATION property=%s replay=<replayed>' % ck.pid)
        return 1
    print('replay: case now agrees with the reference (%d evaluated, fatal=%s)' % (res.n, res.fatal))
    return 0 if res.n else 2
