"""C08 C complex arithmetic matches Python complex (DESIGN.md section 5, C08).

One .pyx function per operation on `double complex` (and conversions for `float complex` / objects), built twice:
default (CYTHON_CCOMPLEX=1, C99 _Complex) and -DCYTHON_CCOMPLEX=0 (struct helpers of Complex.c), each run in its own
processes.  Oracle: Python complex arithmetic, compared exactly by repr per component.  Every discrepancy is
attributed by ablation + implementation models (vlib/ref/cnum.py):
  complex-from-parts      the observed value is what the C implementation computes on operands altered by
                          `x + y*I` construction, and computes CPython's value on unaltered operands
  ccomplex-native-<op>    observed == model of the native C99 operation (libgcc/libm), default build
  complex-helper-<op>     observed == line-by-line model of the Complex.c helper, CYTHON_CCOMPLEX=0 build
anything else is `unexplained` and alarms.
"""
import math
import struct

from vlib import core, creach, cy, diff
from vlib.gen import numblocks as nb
from vlib.ref import cnum

inf, nan = math.inf, math.nan
COMPONENTS = [0.0, -0.0, 1.0, -1.0, 2.5, 1e-300, 1e200, inf, -inf, nan]
COMPONENTS_T = COMPONENTS + [5e-324, 1.7976931348623157e308]

HEAD = '# cython: language_level=3\ncimport cython\n'
GROUP = 10


def _f32(x):
    if x != x or abs(x) == inf:
        return x
    try:
        return struct.unpack('f', struct.pack('f', x))[0]
    except OverflowError:
        return math.copysign(inf, x)


# each entry: name -> dict(sig, body (pyx), ref (python body), kind of args, op, model(I, *args) or None)
def specs():
    S = []

    def add(tag, op, csig, psig, body, ref, argkind, model=None, directives='', value=True):
        S.append({'tag': tag, 'op': op, 'csig': csig, 'psig': psig, 'body': body, 'ref': ref or body, 'argkind': argkind,
                  'model': model, 'directives': directives, 'value': value})
    ZZ = ('double complex a, double complex b', 'a, b')
    Z = ('double complex a', 'a')
    fp = lambda I, z: I['from_parts'](z.real, z.imag)
    def checked(I, o, A, B):
        """the generated code tests the divisor with __Pyx_c_is_zero before dividing (cdivision off)"""
        if o == 'quot' and B == 0:
            raise ZeroDivisionError
        return I[o](A, B)
    for op, sym in (('sum', '+'), ('diff', '-'), ('prod', '*'), ('quot', '/'), ('pow', '**')):
        add(op, op, ZZ[0], ZZ[1], 'return a %s b' % sym, None, 'zz', (lambda o: lambda I, a, b: checked(I, o, fp(I, a), fp(I, b)))(op))
        add(op + '/inplace', op, ZZ[0], ZZ[1], 'a %s= b\n    return a' % sym, None, 'zz',
            (lambda o: lambda I, a, b: checked(I, o, fp(I, a), fp(I, b)))(op))
        add(op + '/local', op, ZZ[0], ZZ[1], 'cdef double complex r = a %s b\n    return r' % sym, 'r = a %s b\n    return r' % sym, 'zz',
            (lambda o: lambda I, a, b: checked(I, o, fp(I, a), fp(I, b)))(op))
        # complex with a C double on either side
        add(op + '/zd', op, 'double complex a, double x', 'a, x', 'return a %s x' % sym, None, 'zd',
            (lambda o: lambda I, a, x: checked(I, o, fp(I, a), I['from_parts'](x, 0.0)))(op))
        add(op + '/dz', op, 'double complex a, double x', 'a, x', 'return x %s a' % sym, None, 'zd',
            (lambda o: lambda I, a, x: checked(I, o, I['from_parts'](x, 0.0), fp(I, a)))(op))
    add('eq', 'eq', ZZ[0], ZZ[1], 'return a == b', None, 'zz', lambda I, a, b: fp(I, a) == fp(I, b))
    add('ne', 'eq', ZZ[0], ZZ[1], 'return a != b', None, 'zz', lambda I, a, b: fp(I, a) != fp(I, b))
    add('pow/zi', 'pow', 'double complex a, int n', 'a, n', 'return a ** n', None, 'zi',
        lambda I, a, n: I['pow'](fp(I, a), I['from_parts'](float(n), 0.0)))
    for c in ('0', '1', '2', '3', '4', '5', '-1', '-2', '0.5', '-0.5', '2.0', '1j'):
        cv = complex(eval(c))
        add('pow/const', 'pow', Z[0], Z[1], 'return a ** (%s)' % c, None, 'z',
            (lambda cv: lambda I, a: I['pow'](fp(I, a), I['from_parts'](cv.real, cv.imag)))(cv))
    add('quot/cdivision', 'quot', ZZ[0], ZZ[1], 'return a / b', 'return a / b if b != 0 else "unconstrained"', 'zz_nonzero',
        lambda I, a, b: I['quot'](fp(I, a), fp(I, b)), directives='@cython.cdivision(True)\n')
    add('quot/cdivision-by-zero', 'quot', ZZ[0], ZZ[1], 'cdef double complex r = a / b\n    return "no exception"', 'return "no exception"',
        'zz_zero', None, directives='@cython.cdivision(True)\n')
    # unary and attribute access
    add('rt', 'rt', Z[0], Z[1], 'return a', None, 'z', lambda I, a: fp(I, a))
    add('neg', 'neg', Z[0], Z[1], 'return -a', None, 'z', lambda I, a: I['neg'](fp(I, a)))
    add('pos', 'rt', Z[0], Z[1], 'return +a', None, 'z', lambda I, a: fp(I, a))
    add('abs', 'abs', Z[0], Z[1], 'return abs(a)', None, 'z', lambda I, a: I['abs'](fp(I, a)))
    add('conj', 'conj', Z[0], Z[1], 'return a.conjugate()', None, 'z', lambda I, a: I['conj'](fp(I, a)))
    add('real', 'rt', Z[0], Z[1], 'return a.real', None, 'z', lambda I, a: fp(I, a).real)
    add('imag', 'rt', Z[0], Z[1], 'return a.imag', None, 'z', lambda I, a: fp(I, a).imag)
    add('eq0', 'eq', Z[0], Z[1], 'return a == 0', None, 'z', lambda I, a: fp(I, a) == 0)
    add('parts', 'from_parts', 'double x, double y', 'x, y', 'cdef double complex z\n    z.real = x\n    z.imag = y\n    return z',
        'return complex(x, y)', 'dd', lambda I, x, y: complex(x, y))
    add('parts/expr', 'from_parts', 'double x, double y', 'x, y', 'return x + y * 1j', None, 'dd',
        lambda I, x, y: I['sum'](I['from_parts'](x, 0.0), I['prod'](I['from_parts'](y, 0.0), I['from_parts'](0.0, 1.0))))
    add('parts/cast', 'from_parts', 'double x', 'x', 'return <double complex>x', 'return complex(x)', 'd',
        lambda I, x: I['from_parts'](x, 0.0))
    add('rt/float-complex', 'rt32', 'float complex a', 'a', 'return a', 'return complex(_f32(a.real), _f32(a.imag))', 'z',
        lambda I, a: I['from_parts'](_f32(a.real), _f32(a.imag)) if I is cnum.HELPER else
        complex(_f32(_f32(a.real) + _f32(_f32(a.imag) * 0.0)), _f32(a.imag)))
    add('conv/object', 'conv', 'obj', 'obj', 'cdef double complex z = obj\n    return z', 'return _as_c_complex(obj)', 'obj', None)
    add('conv/arg', 'conv', 'double complex obj', 'obj', 'return obj', 'return _as_c_complex(obj)', 'obj', None)
    for i, s in enumerate(S):
        s['name'] = 'fz%dz' % i
        s['pyx'] = '%sdef %s(%s):\n    %s\n' % (s['directives'], s['name'], s['csig'], s['body'])
        s['refsrc'] = 'def %s(%s):\n    %s\n' % (s['name'], s['psig'], s['ref'])
    return S


REF_PRELUDE = '''
import struct, math
def _f32(x):
    if x != x or abs(x) == math.inf:
        return x
    try:
        return struct.unpack('f', struct.pack('f', x))[0]
    except OverflowError:
        return math.copysign(math.inf, x)
def _as_c_complex(obj):
    """PyComplex_AsCComplex: complex, else __complex__, else the object as a float (never parses text)"""
    if isinstance(obj, complex):
        return complex(obj.real, obj.imag)
    c = getattr(type(obj), '__complex__', None)
    if c is not None:
        r = c(obj)
        if not isinstance(r, complex):
            raise TypeError('__complex__ returned non-complex')
        return complex(r.real, r.imag)
    if isinstance(obj, (str, bytes, bytearray)):
        raise TypeError('a number is required')
    return complex(float(obj), 0.0)
'''
OBJECTS = ['1+2j', 'complex(-0.0, -0.0)', 'complex(0.0, inf)', 'complex(nan, -inf)', '2.5', '-0.0', 'inf', '7', '-3', 'True', '2**70',
           '10**400', 'F(2.5)', 'I(4)', 'ComplexLike(3-4j)', 'ComplexLike(complex(-0.0, inf))', 'ComplexLike(2.5)', "ComplexLike('x')",
           'FloatLike(2.5)', "FloatLike('x')", 'Idx(3)', 'IntOnly(3)', "'1+2j'", "b'1'", 'None', '[1]', 'Obj(1)']


def zclass(z):
    if isinstance(z, complex):
        parts = (z.real, z.imag)
    else:
        parts = (float(z),)
    if any(p != p for p in parts):
        return 'nan'
    if any(abs(p) == inf for p in parts):
        return 'inf'
    if all(p == 0 for p in parts):
        return 'zero'
    return 'finite'


def text_of(v):
    return '%s %r' % (type(v).__name__, v)


def close(ev, gv):
    try:
        e = complex(_val(ev)[1])
        g = complex(_val(gv)[1])
    except Exception:
        return False
    for x, y in ((e.real, g.real), (e.imag, g.imag)):
        if x != x or y != y or abs(x) == inf or abs(y) == inf:
            if repr(x) != repr(y):
                return False
            continue
        if abs(x - y) > 1e-12 * max(abs(e.real), abs(e.imag), abs(g.real), abs(g.imag), 1e-300):
            return False
    return True


def symptom(exp, got):
    if exp.startswith('! ') and not got.startswith('! '):
        return 'no-' + exp[2:]
    if got.startswith('! '):
        return 'raises-' + got[2:]
    if close(exp, got):
        e = exp.split(' ', 1)[1]
        g = got.split(' ', 1)[1]
        if e.replace('-0', '0') == g.replace('-0', '0'):
            return 'sign-of-zero'
        return 'rounding'
    return 'special-value'


def _val(text):
    t, r = text.split(' ', 1)
    if t == 'complex':
        return t, complex(r)
    if t == 'float':
        return t, float(r)
    return t, eval(r, {'inf': inf, 'nan': nan})


def same(model, got, args):
    """model text == observed text; when an operand has a NaN/inf component the sign of zeros is not compared (the sign
    bit of a NaN - e.g. of the NaN that inf*0.0 produces during construction - is invisible in repr, but copysign() inside
    __muldc3/__divdc3 turns it into the sign of a zero)"""
    if model == got:
        return True
    comps = [p for a in args if isinstance(a, (complex, float)) for p in ((a.real, a.imag) if isinstance(a, complex) else (a,))]
    if not any(p != p or abs(p) == inf for p in comps):
        return False
    try:
        (mt, mv), (gt, gv) = _val(model), _val(got)
    except Exception:
        return False
    if mt != gt or not isinstance(mv, (complex, float)):
        return False
    mc, gc = complex(mv), complex(gv)
    for x, y in ((mc.real, gc.real), (mc.imag, gc.imag)):
        if x == 0 and y == 0:
            continue
        if repr(x) != repr(y):
            return False
    return True


def classify(s, args, exp, got, config, helper_agrees):
    """-> (key, symptom)"""
    I = cnum.NATIVE if config == 'default' else cnum.HELPER
    sym = symptom(exp, got)
    cls = '/'.join(zclass(a) for a in args if isinstance(a, (complex, float, int)))
    if s['model'] is None:
        return '%s:unexplained:%s:%s' % (s['tag'], config.replace('=', ''), sym), cls
    soft_note = ''
    try:
        mv = s['model'](I, *args)
        model = text_of(mv)
        if not same(model, got, args) and s['op'] == 'pow' and isinstance(mv, complex) and same(text_of(cnum.soft(mv)), got, args):
            # `complex ** complex` has the soft-complex type under cpow=False: a zero imaginary part yields a Python float
            soft_note = ' soft-complex-returned-float'
            if same(model, exp, args):
                return 'pow-of-complex-operands-is-soft-complex', '%s %s' % (sym, cls)
            model = got
    except ZeroDivisionError:
        model = '! ZeroDivisionError'
    except Exception as ex:    # noqa
        model = 'model failed %r' % ex
    if not same(model, got, args):
        return '%s:unexplained:%s:%s' % (s['tag'], config.replace('=', ''), sym), '%s model=%s' % (cls, model)
    sym += soft_note.replace(' ', '+')
    if config == 'default':
        # would the native operation on *unaltered* operands give CPython's value? then construction is the only cause
        E = dict(I)
        E['from_parts'] = lambda x, y: complex(x, y)
        try:
            exact = text_of(s['model'](E, *args))
        except Exception:
            exact = None
        if exact == exp or (exp.startswith('! ') and s['op'] in ('rt', 'from_parts', 'rt32')):
            return 'complex-from-parts', '%s %s' % (sym, cls)
        if s['op'] in ('rt', 'rt32', 'from_parts', 'sum', 'diff', 'neg', 'conj', 'eq'):
            # exact component-wise operations: only construction can differ
            return 'complex-from-parts', '%s %s' % (sym, cls)
        return 'ccomplex-native-%s' % s['op'], '%s %s%s' % (sym, cls, ' helper-build-agrees-with-CPython' if helper_agrees else '')
    return 'complex-helper-%s' % s['op'], '%s %s' % (sym, cls)


def main(ck):
    from concurrent.futures import ThreadPoolExecutor
    tree = cy.Tree('C08')
    ck.cov['model_flags'] = dict(cnum.configure(core.REPO))
    S = specs()
    smap = {s['name']: s for s in S}
    src = HEAD + '\n'.join(s['pyx'] for s in S)
    refsrc = REF_PRELUDE + '\n'.join(s['refsrc'] for s in S)
    configs = [('CYTHON_CCOMPLEX=0', ['-DCYTHON_CCOMPLEX=0'], 'c08h'), ('default', [], 'c08n')]
    with ThreadPoolExecutor(2) as ex:
        futs = [ex.submit(tree.build_sources, {mod: src}, subdir='b_' + mod, ext='.pyx', cflags=cflags) for _, cflags, mod in configs]
        built = [f.result() for f in futs]
    failed = []
    for (cfg, cflags, mod), (d, info) in zip(configs, built):
        if not info[mod]['ok']:
            failed.append(cfg)
            ck.note('build failure %s at %s: %s' % (cfg, info[mod]['stage'], info[mod]['errors'][-800:]))
    ck.inconclusive_if(bool(failed), 'configuration(s) failed to build: %s' % failed)
    # ------------------------------------------------------------------ inputs
    comps = ck.pick(COMPONENTS, COMPONENTS_T)
    zs = [complex(x, y) for x in comps for y in comps]
    n_rand = ck.pick(3000, 50000)
    n_rand_small = ck.pick(1000, 20000)
    seed = ck.seed
    pools = {
        'zz': [(a, b) for a in zs for b in zs] + nb.build_pool('complex_pairs', seed, n_rand),
        'z': [(a,) for a in zs] + [(complex(x, y),) for x in COMPONENTS_T for y in COMPONENTS_T] + nb.build_pool('complex_singles', seed, n_rand_small),
        'zd': [(a, x) for a in zs for x in comps] + nb.build_pool('complex_double_pairs', seed, n_rand_small),
        'zi': [(a, n) for a in zs for n in (0, 1, 2, 3, 4, 5, -1, -2, -3, 7, 10, 100)] + nb.build_pool('complex_int_pairs', seed, n_rand_small),
        'dd': [(x, y) for x in COMPONENTS_T for y in COMPONENTS_T],
        'd': [(x,) for x in COMPONENTS_T],
    }
    pools['zz_nonzero'] = [p for p in pools['zz'] if p[1] != 0][:ck.pick(4000, 60000)]
    pools['zz_zero'] = [(a, b) for a in zs for b in (0j, complex(-0.0, 0.0), complex(0.0, -0.0), complex(-0.0, -0.0))]
    n_specials = {'zz': len(zs) ** 2}
    poolspec = nb.dump_pools(pools, tree.work, 'poolC08')
    setup = 'set_pools(%r)' % poolspec
    # ------------------------------------------------------------------ reach + cases
    helpers_by_cfg = {}
    runs = []
    for (cfg, cflags, mod), (d, info) in zip(configs, built):
        if not info[mod]['ok']:
            continue
        refpath = info[mod]['src'] + '.ref.py'
        with open(refpath, 'w') as fh:
            fh.write(refsrc)
        ctext = open(info[mod]['c'], encoding='utf-8', errors='replace').read()
        bodies = creach.bodies_by_token(ctext, [s['name'] for s in S])
        hs = {}
        for s in S:
            for h in creach.helpers_in(bodies.get(s['name'], ''), r'__Pyx_c_\w+|__pyx_t_\w+_from_parts|__Pyx_PyComplex_As_\w+|__pyx_PyComplex_FromComplex\w*'):
                hs[h] = hs.get(h, 0) + 1
        helpers_by_cfg[cfg] = hs
        for gi in range(0, len(S), GROUP):
            cases = []
            for s in S[gi:gi + GROUP]:
                if s['argkind'] == 'obj':
                    for e in OBJECTS:
                        cases.append({'f': s['name'], 'a': '(%s,)' % e, 't': s['tag']})
                    continue
                cases += nb.block_cases(s['name'], s['argkind'], len(pools[s['argkind']]), s['tag'], bs=200)
            runs.append({'cfg': cfg, 'cflags': cflags, 'mod': mod, 'dir': d, 'ref': refpath, 'cases': cases, 'group': gi})
    for need in ('__Pyx_c_quot_double', '__Pyx_c_pow_double', '__Pyx_c_prod_double', '__Pyx_c_abs_double'):
        ck.inconclusive_if(not failed and not helpers_by_cfg.get('CYTHON_CCOMPLEX=0', {}).get(need),
                           'CYTHON_CCOMPLEX=0 build does not call %s' % need)

    def go(r):
        return diff.run_cases(tree, r['dir'], r['mod'], r['cases'], ref=r['ref'], compare={'log': False},
                              env_mods=['vlib.values', 'vlib.gen.numblocks'], setup=setup, tagdir='run_%s_%d' % (r['mod'], r['group']), timeout=3000,
                              spec_extra={'max_mismatch_records': 1000000}, nproc=max(1, min(core.NCPU, ck.pick(8, 12), (len(r['cases']) + 49) // 50)))
    # group by group, the CYTHON_CCOMPLEX=0 run of a group before its default run (ablation input); results of a group are
    # processed and dropped before the next one starts (bounded memory)
    runs.sort(key=lambda r: (r['group'], 0 if r['cfg'] != 'default' else 1))

    def results_iter():
        for r in runs:
            yield r, go(r)
    evaluations = distinct = 0
    samples = []
    cells = {}
    symptoms = {}
    matrix = {}
    helper_mismatch = set()
    seen_keys = set()
    for r, res in results_iter():
        total = sum((c['blk'][3] - c['blk'][2]) if 'blk' in c else 1 for c in r['cases'])
        lost = 0
        for c in res.crashes:
            blk = c['case'].get('blk')
            lost += (blk[3] - blk[2]) if blk else 1
            s = smap[blk[0] if blk else c['case']['f']]
            ck.discrepancy('crash:%s:%s' % (s['tag'], r['cfg']), 'crash/hang %s in %s' % (c['kind'], s['pyx']),
                           {'function_source': HEAD + s['pyx'], 'ref_source': REF_PRELUDE + s['refsrc'], 'ext': '.pyx', 'case': c['case'],
                            'cflags': r['cflags'], 'stderr': c['stderr'], 'expected': 'no crash', 'observed': c['kind']})
        for ft in res.fatal:
            ck.inconclusive_if(True, 'driver failed (%s): %s' % (r['cfg'], str(ft)[-300:]))
        if not res.fatal:
            evaluations += total - lost
            distinct += res.distinct
        samples.extend(res.samples[:3])
        for k, v in res.hist.items():
            cells['%s|%s' % (r['cfg'], k.split('|')[0])] = cells.get('%s|%s' % (r['cfg'], k.split('|')[0]), 0) + v
        for m in res.mismatches:
            if 'blk' in m['case']:
                items = nb.explode(m, pools)
            else:
                items = [(m['case']['f'], m['case']['a'], nb.sig_to_text(m['exp']), nb.sig_to_text(m['got']))]
            for name, args, exp, got in items:
                s = smap[name]
                if args is None:
                    key, sym = 'block-evaluation-failed', ''
                elif isinstance(args, str):
                    key, sym = 'conv:unexplained:%s:%s' % (r['cfg'].replace('=', ''), symptom(exp, got)), args
                    try:      # conversion of an object: the only C computation is the construction from parts
                        ev = _val(exp)[1]
                        if r['cfg'] == 'default' and isinstance(ev, complex) and text_of(cnum.native_from_parts(ev.real, ev.imag)) == got:
                            key = 'complex-from-parts'
                    except Exception:
                        pass
                else:
                    if exp == 'str unconstrained':
                        continue
                    akey = (name, repr(args))
                    if r['cfg'] != 'default':
                        helper_mismatch.add(akey)
                    key, sym = classify(s, args, exp, got, r['cfg'], akey not in helper_mismatch)
                sk = '%s [%s] %s' % (key, s['tag'], sym.split(' ')[0])
                symptoms[sk] = symptoms.get(sk, 0) + 1
                if key in seen_keys:
                    ck.discrepancy(key, '', None)
                    continue
                seen_keys.add(key)
                alit = nb.args_lit(args) if isinstance(args, tuple) else args
                ck.discrepancy(key, '%s on %s [%s]: CPython %s, compiled %s (%s)' % (
                    s['pyx'].strip().replace('\n', ' ; '), alit, r['cfg'], exp, got, sym),
                    {'function_source': HEAD + s['pyx'], 'ref_source': REF_PRELUDE + s['refsrc'], 'ext': '.pyx',
                     'case': {'f': name, 'a': alit}, 'compare': {'log': False}, 'cflags': r['cflags'], 'directives': {},
                     'expected': exp, 'observed': got, 'config': r['cfg'], 'symptom': sym})
    # operand-class matrix of the binary complex functions (reach)
    for a, b in pools['zz']:
        k = zclass(a) + '/' + zclass(b)
        matrix[k] = matrix.get(k, 0) + 1
    want = ['%s/%s' % (x, y) for x in ('zero', 'finite', 'inf', 'nan') for y in ('zero', 'finite', 'inf', 'nan')]
    ck.inconclusive_if(any(matrix.get(k, 0) == 0 for k in want), 'operand-class matrix not fully populated: %s' %
                       [k for k in want if not matrix.get(k)])
    ck.inconclusive_if(not failed and len({r['cfg'] for r in runs}) < 2, 'both CYTHON_CCOMPLEX settings must be observed')
    return ck.finish(
        evaluations, distinct,
        'one .pyx function per operation on double complex (+ - * / ** in expression, in-place, cdef-local and mixed-with-double '
        'forms, integer/constant exponents, ==, unary minus, abs, conjugate, .real/.imag, truth, identity round trip, construction '
        'from parts, float complex and object conversions, cdivision variants) called on all pairs of %d special complex values '
        '(components %s) plus seeded random values, in the default (CYTHON_CCOMPLEX=1) and the -DCYTHON_CCOMPLEX=0 build, each in '
        'its own processes; reference = the same expression on Python complex, compared exactly (type + repr). evaluations = calls '
        'judged; distinct = distinct (block, reference outcome); all functions operate on C complex values (static anchors per '
        'configuration in helpers_reached)' % (len(zs), comps),
        samples,
        extra={'functions': len(S), 'helpers_reached': helpers_by_cfg, 'cells': cells, 'operand_class_matrix': matrix,
               'classified_discrepancies': dict(sorted(symptoms.items(), key=lambda kv: -kv[1])[:150]),
               'configs': sorted({r['cfg'] for r in runs}), 'random_pairs': n_rand},
        assumptions=['Python 3.12.1 complex arithmetic is the reference; comparison is exact per component by repr',
                     'with cdivision=True a zero divisor must not raise; the value of such a quotient is not judged',
                     'the native/helper models in vlib/ref/cnum.py (ctypes calls into libgcc __muldc3/__divdc3 and libm cpow/cabs/'
                     'hypot/...) are used only to name the mechanism of a discrepancy, never to accept a value'])
