"""C21 Unbound local variables fail exactly where CPython fails (DESIGN.md section 5, C21).

flowgen functions (random structured control flow over a few variables; every condition tests one bit of the
argument) are compiled in default mode, in lenient mode (Options.error_on_uninitialized = False, which also admits
definitely-unbound reads) and - as the ablation that classifies discrepancies - with infer_types=False.  Every
function is called with every bit vector; outcome class, exception class and the ordered log are compared with
CPython executing the same source.
"""
import ast
import os
import re
import sys
import types

from vlib import cy, diff
from vlib.gen import flowgen

COMPARE = {'exc_args': False, 'log': True}
PLUGIN = 'vlib.mon.infer_mon'


def build(tree, srcs, subdir, directives=None, global_options=None):
    """translate (with the in-compiler monitor) + C build; -> (dir, info) with info[mod]['plugin'] / ['warnings']"""
    d = tree.subdir(subdir)
    jobs, names = [], []
    for name, text in srcs.items():
        p = os.path.join(d, name + '.py')
        with open(p, 'w', encoding='utf-8') as f:
            f.write(text)
        j = {'src': p, 'directives': directives or {}}
        if global_options:
            j['global_options'] = global_options
        jobs.append(j)
        names.append(name)
    tres, _ = tree.translate(jobs, plugins=[PLUGIN], timeout=3600)
    info = {}
    for name, j, r in zip(names, jobs, tres):
        info[name] = {'src': j['src'], 'c': r.get('c'), 'so': None, 'ok': False, 'stage': 'translate',
                      'errors': (r.get('exc') or '') + (r.get('errors') or ''), 'crash': bool(r.get('exc')),
                      'plugin': (r.get('plugin') or {}).get(PLUGIN, {}), 'translated': bool(r['ok'])}
    tob = [n for n in names if info[n]['translated']]
    for n, b in zip(tob, tree.cbuild_many([info[n]['c'] for n in tob], timeout=3600)):
        info[n]['stage'] = 'cc'
        info[n]['so'] = b['so']
        info[n]['ok'] = b['ok']
        if not b['ok']:
            info[n]['errors'] = b['err']
    return d, info


def definitely_unbound_functions(msgs, funcs, src):
    """functions in which the compiler reports a *definitely* unbound read/del ("referenced before assignment", not
    "might be"; complete list from the in-compiler monitor): these are compile errors in default mode"""
    starts = []
    for i, ln in enumerate(src.splitlines(), 1):
        m = re.match(r'def (fz\d+z)\(', ln)
        if m:
            starts.append((i, m.group(1)))
    out = set()
    for line, var, kind, level in msgs:
        if kind != 'definite':
            continue
        owner = None
        for s, name in starts:
            if s <= line:
                owner = name
        if owner:
            out.add(owner)
    return out


def reference_stats(src, funcs):
    """execute the module under CPython in this process (generated pure Python, no compiler involved) and measure how
    often reads find the variable unbound: the generator must probe the boundary"""
    m = types.ModuleType('c21ref')
    exec(compile(src, 'c21ref', 'exec'), m.__dict__)
    logs = []
    m.log = logs.append
    reads = unbound = calls = raised = 0
    for f in funcs:
        fn = getattr(m, f['name'])
        for b in range(2 ** f['nbits']):
            del logs[:]
            calls += 1
            try:
                fn(b)
            except NameError:
                raised += 1
                unbound += 1
                reads += 1
            except Exception:
                pass
            for it in logs:
                if isinstance(it, tuple) and it and it[0] in ('unb', 'del'):
                    unbound += 1
                reads += 1
    return {'calls': calls, 'calls_raising_nameerror': raised, 'reads': reads, 'unbound_reads': unbound}


def nested_finally_jump_sites(src):
    """jump statements whose way through nested try/finally statements the flow graph may misrepresent ->
    {line: (kind, nesting, rebinds)}
    * break / continue leaving >= 2 nested try/finally statements of their loop; rebinds: one of the *outer* (not the
      innermost) `finally` clauses binds or unbinds a tracked variable (assignment, del, loop target, except-as, match capture);
    * return inside >= 3 nested try/finally statements; rebinds: code that the return skips between the second
      innermost `finally` and an outer one (statements following the nested statement inside the outer try bodies) binds
      or unbinds a name."""
    sites = {}

    def rebinds(stmts):
        for st in stmts:
            for nd in ast.walk(st):
                if isinstance(nd, ast.Name) and isinstance(nd.ctx, (ast.Store, ast.Del)) and nd.id in flowgen.VARS:
                    return True
                if isinstance(nd, ast.ExceptHandler) and nd.name in flowgen.VARS:
                    return True
                if isinstance(nd, (ast.MatchAs, ast.MatchStar)) and nd.name in flowgen.VARS:
                    return True
        return False

    def walk(stmts, fins, allfins, rests):
        # fins: finally clauses between the enclosing loop and here, outermost first; allfins: same, whole function;
        # rests: (number of enclosing try/finally, statements following the statement we are in) per statement list
        for i, st in enumerate(stmts):
            r2 = rests + [(len(allfins), stmts[i + 1:])]
            if isinstance(st, (ast.Break, ast.Continue)):
                if len(fins) >= 2:
                    sites[st.lineno] = ('break' if isinstance(st, ast.Break) else 'continue', len(fins),
                                        any(rebinds(f) for f in fins[:-1]))
            elif isinstance(st, ast.Return):
                k = len(allfins)
                if k >= 3:
                    sites[st.lineno] = ('return', k, any(rebinds(rs) for d, rs in rests if 1 <= d <= k - 2))
            elif isinstance(st, (ast.For, ast.While)):
                walk(st.body, [], allfins, r2)
                walk(st.orelse, fins, allfins, r2)
            elif isinstance(st, ast.Try):
                inner = fins + [st.finalbody] if st.finalbody else fins
                ainner = allfins + [st.finalbody] if st.finalbody else allfins
                walk(st.body, inner, ainner, r2)
                for h in st.handlers:
                    walk(h.body, inner, ainner, r2)
                walk(st.orelse, inner, ainner, r2)
                walk(st.finalbody, fins, allfins, r2)
            elif isinstance(st, (ast.FunctionDef, ast.ClassDef)):
                continue
            elif isinstance(st, ast.Match):
                for c in st.cases:
                    walk(c.body, fins, allfins, r2)
            else:
                for fld in ('body', 'orelse'):
                    sub = getattr(st, fld, None)
                    if isinstance(sub, list):
                        walk(sub, fins, allfins, r2)

    for nd in ast.parse(src).body:
        if isinstance(nd, ast.FunctionDef):
            walk(nd.body, [], [], [])
    return sites


def binding_lines(fnode):
    """line -> [(var, 'bind'|'del')] for the statements of one function (nested functions excluded)"""
    out = {}

    def visit(nd):
        for ch in ast.iter_child_nodes(nd):
            if isinstance(ch, (ast.FunctionDef, ast.Lambda, ast.ClassDef)):
                continue
            if isinstance(ch, ast.Name) and isinstance(ch.ctx, (ast.Store, ast.Del)):
                out.setdefault(ch.lineno, []).append((ch.id, 'del' if isinstance(ch.ctx, ast.Del) else 'bind'))
            elif isinstance(ch, ast.ExceptHandler) and ch.name:
                out.setdefault(ch.lineno, []).append((ch.name, 'bind'))
            elif isinstance(ch, (ast.MatchAs, ast.MatchStar)) and ch.name:
                out.setdefault(ch.lineno, []).append((ch.name, 'bind'))
            visit(ch)

    visit(fnode)
    return out


def reference_events(src, fname, b):
    """what CPython does for fname(b) (generated pure Python, run in this process): ordered events
    ('line', n) / ('log',) / ('nameerror', line, variable)"""
    m = types.ModuleType('c21trace')
    exec(compile(src, 'c21trace', 'exec'), m.__dict__)
    ev = []
    m.log = lambda x: ev.append(('log',))

    def tr(frame, event, arg):
        if frame.f_code.co_filename != 'c21trace':
            return None
        if frame.f_code.co_name == fname:
            if event == 'line':
                ev.append(('line', frame.f_lineno))
            elif event == 'exception' and isinstance(arg[1], NameError):
                mm = re.search(r"'(\w+)'", str(arg[1]))     # (UnboundLocalError has no .name in 3.12)
                e = ('nameerror', frame.f_lineno, mm.group(1) if mm else None)
                if not (ev and ev[-1] == e):
                    ev.append(e)
        return tr

    old = sys.gettrace()
    sys.settrace(tr)
    try:
        getattr(m, fname)(b)
    except Exception:
        pass
    finally:
        sys.settrace(old)
    return ev


PARTIAL = """
import os, sys
sys.path.insert(0, sys.argv[1])
import importlib
M = importlib.import_module(sys.argv[2])
assert M.__file__.endswith('.so'), M.__file__
M.log = lambda x: os.write(2, b'@L@\\n')
try:
    getattr(M, sys.argv[3])(int(sys.argv[4]))
except BaseException:
    pass
os.write(2, b'@END@\\n')
"""


def crash_site(tree, builddir, mod, f, b):
    """where did the compiled function crash?  It is run once more in its own process with a `log` that writes a mark per
    call; n marks -> the crash lies between CPython's n-th and (n+1)-th log call.
    -> (indices of the events in that window at which CPython finds a variable unbound - the compiled function handled
    all but the last one it reached -, events, (start, end) of the window) or None"""
    from vlib import core
    r = core.run([core.PY, '-c', PARTIAL, builddir, mod, f['name'], str(b)], env=tree.env(), timeout=120)
    if '@END@' in (r.err or ''):
        return None                      # did not crash this time
    n = (r.err or '').count('@L@')
    ev = reference_events(flowgen.HEADER + f['src'], f['name'], b)
    seen = 0
    start = end = None
    for i, e in enumerate(ev):
        if seen == n and start is None:
            start = i
        if e[0] == 'log':
            seen += 1
            if seen > n:
                end = i
                break
    if start is None:
        return None
    if end is None:
        end = len(ev)
    ne = [i for i in range(start, end) if ev[i][0] == 'nameerror']
    return ne, ev, (start, end)


def jump_classification(f, case, site=None):
    """mechanism key of the known flow-graph defect (jumps through nested try/finally), else None.
    With `site` (crash_site; the jump is a break/continue leaving >= 2 nested try/finally statements of its loop or a
    return inside >= 3 nested ones, "outer" = the clauses the flow graph does not route that jump through): the crashing
    unbound read/del or assignment-to-unbound lies inside an outer `finally` clause the jump is running, or the variable
    was last unbound by a `del` in such a clause, or a return was taken that skips code rebinding a variable.
    Without: for this input CPython takes such a break/continue (an outer `finally` binds/unbinds a name) / return."""
    src = flowgen.HEADER + f['src']
    tree_ = ast.parse(src)
    fnode = [nd for nd in tree_.body if isinstance(nd, ast.FunctionDef) and nd.name == f['name']][0]
    sites = nested_finally_jump_sites(src)
    if not sites and site is None:
        return None
    b = int(re.match(r'\((\d+),\)', case['a']).group(1))
    if site is None:
        lines = {e[1] for e in reference_events(src, f['name'], b) if e[0] == 'line'}
        hit = sorted({sites[ln][0] for ln in lines if ln in sites and sites[ln][2]})
        return 'jump-through-nested-finally:%s:outer-levels-rebind' % '+'.join(hit) if hit else None
    nes, ev, (wstart, wend) = site
    bl = binding_lines(fnode)
    jumps = {nd.lineno for nd in ast.walk(fnode) if isinstance(nd, (ast.Break, ast.Continue, ast.Return))}

    def last_jump(before):
        for i in range(before - 1, -1, -1):
            if ev[i][0] == 'line' and ev[i][1] in jumps:
                return ev[i][1]
        return None

    def last_binding(v, before):
        """index of the last executed line that binds/unbinds v, and whether it is a `del`"""
        for i in range(before - 1, -1, -1):
            if ev[i][0] == 'line' and any(u == v for u, _ in bl.get(ev[i][1], [])):
                return i, any(u == v and k == 'del' for u, k in bl[ev[i][1]])
        return None, False

    def key(j, what):
        return 'jump-through-nested-finally:%s:%s' % (sites[j][0], what)

    def at_unbound_use(pos):
        """the crash is the read/del at which CPython finds a variable unbound (event index pos)"""
        var = ev[pos][2]
        j = last_jump(pos)
        if j in sites:
            if ev[pos][1] in outer_finally_lines(fnode, j, sites[j][0]):
                # ... inside an outer `finally` clause that the jump is running
                return key(j, 'outer-levels-read-unbound')
        cause, is_del = last_binding(var, pos)
        if is_del:
            j = last_jump(cause)
            if j in sites and sites[j][0] != 'return' and ev[cause][1] in outer_finally_lines(fnode, j, sites[j][0]):
                # ... and the variable was unbound by an outer `finally` clause of a break/continue
                return key(j, 'outer-levels-rebind')
        j = last_jump(pos)
        if j in sites and sites[j][0] == 'return' and sites[j][2]:
            return key(j, 'outer-levels-rebind')
        if is_del and del_in_try_seen_from_handler(fnode, ev[cause][1], ev[pos][1]):
            return 'del-in-try-body-not-seen-by-handler-or-finally'
        return None
    for pos in nes:
        k_ = at_unbound_use(pos)
        if k_:
            return k_
    # (or) an assignment to a variable that is unbound at that point (CPython: fine; compiled:
    # decref of NULL) - inside an outer `finally` clause the jump is running, or the variable was unbound by a `del` in
    # an outer `finally` clause of a break/continue taken before
    for i in range(wstart, wend):
        if ev[i][0] != 'line':
            continue
        for v, k in bl.get(ev[i][1], []):
            if k != 'bind':
                continue
            cause, is_del = last_binding(v, i)
            if not is_del:
                continue
            j = last_jump(i)
            if j in sites and ev[i][1] in outer_finally_lines(fnode, j, sites[j][0]):
                return key(j, 'outer-levels-assign-unbound')
            j = last_jump(cause)
            if j in sites and sites[j][0] != 'return' and ev[cause][1] in outer_finally_lines(fnode, j, sites[j][0]):
                return key(j, 'outer-levels-rebind')
            if del_in_try_seen_from_handler(fnode, ev[cause][1], ev[i][1]):
                return 'del-in-try-body-not-seen-by-handler-or-finally'
    return None


def del_in_try_seen_from_handler(fnode, del_line, use_line):
    """is del_line inside the body of a try statement and use_line inside one of that statement's except handlers or its
    `finally` clause?  (FlowControl.visit_DelStatNode adds no edge to the exception entry point after a deletion, so a
    handler reached by an exception raised later in the same block is analysed as if the variable were still bound)"""
    def lines(stmts):
        return {nd.lineno for st in stmts for nd in ast.walk(st) if hasattr(nd, 'lineno')}
    for nd in ast.walk(fnode):
        if isinstance(nd, ast.Try) and del_line in lines(nd.body):
            if use_line in lines(nd.finalbody) or any(use_line in lines(h.body) for h in nd.handlers):
                return True
    return False


def outer_finally_lines(fnode, jump_line, kind):
    """lines of the `finally` clauses a jump at jump_line runs but the flow graph does not route it through: all but the
    innermost one of its loop (break/continue), all but the two innermost ones of the function (return)"""
    res = set()
    skip = 2 if kind == 'return' else 1

    def walk(stmts, fins, allfins):
        for st in stmts:
            if isinstance(st, (ast.Break, ast.Continue, ast.Return)) and st.lineno == jump_line:
                use = allfins if isinstance(st, ast.Return) else fins
                for fb in use[:max(0, len(use) - skip)]:
                    for s2 in fb:
                        for nd in ast.walk(s2):
                            if hasattr(nd, 'lineno'):
                                res.add(nd.lineno)
            elif isinstance(st, (ast.For, ast.While)):
                walk(st.body, [], allfins)
                walk(st.orelse, fins, allfins)
            elif isinstance(st, ast.Try):
                inner = fins + [st.finalbody] if st.finalbody else fins
                ainner = allfins + [st.finalbody] if st.finalbody else allfins
                walk(st.body, inner, ainner)
                for h in st.handlers:
                    walk(h.body, inner, ainner)
                walk(st.orelse, inner, ainner)
                walk(st.finalbody, fins, allfins)
            elif isinstance(st, (ast.FunctionDef, ast.ClassDef)):
                continue
            elif isinstance(st, ast.Match):
                for c in st.cases:
                    walk(c.body, fins, allfins)
            else:
                for fld in ('body', 'orelse'):
                    sub = getattr(st, fld, None)
                    if isinstance(sub, list):
                        walk(sub, fins, allfins)

    walk(fnode.body, [], [])
    return res


def _log_of(o):
    for x in o[2:]:
        if isinstance(x, list) and x and x[0] == 'log':
            return x[1]
    return []


def mentions_unbound(exp):
    """does CPython's observation involve an unbound variable at all (raised UnboundLocalError/NameError, or logged one
    through a guarded read/del)?"""
    if exp[0] == 'exc' and exp[1] in ('UnboundLocalError', 'NameError'):
        return True
    return any(e[0] == 'tuple' and e[1] and e[1][0] in (['str', "'unb'"], ['str', "'del'"]) for e in _log_of(exp))


def first_divergence(exp, got):
    """kind of the first log entry at which the two observations part: 'read' / 'del' (CPython logged an unbound
    read / del there) or None"""
    le, lg = _log_of(exp), _log_of(got)
    i = 0
    while i < len(le) and i < len(lg) and le[i] == lg[i]:
        i += 1
    if i > 0 and le[i - 1][0] == 'tuple' and le[i - 1][1] and le[i - 1][1][0] == ['str', "'predel'"]:
        return 'del'        # CPython raised at the unguarded `del` announced by the marker, the other run went on
    if i >= len(le):
        return None
    e = le[i]
    if e[0] == 'tuple' and e[1] and e[1][0] == ['str', "'unb'"]:
        return 'read'
    if e[0] == 'tuple' and e[1] and e[1][0] == ['str', "'del'"]:
        return 'del'
    return None


def outcome_class(o):
    return 'ok' if o[0] == 'ok' else 'exc:' + o[1]


def main(ck):
    tree = cy.Tree('C21')
    rng = ck.rng('flow')
    nfuncs = int(os.environ.get('C21_NFUNCS') or ck.pick(128, 640))   # (env override: development aid only)
    per_mod = ck.pick(16, 40)
    mods = {}
    fmap = {}
    stats = {'calls': 0, 'calls_raising_nameerror': 0, 'reads': 0, 'unbound_reads': 0}
    feat = {}
    for mi in range(0, nfuncs, per_mod):
        name = 'c21m%d' % (mi // per_mod)
        funcs = flowgen.gen_module(rng, min(per_mod, nfuncs - mi), start=mi)
        src = flowgen.module_source(funcs)
        mods[name] = (src, funcs)
        for f in funcs:
            fmap[f['name']] = (name, f)
            for x in f['feat']:
                feat[x] = feat.get(x, 0) + 1
        st = reference_stats(src, funcs)
        for k in stats:
            stats[k] += st[k]
    # ---------------------------------------------------------------- builds
    lenient_srcs = {n: s for n, (s, _) in mods.items()}
    dl, il = build(tree, lenient_srcs, 'lenient', global_options={'error_on_uninitialized': False})
    excluded = set()
    default_srcs = {}
    default_funcs = {}
    for n, (s, funcs) in mods.items():
        bad = definitely_unbound_functions(il[n]['plugin'].get('unbound_msgs', []), funcs, s)
        excluded |= bad
        keep = [f for f in funcs if f['name'] not in bad]
        default_funcs[n] = keep
        default_srcs[n] = flowgen.module_source(keep)
    dd, idf = build(tree, default_srcs, 'default')
    skipped = 0
    inferred = []
    names = {}
    ck.cov['build_wall_s'] = round(ck.elapsed(), 1)
    for cfg, info in (('lenient', il), ('default', idf)):
        for n, inf in info.items():
            if not inf['ok']:
                skipped += 1
                ck.note('build failure %s/%s at %s: %s' % (cfg, n, inf['stage'], inf['errors'][-600:]))
            if cfg == 'lenient':
                inferred += inf['plugin'].get('inferred', [])
                for k, v in inf['plugin'].get('names', {}).items():
                    names[k] = names.get(k, 0) + v
    # ---------------------------------------------------------------- run
    total_n = total_distinct = 0
    samples = []
    hist = {}
    nmis = {'default': 0, 'lenient': 0}
    ablation_gone = ablation_same = 0
    pending = []       # (cfg, module, DiffResult)
    for cfg, d, info, fsel in (('default', dd, idf, default_funcs), ('lenient', dl, il, {n: f for n, (s, f) in mods.items()})):
        for n, inf in info.items():
            if not inf['ok']:
                continue
            cases = []
            for f in fsel[n]:
                tag = '%s/%db' % (cfg, f['nbits'])
                for b in range(2 ** f['nbits']):
                    cases.append({'f': f['name'], 'a': '(%d,)' % b, 't': tag})
            res = diff.run_cases(tree, d, n, cases, ref=inf['src'], compare=COMPARE, tagdir='run_%s_%s' % (cfg, n),
                                 timeout=3600, nproc=4, max_restarts=120)
            total_n += res.n
            total_distinct += res.distinct
            samples.extend(res.samples[:1])
            for k, v in res.hist.items():
                hist[k] = hist.get(k, 0) + v
            pending.append((cfg, n, res))
            for ft in res.fatal:
                ck.inconclusive_if(True, 'driver failed for %s/%s: %s' % (cfg, n, str(ft)[-300:]))
    # ablation: every function that showed a discrepancy, compiled with infer_types=False (lenient), in one batch
    mis_funcs = sorted({m['case']['f'] for _, _, res in pending for m in res.mismatches} |
                       {c['case']['f'] for _, _, res in pending for c in res.crashes if not c['kind'].startswith('HANG')},
                       key=lambda x: int(x[2:-1]))
    abl_obs = {}       # (function, args) -> observation of the ablation build ('same-as-cpython' if it agrees)
    if mis_funcs:
        per = max(10, (len(mis_funcs) + 7) // 8)
        asrcs = {}
        for i in range(0, len(mis_funcs), per):
            asrcs['c21abl%d' % (i // per)] = mis_funcs[i:i + per]
        da, ia = build(tree, {an: flowgen.module_source([fmap[x][1] for x in anames]) for an, anames in asrcs.items()}, 'abl',
                       directives={'infer_types': False}, global_options={'error_on_uninitialized': False})
        for an, anames in asrcs.items():
            if not ia[an]['ok']:
                ck.note('ablation build failed for %s: %s' % (an, ia[an]['errors'][-400:]))
                continue
            nameset = set(anames)
            acases = []
            seen = set()
            for _, _, res in pending:
                for c in [m['case'] for m in res.mismatches] + [c['case'] for c in res.crashes]:
                    if c['f'] in nameset and (c['f'], c['a']) not in seen:
                        seen.add((c['f'], c['a']))
                        acases.append(c)
            r2 = diff.run_cases(tree, da, an, acases, ref=ia[an]['src'], compare=COMPARE, tagdir='ablrun_' + an,
                                timeout=3600, nproc=4)
            for c in acases:
                abl_obs[(c['f'], c['a'])] = 'agrees'
            for m in r2.mismatches:
                abl_obs[(m['case']['f'], m['case']['a'])] = m['got']
            for c in r2.crashes:
                abl_obs[(c['case']['f'], c['case']['a'])] = ['crash']
    site_keys = {}
    for cfg, n, res in pending:
        for m in res.mismatches:
            nmis[cfg] += 1
            f = fmap[m['case']['f']][1]
            got2 = abl_obs.get((m['case']['f'], m['case']['a']), 'unknown')
            a = 'gone' if got2 == 'agrees' else 'unknown' if got2 == 'unknown' else 'same'
            ablation_gone += a == 'gone'
            ablation_same += a == 'same'
            ec, gc = outcome_class(m['exp']), outcome_class(m['got'])
            jk = jump_classification(f, m['case']) if a != 'gone' else None
            if jk:
                # the input takes a break/continue out of nested try/finally statements whose outer `finally` changes
                # what is bound; the flow graph routes such a jump through the innermost `finally` only
                key = jk
            elif a == 'gone' and mentions_unbound(m['exp']):
                # CPython found a variable unbound (raised, or logged it through a guarded read); the compiled function went
                # on with a value; the whole discrepancy disappears without type inference
                key = 'unbound-read-of-C-inferred-local'
            elif a == 'same' and cfg == 'lenient' and f['name'] in excluded and isinstance(got2, list) and \
                    first_divergence(m['exp'], got2) == 'del':
                # what remains without type inference starts at a `del v` of a definitely unbound variable (the function
                # is a compile error in default mode): lenient mode generates no code at all for that del
                key = 'del-of-definitely-unbound-local-is-noop'
            else:
                key = 'unbound:%s->%s:ablation-%s' % (ec, gc, a)
            ck.discrepancy(key, '%s(%s) [%s mode]: CPython %s, compiled %s; with infer_types=False the discrepancy is %s'
                           % (f['name'], m['case']['a'], cfg, str(m['exp'])[:200], str(m['got'])[:200], a),
                           {'function_source': flowgen.HEADER + f['src'], 'ext': '.py', 'case': m['case'],
                            'compare': COMPARE, 'cflags': [], 'directives': {}, 'mode': cfg,
                            'global_options': {} if cfg == 'default' else {'error_on_uninitialized': False},
                            'expected': m['exp'], 'observed': m['got'], 'ablation_infer_types_false': a,
                            'observed_infer_types_false': got2, 'profile': f['profile']})
        for c in res.crashes:
            f = fmap[c['case']['f']][1]
            if c['kind'].startswith('HANG'):
                ck.inconclusive_if(True, 'watchdog fired on %s%s' % (f['name'], c['case']['a']))
                continue
            got2 = abl_obs.get((c['case']['f'], c['case']['a']), 'unknown')
            a = 'gone' if got2 == 'agrees' else 'unknown' if got2 == 'unknown' else 'same'
            bval = int(re.match(r'\((\d+),\)', c['case']['a']).group(1))
            if (f['name'], bval) not in site_keys:      # (same source and same flow analysis in both modes)
                site = crash_site(tree, dd if cfg == 'default' else dl, n, f, bval)
                site_keys[(f['name'], bval)] = jump_classification(f, c['case'], site) if site else None
            jk = site_keys[(f['name'], bval)]
            ck.discrepancy(jk + ':crash' if jk else 'crash:ablation-%s' % a,
                           'crash %s in %s%s [%s mode]' % (c['kind'], f['name'], c['case']['a'], cfg),
                           {'function_source': flowgen.HEADER + f['src'], 'ext': '.py', 'case': c['case'], 'mode': cfg,
                            'global_options': {} if cfg == 'default' else {'error_on_uninitialized': False},
                            'stderr': c['stderr']})
    # ---------------------------------------------------------------- reach
    frac = stats['unbound_reads'] / max(1, stats['reads'])
    ck.inconclusive_if(not (0.05 <= frac <= 0.60), 'fraction of reads CPython finds unbound is %.3f (outside 5-60%%)' % frac)
    ck.inconclusive_if(skipped > 0, '%d module build(s) failed' % skipped)
    checked = sum(v for k, v in names.items() if k.startswith(('maybe_null', 'is_null')))
    ck.inconclusive_if(checked == 0, 'the in-compiler monitor saw no maybe-unbound local read')
    c_inferred_unbound = [x for x in inferred if x[3]]
    return ck.finish(
        total_n, total_distinct,
        'flowgen functions (2-4 variables, control-flow depth <= 4: if/elif/else, for/while with break/continue/else, '
        'try/except/else/finally, with, del, match, comprehensions, closures/nonlocal, except-as and loop targets) called '
        'with every bit vector that selects a path; compared with CPython executing the same source: outcome class, '
        'exception class (UnboundLocalError/NameError, message not compared) and the ordered log. distinct = distinct '
        '(function, CPython outcome); evaluated in default mode and in lenient mode (error_on_uninitialized=False)',
        samples,
        extra={'functions': nfuncs, 'functions_excluded_from_default_mode_definitely_unbound': len(excluded),
               'reference_read_stats': stats, 'fraction_reads_unbound': round(frac, 4),
               'namenode_reads_compiled': names, 'locals_inferred_as_C_types': len(inferred),
               'locals_inferred_as_C_types_with_maybe_unbound_read': len(c_inferred_unbound),
               'sample_C_inferred_maybe_unbound': c_inferred_unbound[:5],
               'mismatches_by_mode': nmis, 'ablation': {'gone_without_inference': ablation_gone, 'same': ablation_same},
               'construct_histogram': feat, 'outcome_hist': dict(sorted(hist.items(), key=lambda kv: -kv[1])[:30])},
        assumptions=['CPython 3.12.1 executing the identical source is the reference',
                     'exception class is compared, not the message text (DESIGN C21)',
                     'garbage values read from uninitialised C locals are never compared with anything: the case is '
                     'classified by the infer_types=False ablation'])


def replay(ck, data):
    w = data.get('witness', data)
    tree = cy.Tree('C21r')
    d, info = build(tree, {'replaymod': w['function_source']}, 'r', global_options=w.get('global_options') or None)
    inf = info['replaymod']
    if not inf['ok']:
        print('build failed at', inf['stage'], inf['errors'][-2000:])
        return 2
    res = diff.run_cases(tree, d, 'replaymod', [w['case']], ref=inf['src'], compare=COMPARE, nproc=1)
    for m in res.mismatches:
        print('expected', m['exp'])
        print('observed', m['got'])
    for c in res.crashes:
        print('crash', c['kind'], c['stderr'][-1500:])
    if res.mismatches or res.crashes:
        print('VIOLATION property=%s replay=<replayed>' % ck.pid)
        return 1
    print('replay: case now agrees with the reference (%d evaluated)' % res.n)
    return 0
