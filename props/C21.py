"""C21 Unbound local variables fail exactly where CPython fails (DESIGN.md section 5, C21).

flowgen functions (random structured control flow over a few variables; every condition tests one bit of the
argument) are compiled in default mode, in lenient mode (Options.error_on_uninitialized = False, which also admits
definitely-unbound reads) and - as the ablation that classifies discrepancies - with infer_types=False.  Every
function is called with every bit vector; outcome class, exception class and the ordered log are compared with
CPython executing the same source.
"""
import os
import re
import types

from vlib import cy, diff
from vlib.gen import flowgen

COMPARE = {'exc_args': False, 'log': True}
PLUGIN = 'vlib.mon.infer_mon'


def build(tree, srcs, subdir, directives=None, global_options=None):
    """translate (with the in-compiler monitor) + C build; -> (dir, info) with info[mod]['plugin'] / ['warnings']"""
    d = tree.subdir(subdir)
    jobs, names = [], []
    for name, text in srcs.items():
        p = os.path.join(d, name + '.py')
        with open(p, 'w', encoding='utf-8') as f:
            f.write(text)
        j = {'src': p, 'directives': directives or {}}
        if global_options:
            j['global_options'] = global_options
        jobs.append(j)
        names.append(name)
    tres, _ = tree.translate(jobs, plugins=[PLUGIN], timeout=3600)
    info = {}
    for name, j, r in zip(names, jobs, tres):
        info[name] = {'src': j['src'], 'c': r.get('c'), 'so': None, 'ok': False, 'stage': 'translate',
                      'errors': (r.get('exc') or '') + (r.get('errors') or ''), 'crash': bool(r.get('exc')),
                      'plugin': (r.get('plugin') or {}).get(PLUGIN, {}), 'translated': bool(r['ok'])}
    tob = [n for n in names if info[n]['translated']]
    for n, b in zip(tob, tree.cbuild_many([info[n]['c'] for n in tob], timeout=3600)):
        info[n]['stage'] = 'cc'
        info[n]['so'] = b['so']
        info[n]['ok'] = b['ok']
        if not b['ok']:
            info[n]['errors'] = b['err']
    return d, info


def definitely_unbound_functions(msgs, funcs, src):
    """functions in which the compiler reports a *definitely* unbound read/del ("referenced before assignment", not
    "might be"; complete list from the in-compiler monitor): these are compile errors in default mode"""
    starts = []
    for i, ln in enumerate(src.splitlines(), 1):
        m = re.match(r'def (fz\d+z)\(', ln)
        if m:
            starts.append((i, m.group(1)))
    out = set()
    for line, var, kind, level in msgs:
        if kind != 'definite':
            continue
        owner = None
        for s, name in starts:
            if s <= line:
                owner = name
        if owner:
            out.add(owner)
    return out


def reference_stats(src, funcs):
    """execute the module under CPython in this process (generated pure Python, no compiler involved) and measure how
    often reads find the variable unbound: the generator must probe the boundary"""
    m = types.ModuleType('c21ref')
    exec(compile(src, 'c21ref', 'exec'), m.__dict__)
    logs = []
    m.log = logs.append
    reads = unbound = calls = raised = 0
    for f in funcs:
        fn = getattr(m, f['name'])
        for b in range(2 ** f['nbits']):
            del logs[:]
            calls += 1
            try:
                fn(b)
            except NameError:
                raised += 1
                unbound += 1
                reads += 1
            except Exception:
                pass
            for it in logs:
                if isinstance(it, tuple) and it and it[0] in ('unb', 'del'):
                    unbound += 1
                reads += 1
    return {'calls': calls, 'calls_raising_nameerror': raised, 'reads': reads, 'unbound_reads': unbound}


def _log_of(o):
    for x in o[2:]:
        if isinstance(x, list) and x and x[0] == 'log':
            return x[1]
    return []


def mentions_unbound(exp):
    """does CPython's observation involve an unbound variable at all (raised UnboundLocalError/NameError, or logged one
    through a guarded read/del)?"""
    if exp[0] == 'exc' and exp[1] in ('UnboundLocalError', 'NameError'):
        return True
    return any(e[0] == 'tuple' and e[1] and e[1][0] in (['str', "'unb'"], ['str', "'del'"]) for e in _log_of(exp))


def first_divergence(exp, got):
    """kind of the first log entry at which the two observations part: 'read' / 'del' (CPython logged an unbound
    read / del there) or None"""
    le, lg = _log_of(exp), _log_of(got)
    i = 0
    while i < len(le) and i < len(lg) and le[i] == lg[i]:
        i += 1
    if i > 0 and le[i - 1][0] == 'tuple' and le[i - 1][1] and le[i - 1][1][0] == ['str', "'predel'"]:
        return 'del'        # CPython raised at the unguarded `del` announced by the marker, the other run went on
    if i >= len(le):
        return None
    e = le[i]
    if e[0] == 'tuple' and e[1] and e[1][0] == ['str', "'unb'"]:
        return 'read'
    if e[0] == 'tuple' and e[1] and e[1][0] == ['str', "'del'"]:
        return 'del'
    return None


def outcome_class(o):
    return 'ok' if o[0] == 'ok' else 'exc:' + o[1]


def main(ck):
    tree = cy.Tree('C21')
    rng = ck.rng('flow')
    nfuncs = int(os.environ.get('C21_NFUNCS') or ck.pick(128, 640))   # (env override: development aid only)
    per_mod = ck.pick(16, 40)
    mods = {}
    fmap = {}
    stats = {'calls': 0, 'calls_raising_nameerror': 0, 'reads': 0, 'unbound_reads': 0}
    feat = {}
    for mi in range(0, nfuncs, per_mod):
        name = 'c21m%d' % (mi // per_mod)
        funcs = flowgen.gen_module(rng, min(per_mod, nfuncs - mi), start=mi)
        src = flowgen.module_source(funcs)
        mods[name] = (src, funcs)
        for f in funcs:
            fmap[f['name']] = (name, f)
            for x in f['feat']:
                feat[x] = feat.get(x, 0) + 1
        st = reference_stats(src, funcs)
        for k in stats:
            stats[k] += st[k]
    # ---------------------------------------------------------------- builds
    lenient_srcs = {n: s for n, (s, _) in mods.items()}
    dl, il = build(tree, lenient_srcs, 'lenient', global_options={'error_on_uninitialized': False})
    excluded = set()
    default_srcs = {}
    default_funcs = {}
    for n, (s, funcs) in mods.items():
        bad = definitely_unbound_functions(il[n]['plugin'].get('unbound_msgs', []), funcs, s)
        excluded |= bad
        keep = [f for f in funcs if f['name'] not in bad]
        default_funcs[n] = keep
        default_srcs[n] = flowgen.module_source(keep)
    dd, idf = build(tree, default_srcs, 'default')
    skipped = 0
    inferred = []
    names = {}
    ck.cov['build_wall_s'] = round(ck.elapsed(), 1)
    for cfg, info in (('lenient', il), ('default', idf)):
        for n, inf in info.items():
            if not inf['ok']:
                skipped += 1
                ck.note('build failure %s/%s at %s: %s' % (cfg, n, inf['stage'], inf['errors'][-600:]))
            if cfg == 'lenient':
                inferred += inf['plugin'].get('inferred', [])
                for k, v in inf['plugin'].get('names', {}).items():
                    names[k] = names.get(k, 0) + v
    # ---------------------------------------------------------------- run
    total_n = total_distinct = 0
    samples = []
    hist = {}
    nmis = {'default': 0, 'lenient': 0}
    ablation_gone = ablation_same = 0
    pending = []       # (cfg, module, DiffResult)
    for cfg, d, info, fsel in (('default', dd, idf, default_funcs), ('lenient', dl, il, {n: f for n, (s, f) in mods.items()})):
        for n, inf in info.items():
            if not inf['ok']:
                continue
            cases = []
            for f in fsel[n]:
                tag = '%s/%db' % (cfg, f['nbits'])
                for b in range(2 ** f['nbits']):
                    cases.append({'f': f['name'], 'a': '(%d,)' % b, 't': tag})
            res = diff.run_cases(tree, d, n, cases, ref=inf['src'], compare=COMPARE, tagdir='run_%s_%s' % (cfg, n),
                                 timeout=3600, nproc=4)
            total_n += res.n
            total_distinct += res.distinct
            samples.extend(res.samples[:1])
            for k, v in res.hist.items():
                hist[k] = hist.get(k, 0) + v
            pending.append((cfg, n, res))
            for ft in res.fatal:
                ck.inconclusive_if(True, 'driver failed for %s/%s: %s' % (cfg, n, str(ft)[-300:]))
    # ablation: every function that showed a discrepancy, compiled with infer_types=False (lenient), in one batch
    mis_funcs = sorted({m['case']['f'] for _, _, res in pending for m in res.mismatches} |
                       {c['case']['f'] for _, _, res in pending for c in res.crashes if not c['kind'].startswith('HANG')},
                       key=lambda x: int(x[2:-1]))
    abl_obs = {}       # (function, args) -> observation of the ablation build ('same-as-cpython' if it agrees)
    if mis_funcs:
        per = max(10, (len(mis_funcs) + 7) // 8)
        asrcs = {}
        for i in range(0, len(mis_funcs), per):
            asrcs['c21abl%d' % (i // per)] = mis_funcs[i:i + per]
        da, ia = build(tree, {an: flowgen.module_source([fmap[x][1] for x in anames]) for an, anames in asrcs.items()}, 'abl',
                       directives={'infer_types': False}, global_options={'error_on_uninitialized': False})
        for an, anames in asrcs.items():
            if not ia[an]['ok']:
                ck.note('ablation build failed for %s: %s' % (an, ia[an]['errors'][-400:]))
                continue
            nameset = set(anames)
            acases = []
            seen = set()
            for _, _, res in pending:
                for c in [m['case'] for m in res.mismatches] + [c['case'] for c in res.crashes]:
                    if c['f'] in nameset and (c['f'], c['a']) not in seen:
                        seen.add((c['f'], c['a']))
                        acases.append(c)
            r2 = diff.run_cases(tree, da, an, acases, ref=ia[an]['src'], compare=COMPARE, tagdir='ablrun_' + an,
                                timeout=3600, nproc=4)
            for c in acases:
                abl_obs[(c['f'], c['a'])] = 'agrees'
            for m in r2.mismatches:
                abl_obs[(m['case']['f'], m['case']['a'])] = m['got']
            for c in r2.crashes:
                abl_obs[(c['case']['f'], c['case']['a'])] = ['crash']
    for cfg, n, res in pending:
        for m in res.mismatches:
            nmis[cfg] += 1
            f = fmap[m['case']['f']][1]
            got2 = abl_obs.get((m['case']['f'], m['case']['a']), 'unknown')
            a = 'gone' if got2 == 'agrees' else 'unknown' if got2 == 'unknown' else 'same'
            ablation_gone += a == 'gone'
            ablation_same += a == 'same'
            ec, gc = outcome_class(m['exp']), outcome_class(m['got'])
            if a == 'gone' and mentions_unbound(m['exp']):
                # CPython found a variable unbound (raised, or logged it through a guarded read); the compiled function went
                # on with a value; the whole discrepancy disappears without type inference
                key = 'unbound-read-of-C-inferred-local'
            elif a == 'same' and cfg == 'lenient' and f['name'] in excluded and isinstance(got2, list) and \
                    first_divergence(m['exp'], got2) == 'del':
                # what remains without type inference starts at a `del v` of a definitely unbound variable (the function
                # is a compile error in default mode): lenient mode generates no code at all for that del
                key = 'del-of-definitely-unbound-local-is-noop'
            else:
                key = 'unbound:%s->%s:ablation-%s' % (ec, gc, a)
            ck.discrepancy(key, '%s(%s) [%s mode]: CPython %s, compiled %s; with infer_types=False the discrepancy is %s'
                           % (f['name'], m['case']['a'], cfg, str(m['exp'])[:200], str(m['got'])[:200], a),
                           {'function_source': flowgen.HEADER + f['src'], 'ext': '.py', 'case': m['case'],
                            'compare': COMPARE, 'cflags': [], 'directives': {}, 'mode': cfg,
                            'global_options': {} if cfg == 'default' else {'error_on_uninitialized': False},
                            'expected': m['exp'], 'observed': m['got'], 'ablation_infer_types_false': a,
                            'observed_infer_types_false': got2, 'profile': f['profile']})
        for c in res.crashes:
            f = fmap[c['case']['f']][1]
            if c['kind'].startswith('HANG'):
                ck.inconclusive_if(True, 'watchdog fired on %s%s' % (f['name'], c['case']['a']))
                continue
            got2 = abl_obs.get((c['case']['f'], c['case']['a']), 'unknown')
            a = 'gone' if got2 == 'agrees' else 'unknown' if got2 == 'unknown' else 'same'
            ck.discrepancy('crash:ablation-%s' % a, 'crash %s in %s%s [%s mode]' % (c['kind'], f['name'], c['case']['a'], cfg),
                           {'function_source': flowgen.HEADER + f['src'], 'ext': '.py', 'case': c['case'], 'mode': cfg,
                            'global_options': {} if cfg == 'default' else {'error_on_uninitialized': False},
                            'stderr': c['stderr']})
    # ---------------------------------------------------------------- reach
    frac = stats['unbound_reads'] / max(1, stats['reads'])
    ck.inconclusive_if(not (0.05 <= frac <= 0.60), 'fraction of reads CPython finds unbound is %.3f (outside 5-60%%)' % frac)
    ck.inconclusive_if(skipped > 0, '%d module build(s) failed' % skipped)
    checked = sum(v for k, v in names.items() if k.startswith(('maybe_null', 'is_null')))
    ck.inconclusive_if(checked == 0, 'the in-compiler monitor saw no maybe-unbound local read')
    c_inferred_unbound = [x for x in inferred if x[3]]
    return ck.finish(
        total_n, total_distinct,
        'flowgen functions (2-4 variables, control-flow depth <= 4: if/elif/else, for/while with break/continue/else, '
        'try/except/else/finally, with, del, match, comprehensions, closures/nonlocal, except-as and loop targets) called '
        'with every bit vector that selects a path; compared with CPython executing the same source: outcome class, '
        'exception class (UnboundLocalError/NameError, message not compared) and the ordered log. distinct = distinct '
        '(function, CPython outcome); evaluated in default mode and in lenient mode (error_on_uninitialized=False)',
        samples,
        extra={'functions': nfuncs, 'functions_excluded_from_default_mode_definitely_unbound': len(excluded),
               'reference_read_stats': stats, 'fraction_reads_unbound': round(frac, 4),
               'namenode_reads_compiled': names, 'locals_inferred_as_C_types': len(inferred),
               'locals_inferred_as_C_types_with_maybe_unbound_read': len(c_inferred_unbound),
               'sample_C_inferred_maybe_unbound': c_inferred_unbound[:5],
               'mismatches_by_mode': nmis, 'ablation': {'gone_without_inference': ablation_gone, 'same': ablation_same},
               'construct_histogram': feat, 'outcome_hist': dict(sorted(hist.items(), key=lambda kv: -kv[1])[:30])},
        assumptions=['CPython 3.12.1 executing the identical source is the reference',
                     'exception class is compared, not the message text (DESIGN C21)',
                     'garbage values read from uninitialised C locals are never compared with anything: the case is '
                     'classified by the infer_types=False ablation'])


def replay(ck, data):
    w = data.get('witness', data)
    tree = cy.Tree('C21r')
    d, info = build(tree, {'replaymod': w['function_source']}, 'r', global_options=w.get('global_options') or None)
    inf = info['replaymod']
    if not inf['ok']:
        print('build failed at', inf['stage'], inf['errors'][-2000:])
        return 2
    res = diff.run_cases(tree, d, 'replaymod', [w['case']], ref=inf['src'], compare=COMPARE, nproc=1)
    for m in res.mismatches:
        print('expected', m['exp'])
        print('observed', m['got'])
    for c in res.crashes:
        print('crash', c['kind'], c['stderr'][-1500:])
    if res.mismatches or res.crashes:
        print('VIOLATION property=%s replay=<replayed>' % ck.pid)
        return 1
    print('replay: case now agrees with the reference (%d evaluated)' % res.n)
    return 0
