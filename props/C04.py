"""C04 overflowcheck reports exactly the overflowing C arithmetic (DESIGN.md section 5, C04).

Generated .pyx modules compiled with overflowcheck=True and overflowcheck.fold in {True, False}: one function per
(C type, operator in + - * unary- << // and language-level-2 '/'), constant operands on either side, and nested
side-effect-free expressions (cdef functions behind a dispatcher).  Every call is judged by the statement
(props/C04_env.judge): exact value or OverflowError when every operation fits its C result type, OverflowError when one does
not; spurious OverflowError is tolerated and counted per operator/type.  In-C sweeps (exhaustive for 8-bit, 16-bit
exhaustive in the thorough tier, pseudo-random for 32/64-bit) judge + - * << against a 128-bit oracle in a verbatim C block.
The thorough tier adds the portable (non-__builtin_*_overflow) branch of Overflow.c and a UBSan build."""
import glob
import json
import os
import re
import threading
from concurrent.futures import ThreadPoolExecutor

from vlib import core, creach, cy, diff
from props import C03_rows as R

CT = R.CT
MIN64 = -(1 << 63)
LIT = (64, True)                 # type of an unsuffixed literal (C long)
VARS = 'abcde'
BIN_TYPES = ['sc', 'uc', 's', 'us', 'i', 'ui', 'l', 'ul', 'll', 'ull', 'z', 'sz']
CONST_TYPES = ['i', 'ui', 'l', 'ul', 'll', 'z']
NEST_TYPES = ['i', 'ui', 'l', 'ul', 'll']
DIV2_TYPES = ['i', 'ui', 'l', 'll']
OPNAME = {'+': 'add', '-': 'sub', '*': 'mul', '<<': 'lshift', '//': 'floordiv', '/': 'classicdiv', 'neg': 'neg'}
HELPER_TYPE = {'int': (32, True), 'unsigned_int': (32, False), 'long': (64, True), 'unsigned_long': (64, False),
               'PY_LONG_LONG': (64, True), 'unsigned_PY_LONG_LONG': (64, False), 'Py_ssize_t': (64, True), 'size_t': (64, False)}


def tinfo(t):
    return CT[t][1], CT[t][2]


def promote(t1, t2=None):
    """C result type (bits, signed) of an operation on operands of the given (bits, signed) types; None for a
    mixed-sign combination at full width (not generated)"""
    ts = [t1] + ([t2] if t2 else [])
    bits = max([32] + [b for b, _ in ts])
    wide = [s for b, s in ts if b == bits]
    if not wide:
        return bits, True
    if all(wide):
        return bits, True
    if any(s for b, s in ts):          # unsigned at full width next to a signed operand
        if all(not s for b, s in ts if b == bits) and all(b < bits for b, s in ts if s):
            # the signed operand is strictly narrower ... C converts it to unsigned: only value preserving for
            # non-negative operands, which is what the generator guarantees for literals
            return bits, False
        return None
    return bits, False


# ------------------------------------------------------------------------------------------------ expression trees

def lit_text(c):
    if -(1 << 31) <= c < (1 << 31):
        return '(%d)' % c if c < 0 else str(c)
    raise ValueError(c)


def pyx_expr(n):
    k = n[0]
    if k == 'v':
        return VARS[n[1]]
    if k == 'c':
        return lit_text(n[1])
    if k == 'neg':
        return '(-%s)' % pyx_expr(n[1])
    return '(%s %s %s)' % (pyx_expr(n[1]), k, pyx_expr(n[2]))


def ref_expr(n):
    """python text of the reference model of tree n"""
    k = n[0]
    if k == 'v':
        return VARS[n[1]]
    if k == 'c':
        return '(%d)' % n[1]
    if k == 'neg':
        return '_fit(-%s, %d, %d)' % (ref_expr(n[1]), n[2][0], n[2][1])
    t = n[3]
    if k == '<<':
        return '_shl(%s, %s, %d, %d)' % (ref_expr(n[1]), ref_expr(n[2]), t[0], t[1])
    op = '//' if k == '/' else k
    return '_fit(%s %s %s, %d, %d)' % (ref_expr(n[1]), op, ref_expr(n[2]), t[0], t[1])


REF_PRELUDE = '''
def _fit(v, bits, signed):
    lo, hi = (-(1 << (bits - 1)), (1 << (bits - 1)) - 1) if signed else (0, (1 << bits) - 1)
    if v < lo or v > hi:
        raise OverflowError('value too large')
    return v


def _shl(a, b, bits, signed):
    if b < 0:
        raise OverflowError('negative shift count')
    if a == 0:
        return 0
    if b > 200:
        raise OverflowError('value too large')
    return _fit(a << b, bits, signed)

'''


def count_ops(n):
    if n[0] in ('v', 'c'):
        return 0
    if n[0] == 'neg':
        return count_ops(n[1])
    return 1 + count_ops(n[1]) + count_ops(n[2])


def checked_ops(n):
    """number of operations the compiler instruments (+ - * <<)"""
    if n[0] in ('v', 'c'):
        return 0
    if n[0] == 'neg':
        return checked_ops(n[1])
    return (1 if n[0] in ('+', '-', '*', '<<') else 0) + checked_ops(n[1]) + checked_ops(n[2])


def gen_nested(rng, t, allow_const):
    ty = promote(tinfo(t))
    nvars = rng.randint(3, 5)

    def leaf():
        if allow_const and rng.random() < 0.15:
            c = rng.choice([2, 3, 7, 10, 255, 1000, 65537]) if not ty[1] else rng.choice([2, 3, -3, 7, -7, 10, 255, -1000, 65537])
            return ('c', c)
        return ('v', rng.randrange(nvars))

    def tree(depth):
        if depth == 0 or (depth < 3 and rng.random() < 0.25):
            return leaf()
        op = rng.choice(['+', '-', '*', '+', '-', '*', '<<' if allow_const else '*'])
        l = tree(depth - 1)
        if op == '<<':
            return ('<<', l if l[0] != 'c' else ('v', 0), ('c', rng.choice([1, 2, 3, 8, 17])), ty)
        r = tree(depth - 1)
        if l[0] == 'c' and r[0] == 'c':
            r = ('v', rng.randrange(nvars))
        return (op, l, r, ty)

    while True:
        n = tree(3)
        if count_ops(n) >= 2:
            return n, 5


# ------------------------------------------------------------------------------------------------ function generation

def gen_functions(ck):
    """descriptors: name, kind (def|cdef), group (bin|div2|nest), t (operand type key), ast, nargs, src, ref, op"""
    funcs = []

    def add(**d):
        d['name'] = 'fz%dz' % len(funcs)
        n = d['ast']
        args = ', '.join('%s %s' % (CT[d['t']][0], VARS[i]) for i in range(d['nargs']))
        if d['kind'] == 'def':
            d['src'] = 'def %s(%s):\n    return %s\n' % (d['name'], args, pyx_expr(n))
        else:
            rt = d['rtype_decl']
            d['src'] = 'cdef %s %s(%s) except? -1:\n    return %s\n' % (rt, d['name'], args, pyx_expr(n))
        d['ref'] = 'def %s(%s):\n    return %s\n' % (d['name'], ', '.join(VARS[:d['nargs']]), ref_expr(n))
        funcs.append(d)

    for t in BIN_TYPES:
        ti = tinfo(t)
        ty = promote(ti, ti)
        for op in ('+', '-', '*', '<<', '//'):
            add(kind='def', group='bin', t=t, op=op, form='var', nargs=2, ast=(op, ('v', 0), ('v', 1), ty))
        add(kind='def', group='bin', t=t, op='neg', form='var', nargs=1, ast=('neg', ('v', 0), promote(ti)))
    for t in CONST_TYPES:
        ti = tinfo(t)
        ty = promote(ti, LIT)
        if ty is None and ti == (64, False):
            ty = (64, False)     # unsigned 64-bit operand with a non-negative long literal: value preserving, stays unsigned
        if ty is None:
            continue
        rcs = [3, 2147483647] + ([-7, -1] if ti[1] else [])
        for op in ('+', '-', '*'):
            for c in rcs:
                add(kind='def', group='bin', t=t, op=op, form='constb', nargs=1, ast=(op, ('v', 0), ('c', c), ty))
            for c in [5] + ([-3] if ti[1] else []):
                add(kind='def', group='bin', t=t, op=op, form='consta', nargs=1, ast=(op, ('c', c), ('v', 0), ty))
        for c in (1, 31, 62):
            add(kind='def', group='bin', t=t, op='<<', form='constb', nargs=1, ast=('<<', ('v', 0), ('c', c), ty))
        for c in (1, 3):
            add(kind='def', group='bin', t=t, op='<<', form='consta', nargs=1, ast=('<<', ('c', c), ('v', 0), ty))
        for c in [7] + ([-1] if ti[1] else []):
            add(kind='def', group='bin', t=t, op='//', form='constb', nargs=1, ast=('//', ('v', 0), ('c', c), ty))
    for t in DIV2_TYPES:
        ti = tinfo(t)
        add(kind='def', group='div2', t=t, op='/', form='var', nargs=2, ast=('/', ('v', 0), ('v', 1), promote(ti, ti)))
    rng = ck.rng('nested')
    per_type = ck.pick(20, 300)
    for t in NEST_TYPES:
        for _ in range(per_type):
            n, nargs = gen_nested(rng, t, allow_const=t in ('l', 'ul'))
            add(kind='cdef', group='nest', t=t, op='nested', form='nested', nargs=nargs, ast=n, rtype_decl=CT[t][0])
    return funcs


def hazards(f):
    """operand tuples that make a signed division overflow (MIN // -1): run in an isolated process each"""
    n = f['ast']
    if n[0] not in ('//', '/'):
        return []
    bits, signed = n[3]
    if not signed:
        return []
    if f['form'] == 'var':
        if tinfo(f['t']) == (bits, True):
            return [(-(1 << (bits - 1)), -1)]
        return []
    if f['form'] == 'constb' and n[2][1] == -1 and tinfo(f['t']) == (bits, True):
        return [(-(1 << (bits - 1)),)]
    return []


def row_specs(ck, f):
    lvl = 1
    t = f['t']
    bits = CT[t][1]
    specs = []
    if f['group'] == 'nest':
        n = ck.pick(50, 200)
        seed = ck.rng('nest:' + f['name']).randrange(1 << 30)
        return [('rndk', t, f['nargs'], seed, n)]
    if f['nargs'] == 2:
        if bits <= 8:
            lo, hi = R.bounds(t)
            return [('exh', t, t, a) for a in range(lo, hi + 1)]
        specs += [('bnd', t, t, a, lvl) for a in R.boundary(t, lvl)]
        n = ck.pick(20000, 250000 if bits >= 32 else 60000)
        per = ck.pick(1000, 5000)
        seed0 = ck.rng('pairs:%s' % t).randrange(1 << 30)
        specs += [('rnd', t, t, seed0 + i, per) for i in range(n // per)]
        if f['op'] == '<<':
            specs.append(('shf', t, t, lvl))
    else:
        if bits <= 8 or (bits <= 16 and not ck.quick):
            specs.append(('exh1', t))
        else:
            specs.append(('bnd1', t, ck.pick(1, 2)))
            seed0 = ck.rng('unary:%s' % t).randrange(1 << 30)
            specs.append(('rnd1', t, seed0, ck.pick(500, 5000)))
    return specs


_pstat = {}


def pstats(spec, nz, excl):
    key = (tuple(spec), nz, tuple(excl))
    v = _pstat.get(key)
    if v is None:
        ps = R.plist(tuple(spec), nz=nz, excl=excl)
        v = _pstat[key] = (len(ps), len(set(ps)))
    return v


# ------------------------------------------------------------------------------------------------ in-C sweeps

C_ORACLE = r'''
#include <limits.h>
/* Independent oracle of the C04 check (not Cython code): the exact result of one C integer operation is computed in
   128-bit arithmetic and compared with what the compiled, overflow-checked operation did.
   returns 0 exact value returned, 1 spurious error (result fits), 2 required error raised,
           3 BAD wrong value, 4 BAD no error although the result does not fit */
enum { VO_ADD = 0, VO_SUB = 1, VO_MUL = 2, VO_SHL = 3 };
static __int128 vo_widen(unsigned long long bits, int is_unsigned) {
    return is_unsigned ? (__int128)bits : (__int128)(long long)bits;
}
static int vo_check(int op, unsigned long long abits, unsigned long long bbits, int operands_unsigned,
                    int rbits, int rsigned, unsigned long long obs, int raised) {
    __int128 a = vo_widen(abits, operands_unsigned), b = vo_widen(bbits, operands_unsigned), r = 0, lo, hi;
    int defined = 1, fits;
    switch (op) {
    case VO_ADD: r = a + b; break;
    case VO_SUB: r = a - b; break;
    case VO_MUL: r = a * b; break;      /* |a|,|b| < 2**64: the product may need 128 bits unsigned */
    default:
        if (b < 0) defined = 0;
        else if (a == 0) r = 0;
        else if (b >= 63) defined = 0;  /* a != 0: |a << 63| >= 2**63, fits no 64-bit type except a == -1 ... */
        else r = a * (((__int128)1) << (int)b);
        if (op == VO_SHL && b >= 63 && a != 0) {
            /* exact treatment of the few large shifts that still fit: 1 << 63 fits unsigned 64, -1 << 63 fits signed 64 */
            if (b == 63 && (a == 1 || a == -1)) { defined = 1; r = a * (((__int128)1) << 63); }
        }
    }
    if (op == VO_MUL && operands_unsigned) {
        /* unsigned 64 x unsigned 64 can exceed the signed 128-bit range: decide with unsigned arithmetic */
        unsigned __int128 ur = (unsigned __int128)abits * (unsigned __int128)bbits;
        unsigned __int128 uhi = rbits >= 64 ? (unsigned __int128)ULLONG_MAX : ((((unsigned __int128)1) << rbits) - 1);
        if (rsigned) uhi = (((unsigned __int128)1) << (rbits - 1)) - 1;
        fits = ur <= uhi;
        if (raised) return fits ? 1 : 2;
        if (!fits) return 4;
        return ((unsigned long long)ur == obs) ? 0 : 3;
    }
    if (rsigned) { lo = -(((__int128)1) << (rbits - 1)); hi = (((__int128)1) << (rbits - 1)) - 1; }
    else { lo = 0; hi = (((__int128)1) << rbits) - 1; }
    fits = defined && r >= lo && r <= hi;
    if (raised) return fits ? 1 : 2;
    if (!fits) return 4;
    if (rsigned) return ((long long)r == (long long)obs) ? 0 : 3;
    return ((unsigned long long)r == obs) ? 0 : 3;
}
static unsigned long long vo_next(unsigned long long *s) {
    unsigned long long x = *s;
    x ^= x >> 12; x ^= x << 25; x ^= x >> 27; *s = x;
    return x * 2685821657736338717ULL;
}
/* operand of the given width: mixed magnitudes (so that sums/products fit about half of the time), type bounds */
static unsigned long long vo_operand(unsigned long long *s, int bits, int is_unsigned) {
    unsigned long long k = vo_next(s), m = vo_next(s), v;
    int mode = (int)(k & 7), nb;
    unsigned long long mask = bits >= 64 ? ~0ULL : ((1ULL << bits) - 1);
    if (mode <= 2) { nb = 1 + (int)((k >> 8) % (unsigned)(bits / 2 + 2)); v = m & ((1ULL << nb) - 1); }
    else if (mode <= 4) { nb = 1 + (int)((k >> 8) % (unsigned)bits); v = nb >= 64 ? m : (m & ((1ULL << nb) - 1)); }
    else if (mode == 5) { v = (k >> 8) % 17; }
    else if (mode == 6) {
        /* type bounds and neighbours */
        unsigned long long top = is_unsigned ? mask : (mask >> 1);
        v = top - (k >> 8) % 3;
        if (!is_unsigned && ((k >> 16) & 1)) v = (~v) & mask;      /* MIN, MIN+1, MIN+2 as bit patterns */
        if (!is_unsigned && bits < 64 && (v >> (bits - 1))) v |= ~mask;   /* sign extend */
        return v;
    } else { v = m & mask; if (!is_unsigned && bits < 64 && (v >> (bits - 1))) v |= ~mask; return v; }
    if (!is_unsigned) {
        unsigned long long lim = mask >> 1;
        if (v > lim) v &= lim;
        if ((k >> 3) & 1) v = (unsigned long long)(-(long long)v);
    } else v &= mask;
    return v;
}
'''

SWEEP_HEAD = '''
cdef extern from *:
    """%s"""
    int vo_check(int op, unsigned long long abits, unsigned long long bbits, int operands_unsigned,
                 int rbits, int rsigned, unsigned long long obs, int raised)
    unsigned long long vo_operand(unsigned long long *s, int bits, int is_unsigned)

''' % C_ORACLE

SWEEP_OPS = '''
%(ind)sraised = 0
%(ind)sr = 0
%(ind)stry:
%(ind)s    r = a %(sym)s b
%(ind)sexcept OverflowError:
%(ind)s    raised = 1
%(ind)sv = vo_check(%(opn)d, %(acast)s, %(bcast)s, %(uns)d, %(rbits)d, %(rsigned)d, <unsigned long long>r, raised)
%(ind)scnt[v] += 1
%(ind)sif v >= 3 and len(out) < 4:
%(ind)s    out.append((%(opname)r, a, b, r if not raised else 'OverflowError', v))
'''


def _ops_block(t, ind, shl_guard):
    bits, signed = tinfo(t)
    rbits, rsigned = promote((bits, signed), (bits, signed))
    cast = '<unsigned long long><long long>%s' if signed else '<unsigned long long>%s'
    txt = ''
    for opn, (sym, name) in enumerate((('+', 'add'), ('-', 'sub'), ('*', 'mul'), ('<<', 'lshift'))):
        blk = SWEEP_OPS % {'ind': ind, 'sym': sym, 'opn': opn, 'acast': cast % 'a', 'bcast': cast % 'b',
                           'uns': 0 if signed else 1, 'rbits': rbits, 'rsigned': 1 if rsigned else 0, 'opname': name}
        txt += blk
    return txt


def sweep_fn_source(t):
    decl, bits, signed = CT[t]
    rbits, rsigned = promote((bits, signed), (bits, signed))
    rdecl = {(32, True): 'int', (32, False): 'unsigned int', (64, True): 'long long', (64, False): 'unsigned long long'}[(rbits, rsigned)]
    if rbits == 64:
        rdecl = decl       # the operation has the operand type itself
    lo, hi = R.bounds(t)
    if bits <= 16:
        return '''
def sweep_%(t)s(long alo, long ahi, cb):
    """every (a, b), a in [alo, ahi), b over all of %(decl)s: checked + - * << judged by the 128-bit oracle"""
    cdef %(decl)s a, b
    cdef %(rdecl)s r
    cdef long ai, bi
    cdef int raised, v
    cdef long long cnt[5]
    cdef list out = []
    cnt[0] = cnt[1] = cnt[2] = cnt[3] = cnt[4] = 0
    for ai in range(alo, ahi):
        a = <%(decl)s>ai
        for bi in range(%(lo)d, %(hi)d):
            b = <%(decl)s>bi
%(ops)s
    cb('sweep/%(t)s', cnt[0], cnt[1], cnt[2], cnt[3] + cnt[4])
    return (cnt[0] + cnt[1] + cnt[2] + cnt[3] + cnt[4], cnt[3] + cnt[4], out)
''' % {'t': t, 'decl': decl, 'rdecl': rdecl, 'lo': lo, 'hi': hi + 1, 'ops': _ops_block(t, ' ' * 12, False)}
    return '''
def sweepr_%(t)s(unsigned long long seed, long n, cb):
    """n pseudo-random operand pairs of %(decl)s (shift counts in [-2, width + 6]) judged by the 128-bit oracle"""
    cdef %(decl)s a, b, a0, b0
    cdef %(rdecl)s r
    cdef unsigned long long s = seed
    cdef long i
    cdef int raised, v
    cdef long long cnt[5]
    cdef list out = []
    cnt[0] = cnt[1] = cnt[2] = cnt[3] = cnt[4] = 0
    for i in range(n):
        a = <%(decl)s>vo_operand(&s, %(bits)d, %(uns)d)
        b = <%(decl)s>vo_operand(&s, %(bits)d, %(uns)d)
        if i %% 4 == 3:
            b = <%(decl)s>(%(shlo)s + <long long>((s >> 9) %% %(shn)d))
%(ops)s
    cb('sweepr/%(t)s', cnt[0], cnt[1], cnt[2], cnt[3] + cnt[4])
    return (4 * n, cnt[3] + cnt[4], out)
''' % {'t': t, 'decl': decl, 'rdecl': rdecl, 'bits': bits, 'uns': 0 if signed else 1,
       'shlo': '-2' if signed else '0', 'shn': bits + 9, 'ops': _ops_block(t, ' ' * 8, True)}


SMALL_SWEEP = ['sc', 'uc', 's', 'us']
WIDE_SWEEP = ['i', 'ui', 'l', 'ul', 'll', 'ull', 'z', 'sz']


def sweep_module():
    src = SWEEP_HEAD
    ref = ''
    for t in SMALL_SWEEP:
        src += sweep_fn_source(t)
        ref += 'def sweep_%s(alo, ahi, cb):\n    return (4 * (ahi - alo) * %d, 0, [])\n\n' % (t, 1 << CT[t][1])
    for t in WIDE_SWEEP:
        src += sweep_fn_source(t)
        ref += 'def sweepr_%s(seed, n, cb):\n    return (4 * n, 0, [])\n\n' % t
    return src, ref


def sweep_cases(ck, full16=True):
    cases = []
    rng = ck.rng('sweep')
    for t in SMALL_SWEEP:
        lo, hi = R.bounds(t)
        nb = 1 << CT[t][1]
        if CT[t][1] == 8:
            ranges = [(a, a + 16) for a in range(lo, hi + 1, 16)]
        elif ck.quick or not full16:
            avals = set(R.boundary(t)) | {rng.randint(lo, hi) for _ in range(60)}
            ranges = [(a, a + 1) for a in sorted(avals)]
        else:
            ranges = [(a, a + 16) for a in range(lo, hi + 1, 16)]
        for a, b in ranges:
            cases.append(({'x': 'M.sweep_%s(%d, %d, census)' % (t, a, b), 't': 'sweep/%s' % t, 'fn': 'sweep_' + t}, 4 * (b - a) * nb))
    nseed, per = ck.pick((4, 100000), (60, 1000000))
    for t in WIDE_SWEEP:
        for _ in range(nseed):
            cases.append(({'x': 'M.sweepr_%s(%d, %d, census)' % (t, rng.getrandbits(63) | 1, per), 't': 'sweepr/%s' % t,
                           'fn': 'sweepr_' + t}, 4 * per))
    return cases


# ------------------------------------------------------------------------------------------------ classification

# the driver keeps at most this many mismatch records per chunk; the default (400) is exceeded by the known findings alone
NO_CAP = {'max_mismatch_records': 2000000}


def truncated(ck, res, where):
    """mismatch records lost to the driver's cap would hide discrepancies: never silently"""
    if res.nmismatch > len(res.mismatches):
        ck.inconclusive_if(True, '%d of %d mismatch records of %s were not stored by the driver' % (
            res.nmismatch - len(res.mismatches), res.nmismatch, where))


def split_hangs(ck, crashes, where):
    """a fired watchdog (timeout of the driver process) is never judged: it makes the run inconclusive"""
    real = []
    for c in crashes:
        if str(c.get('kind', '')).startswith('HANG'):
            ck.inconclusive_if(True, 'watchdog fired in %s on case %s (not judged)' % (where, str(c.get('case'))[:160]))
        else:
            real.append(c)
    return real


def width(n):
    return max(1, min(n, core.NCPU))


def tclass(ty):
    return '%s%d' % ('s' if ty[1] else 'u', ty[0])


def top_type(f):
    n = f['ast']
    return n[2] if n[0] == 'neg' else n[3]


def classify(f, cfg, fitclass, got):
    """mechanism key: operator, form, result type class, whether the result fits, what happened"""
    if got == 'crash':
        what = 'crash'
    elif isinstance(got, str):
        what = got.lstrip('!')
    else:
        what = 'wrapped-value' if fitclass == 'nofit' else 'wrong-value'
    return '%s:%s:%s:%s:%s%s' % (OPNAME.get(f['op'], f['op']), f['form'], tclass(top_type(f)), fitclass, what,
                                 '' if cfg in ('default',) else ':' + cfg)


def witness(f, fold, lvl, cflags, args, expected, observed, extra=None):
    pre = ''
    if f['kind'] == 'cdef':
        call = 'def call_%s(%s):\n    return %s(%s)\n' % (f['name'], ', '.join('%s %s' % (CT[f['t']][0], VARS[i]) for i in range(f['nargs'])),
                                                          f['name'], ', '.join(VARS[:f['nargs']]))
        src = f['src'] + '\n' + call
        ref = REF_PRELUDE + f['ref'] + '\ndef call_%s(*a):\n    return %s(*a)\n' % (f['name'], f['name'])
        case = {'f': 'call_' + f['name'], 'a': repr(tuple(args))}
    else:
        src, ref, case = f['src'], REF_PRELUDE + f['ref'], {'f': f['name'], 'a': repr(tuple(args))}
    w = {'module_source': '# cython: language_level=%d\n' % lvl + pre + src, 'ext': '.pyx', 'case': case,
         'directives': {'overflowcheck': True, 'overflowcheck.fold': fold}, 'cflags': list(cflags), 'ref_source': ref,
         'compare': {'log': False, 'exc_args': False}, 'expected': expected, 'observed': observed,
         'note': 'a spurious OverflowError (result fits, error raised) is tolerated by the property and is not a replay failure'}
    if extra:
        w.update(extra)
    return w


class State:
    def __init__(self):
        self.lock = threading.Lock()
        self.n = 0
        self.distinct = 0
        self.samples = []
        self.hist = {}
        self.cells = {}
        self.trivial = []
        self.fold_checks = {}
        self.skipped_build = 0
        self.crash_outcomes = {}


def reach_of(f, fold, body):
    """(nontrivial, cell, number of 'value too large' checks in the body)"""
    nchecks = body.count('"value too large"')
    helpers = re.findall(r'__Pyx_(add|sub|mul|lshift)(_const)?_(\w+?)_checking_overflow\(', body)
    n = f['ast']
    if f['group'] == 'nest':
        want = checked_ops(n)
        ok = len(helpers) == want and want >= 2 and (nchecks == 1 if fold else nchecks == want)
        return ok, 'nested/%s/%s' % (f['t'], 'fold' if fold else 'nofold'), nchecks
    if f['op'] in ('+', '-', '*', '<<'):
        name = OPNAME[f['op']]
        for hop, hconst, htype in helpers:
            if hop == name and HELPER_TYPE.get(htype) == tuple(n[3]):
                return True, '%s/%s/%s%s' % (name, f['form'], htype, '_const' if hconst else ''), nchecks
        return False, None, nchecks
    if f['op'] == 'neg':
        ok = bool(re.search(r'\(-\(*__pyx_v_a\)*\)', body))
        return ok, 'neg/var/%s' % tclass(n[2]), nchecks
    # division: the C03 helper (signed) or the plain operator (unsigned)
    ok = bool(re.search(r'__Pyx_div_\w+\(', body)) or bool(re.search(r'__pyx_v_a\)* / ', body))
    return ok, '%s/%s/%s' % (OPNAME[f['op']], f['form'], tclass(n[3])), nchecks


def main(ck):
    tree = cy.Tree('C04')
    funcs = gen_functions(ck)
    fmap = {f['name']: f for f in funcs}
    st = State()
    census_path = os.path.join(tree.work, 'census.jsonl')
    folds = [True, False]
    mods, refs, members, meta = {}, {}, {}, {}

    def header(lvl, fold):
        return '# cython: language_level=%d, overflowcheck=True, overflowcheck.fold=%s\n' % (lvl, fold)

    for fold in folds:
        ftag = 'f' if fold else 'n'
        binf = [f for f in funcs if f['group'] == 'bin']
        per = 90
        for i in range(0, len(binf), per):
            name = 'c04b%s%d' % (ftag, i // per)
            part = binf[i:i + per]
            mods[name] = header(3, fold) + '\n'.join(f['src'] for f in part)
            refs[name] = REF_PRELUDE + '\n'.join(f['ref'] for f in part)
            members[name], meta[name] = part, (fold, 3)
        part = [f for f in funcs if f['group'] == 'div2']
        name = 'c04d%s' % ftag
        mods[name] = header(2, fold) + '\n'.join(f['src'] for f in part)
        refs[name] = REF_PRELUDE + '\n'.join(f['ref'] for f in part)
        members[name], meta[name] = part, (fold, 2)
        nestf = [f for f in funcs if f['group'] == 'nest']
        per = 150
        for i in range(0, len(nestf), per):
            name = 'c04n%s%d' % (ftag, i // per)
            part = nestf[i:i + per]
            src = header(3, fold) + '\n'.join(f['src'] for f in part)
            ref = REF_PRELUDE + '\n'.join(f['ref'] for f in part)
            # dispatchers: one def per operand type
            for t in NEST_TYPES:
                sel = [f for f in part if f['t'] == t]
                if not sel:
                    continue
                src += '\ndef nest_%s(int k, %s):\n' % (t, ', '.join('%s %s' % (CT[t][0], v) for v in VARS))
                ref += '\ndef nest_%s(k, %s):\n' % (t, ', '.join(VARS))
                for j, f in enumerate(sel):
                    f['disp'] = ('nest_' + t, j)
                    src += '    %s k == %d:\n        return %s(%s)\n' % ('if' if j == 0 else 'elif', j, f['name'], ', '.join(VARS[:f['nargs']]))
                    ref += '    %s k == %d:\n        return %s(%s)\n' % ('if' if j == 0 else 'elif', j, f['name'], ', '.join(VARS[:f['nargs']]))
                src += '    raise ValueError(k)\n'
                ref += '    raise ValueError(k)\n'
            mods[name], refs[name] = src, ref
            members[name], meta[name] = part, (fold, 3)
    swsrc, swref = sweep_module()
    swmods = {'c04sw' + ('f' if fold else 'n'): header(3, fold) + swsrc for fold in folds}

    configs = [('default', [], {})]
    if not ck.quick:
        # the portable branch of Overflow.c (no __builtin_*_overflow): selected by making the feature test fail
        configs.append(('portable', ['-D__ibmxl__=1', '-D__INTEL_COMPILER=1700'], {}))
        configs.append(('ubsan', ['-fsanitize=undefined', '-g'], {'ubsan': True}))
    t0 = ck.elapsed()
    with ThreadPoolExecutor(2) as ex:
        fu1 = ex.submit(tree.build_sources, mods, subdir='b_default', ext='.pyx')
        fu2 = ex.submit(tree.build_sources, swmods, subdir='s_default', ext='.pyx', opt='-O2')
        d, info = fu1.result()
        d2, info2 = fu2.result()
    built = {'default': (d, info, d2, info2)}
    for cfgname, cflags, _o in configs[1:]:
        bd, sd = tree.subdir('b_' + cfgname), tree.subdir('s_' + cfgname)
        items, slots, bi, si = [], [], {}, {}
        for (src_info, dst_info, ddir, opt) in ((info, bi, bd, '-O0'), (info2, si, sd, '-O2' if cfgname != 'ubsan' else '-O1')):
            for mname, inf in src_info.items():
                ni = dict(inf)
                dst_info[mname] = ni
                if not inf.get('c') or inf['stage'] == 'translate':
                    ni['ok'] = False
                    continue
                ni['src'] = os.path.join(ddir, os.path.basename(inf['src']))
                items.append((inf['c'], {'so': os.path.join(ddir, os.path.basename(inf['so'])), 'cflags': cflags, 'opt': opt,
                                         'ldflags': ['-fsanitize=undefined'] if cfgname == 'ubsan' else []}))
                slots.append(ni)
        for ni, b in zip(slots, tree.cbuild_many(items)):
            ni['so'], ni['ok'], ni['stage'] = b['so'], b['ok'], 'cc'
            if not b['ok']:
                ni['errors'] = b['err']
        built[cfgname] = (bd, bi, sd, si)
    ck.cov['build_wall_s'] = round(ck.elapsed() - t0, 1)

    cmp = {'exc_args': False, 'log': False}
    ubsan_reports = {}

    def run_module(cfgname, cflags, opts, mname):
        d, info, _d2, _i2 = built[cfgname]
        inf = info[mname]
        part = members[mname]
        fold, lvl = meta[mname]
        if not inf['ok']:
            with st.lock:
                st.skipped_build += 1
                ck.note('build failure %s/%s at %s: %s' % (cfgname, mname, inf['stage'], inf['errors'][-700:]))
            return
        refpath = inf['src'][:-4] + '_ref.py'
        with open(refpath, 'w') as fh:
            fh.write(refs[mname])
        ctext = open(info[mname]['c'], encoding='utf-8', errors='replace').read()
        bodies = creach.bodies_by_token(ctext, [f['name'] for f in part])
        cases, hz_cases = [], []
        with st.lock:
            for f in part:
                ok, cell, nchecks = reach_of(f, fold, bodies.get(f['name'], ''))
                if not ok:
                    st.trivial.append('%s:%s:%s' % (cfgname, mname, f['src'].strip().replace('\n', ' / ')[:120]))
                    cell = 'unreached/%s/%s' % (OPNAME.get(f['op'], f['op']), f['form'])
                if f['group'] == 'nest' and cfgname == 'default':
                    k = '%s:checks=%d:ops=%d' % ('fold' if fold else 'nofold', min(nchecks, 9), min(checked_ops(f['ast']), 9))
                    st.fold_checks[k] = st.fold_checks.get(k, 0) + 1
                hz = hazards(f)
                nz = 1 if f['op'] in ('//', '/') else 0
                tag = '%s|%s|%s' % (cell, 'fold' if fold else 'nofold', cfgname)
                nf = 0
                for spec in row_specs(ck, f):
                    np_, nd_ = pstats(spec, nz, hz)
                    if not np_:
                        continue
                    if f['kind'] == 'cdef':
                        fname, pre = f['disp'][0], '(%d,)' % f['disp'][1]
                    else:
                        fname, pre = f['name'], '()'
                    cases.append({'x': 'judge(M, %r, %r, plist(%r, nz=%d, excl=%r), pre=%s, tag=%r)' % (
                        fname, f['ast'], tuple(spec), nz, hz, pre, tag), 't': cell, 'fn': f['name'], 'n': np_})
                    nf += np_
                    if ok and cfgname == 'default':
                        st.distinct += nd_
                for h in hz:
                    hz_cases.append({'f': f['name'], 'a': repr(h), 't': 'min-by-minus1/' + OPNAME[f['op']], 'fn': f['name']})
                st.cells[cell] = st.cells.get(cell, 0) + nf
        env = {'C04_CENSUS': census_path}
        if opts.get('ubsan'):
            env['UBSAN_OPTIONS'] = 'print_stacktrace=0:halt_on_error=0:log_path=%s' % os.path.join(tree.work, 'ubsan_%s' % mname)
        res = diff.run_cases(tree, d, mname, cases, spec_extra=NO_CAP, ref=refpath, compare=cmp, setup='from props.C04_env import *',
                             tagdir='run_%s_%s' % (cfgname, mname), timeout=3600, nproc=width(6), extra_env=env)
        done = sum(c['n'] for c in cases)
        with st.lock:
            truncated(ck, res, 'a module run')
            for k, v in res.hist.items():
                st.hist[k] = st.hist.get(k, 0) + v
            st.samples.extend(res.samples[:1])
            for m in res.mismatches:
                f = fmap[m['case']['fn']]
                got = m['got']
                items = []
                try:
                    for tup in got[1][1][2][1]:
                        args = tuple(eval(x[1]) for x in tup[1][0][1])
                        fitclass = eval(tup[1][1][1])
                        o = tup[1][2]
                        obs = eval(o[1]) if o[0] in ('int', 'str') else o[0]
                        items.append((args, fitclass, obs))
                except Exception:
                    items = []
                if not items:
                    ck.discrepancy('judge-failed:%s:%s' % (OPNAME.get(f['op'], f['op']), got[0] if got[0] != 'exc' else got[1]),
                                   'row of %s could not be judged: %s' % (f['src'].strip(), str(got)[:300]),
                                   witness(f, fold, lvl, cflags, (), m['exp'], got))
                for args, fitclass, obs in items[:25]:
                    ck.discrepancy(classify(f, cfgname, fitclass, obs),
                                   '%s [fold=%s, %s build] on %r: every operation %s, observed %r' % (
                                       f['src'].strip().replace('\n', ' / '), fold, cfgname, args,
                                       'fits' if fitclass == 'fits' else 'does NOT fit (OverflowError required)', obs),
                                   witness(f, fold, lvl, cflags, args, fitclass, obs))
            for c in res.crashes:
                done -= c['case'].get('n', 0)
            for c in split_hangs(ck, res.crashes, '%s/%s' % (cfgname, mname)):
                f = fmap[c['case']['fn']]
                ck.discrepancy(classify(f, cfgname, 'row', 'crash'), 'crash (%s) inside an operand row of %s [fold=%s, %s build]: %s' % (
                    c['kind'], f['src'].strip().replace('\n', ' / '), fold, cfgname, c['stderr'][-300:]),
                    witness(f, fold, lvl, cflags, (), None, c['kind'], {'stderr': c['stderr'][-1500:], 'row_case': c['case']['x']}))
            for ft in res.fatal:
                ck.inconclusive_if(True, 'driver failed for %s/%s: %s' % (cfgname, mname, str(ft)[-300:]))
            if not res.fatal:
                st.n += max(0, done)

        # MIN // -1: one isolated process per call
        def one_hz(idx_hc):
            idx, hc = idx_hc
            return hc, diff.run_cases(tree, d, mname, [{'f': hc['f'], 'a': hc['a'], 't': hc['t']}], spec_extra=NO_CAP, ref=refpath, compare=cmp,
                                      tagdir='hz_%s_%s_%d' % (cfgname, mname, idx), timeout=1800, nproc=1, max_restarts=2)
        if hz_cases and cfgname != 'ubsan':
            with ThreadPoolExecutor(width(4)) as ex:
                hres = list(ex.map(one_hz, enumerate(hz_cases)))
            with st.lock:
                for hc, r3 in hres:
                    f = fmap[hc['fn']]
                    args = eval(hc['a'])
                    if r3.fatal:
                        ck.inconclusive_if(True, 'driver failed for a min-by-minus1 case of %s: %s' % (mname, str(r3.fatal[0])[-300:]))
                        continue
                    crashes = split_hangs(ck, r3.crashes, 'min-by-minus1 ' + mname)
                    if len(crashes) != len(r3.crashes):
                        continue
                    st.n += 1
                    # the reference raises OverflowError: agreement means the required error was raised
                    if crashes:
                        ck.discrepancy(classify(f, cfgname, 'nofit', 'crash'),
                                       '%s [fold=%s, %s build] on %r: quotient does not fit, process killed (%s)' % (
                                           f['src'].strip().replace('\n', ' / '), fold, cfgname, args, crashes[0]['kind']),
                                       witness(f, fold, lvl, cflags, args, 'nofit', crashes[0]['kind'], {'stderr': crashes[0]['stderr'][-1200:]}))
                        k = 'crash'
                    elif r3.mismatches:
                        g = r3.mismatches[0]['got']
                        obs = eval(g[1][1]) if g[0] == 'ok' and g[1][0] == 'int' else ('!' + g[1] if g[0] == 'exc' else g[1][0])
                        ck.discrepancy(classify(f, cfgname, 'nofit', obs),
                                       '%s [fold=%s, %s build] on %r: quotient does not fit, observed %r' % (
                                           f['src'].strip().replace('\n', ' / '), fold, cfgname, args, obs),
                                       witness(f, fold, lvl, cflags, args, 'nofit', obs))
                        k = 'no-OverflowError'
                    else:
                        k = 'OverflowError'
                    kk = '%s:%s:%s' % (f['form'], tclass(top_type(f)), k)
                    st.crash_outcomes[kk] = st.crash_outcomes.get(kk, 0) + 1
        if opts.get('ubsan'):
            for p in glob.glob(os.path.join(tree.work, 'ubsan_%s*' % mname)):
                for line in open(p, errors='replace'):
                    mm = re.search(r'runtime error: (.*)', line)
                    if mm:
                        msg = re.sub(r'-?\d+', 'N', mm.group(1))[:90]
                        loc = re.search(r'(\w+\.c):(\d+)', line)
                        fn = '?'
                        if loc:
                            try:
                                ln = int(loc.group(2))
                                lines = ctext.splitlines()
                                for j in range(min(ln, len(lines)) - 1, max(0, ln - 400), -1):
                                    m2 = re.match(r'static (?:CYTHON_INLINE )?[\w \*]+?(__Pyx_\w+|__pyx_\w+)\(', lines[j])
                                    if m2:
                                        fn = re.sub(r'fz\d+z', 'fzNz', re.sub(r'^__pyx_p[fw]_\w*?_\d+', '__pyx_user_', m2.group(1)))
                                        break
                            except Exception:
                                pass
                        with st.lock:
                            ubsan_reports[(fn, msg)] = ubsan_reports.get((fn, msg), 0) + 1

    def run_sweep(cfgname, cflags, opts, swname):
        _d, _i, d2, info2 = built[cfgname]
        inf = info2[swname]
        fold = swname.endswith('f')
        if not inf['ok']:
            with st.lock:
                st.skipped_build += 1
                ck.note('build failure %s/%s at %s: %s' % (cfgname, swname, inf['stage'], inf['errors'][-700:]))
            return
        refpath = inf['src'][:-4] + '_ref.py'
        with open(refpath, 'w') as fh:
            fh.write(swref)
        ctext = open(inf['c'], encoding='utf-8', errors='replace').read()
        fb = creach.function_bodies(ctext)
        # all 4.3e9 pairs of the 16-bit types only in the default configuration with fold on
        sw = sweep_cases(ck, full16=(cfgname == 'default' and fold))   # fold does not change single operations
        unreached = set()
        with st.lock:
            for t in SMALL_SWEEP + WIDE_SWEEP:
                fname = ('sweep_' if t in SMALL_SWEEP else 'sweepr_') + t
                body = '\n'.join(b for n, b in fb.items() if n.endswith(fname))
                hs = set(re.findall(r'__Pyx_(add|sub|mul|lshift)_\w+?_checking_overflow\(', body))
                okr = hs == {'add', 'sub', 'mul', 'lshift'}
                cell = 'sweep/%s/%s%s' % (t, 'fold' if fold else 'nofold', '' if okr else '/unreached')
                st.cells[cell] = st.cells.get(cell, 0) + sum(n for c, n in sw if c['fn'] == fname)
                if not okr:
                    unreached.add(fname)
                    st.trivial.append('%s:%s:%s' % (cfgname, swname, fname))
        env = {'C04_CENSUS': census_path}
        res = diff.run_cases(tree, d2, swname, [c for c, _ in sw], spec_extra=NO_CAP, ref=refpath, compare=cmp, setup='from props.C04_env import *',
                             tagdir='run_%s_%s' % (cfgname, swname), timeout=5400, extra_env=env, nproc=width(8))
        nmap = {c['x']: n for c, n in sw}
        done = sum(n for _, n in sw)
        with st.lock:
            truncated(ck, res, 'a module run')
            for k, v in res.hist.items():
                st.hist[k] = st.hist.get(k, 0) + v
            st.samples.extend(res.samples[:1])
            for m in res.mismatches:
                t = m['case']['fn'].split('_', 1)[1]
                got = m['got']
                opn, code = '?', '?'
                try:
                    first = got[1][1][2][1][0][1]
                    opn = eval(first[0][1])
                    code = {3: 'wrong-value', 4: 'wrapped-value'}.get(eval(first[4][1]), '?')
                except Exception:
                    if got[0] == 'exc':
                        code = 'raised-' + got[1]
                ty = promote(tinfo(t), tinfo(t))
                ck.discrepancy('%s:sweep:%s:%s%s' % (opn, tclass(ty), code, '' if cfgname == 'default' else ':' + cfgname),
                               'in-C sweep %s [fold=%s, %s build]: %s' % (m['case']['x'], fold, cfgname, str(got)[:400]),
                               {'module_source': header(3, fold) + SWEEP_HEAD + sweep_fn_source(t), 'ext': '.pyx',
                                'case': {'x': m['case']['x'].replace('census', '(lambda *a: None)')}, 'cflags': list(cflags),
                                'directives': {}, 'ref_source': swref, 'compare': cmp, 'expected': m['exp'], 'observed': got})
            for c in res.crashes:
                done -= nmap.get(c['case']['x'], 0)
            for c in split_hangs(ck, res.crashes, '%s/%s' % (cfgname, swname)):
                ck.discrepancy('?:sweep:crash:%s' % c['case']['fn'], 'in-C sweep %s crashed [%s build]: %s' % (c['case']['x'], cfgname, c['kind']),
                               {'case': c['case'], 'stderr': c['stderr'][-1500:], 'cflags': list(cflags)})
            for ft in res.fatal:
                ck.inconclusive_if(True, 'sweep driver failed for %s/%s: %s' % (cfgname, swname, str(ft)[-300:]))
            if not res.fatal:
                st.n += max(0, done)
                if cfgname == 'default':
                    st.distinct += sum(n for c, n in sw if c['fn'].startswith('sweep_') and c['fn'] not in unreached)

    t0 = ck.elapsed()
    jobs = []
    for cfgname, cflags, opts in configs:
        for mname in members:
            jobs.append((run_module, (cfgname, cflags, opts, mname)))
        if cfgname != 'ubsan':
            for swname in swmods:
                jobs.append((run_sweep, (cfgname, cflags, opts, swname)))
    with ThreadPoolExecutor(width(3)) as ex:
        futs = [ex.submit(fn, *args) for fn, args in jobs]
        for fu in futs:
            fu.result()
    ck.cov['run_wall_s'] = round(ck.elapsed() - t0, 1)

    # UBSan: undefined behaviour inside the checked-arithmetic helpers or the generated functions
    for (fn, msg), cnt in sorted(ubsan_reports.items()):
        kind = 'helper' if fn.startswith('__Pyx_') else 'generated'
        ck.discrepancy('ubsan:%s:%s:%s' % (kind, re.sub(r'_(int|long|unsigned_int|unsigned_long|PY_LONG_LONG|unsigned_PY_LONG_LONG|Py_ssize_t|size_t)_', '_T_', fn), msg.split(':')[0][:50]),
                       'UBSan: %s in %s (%d reports)' % (msg, fn, cnt), {'function': fn, 'message': msg, 'count': cnt})

    # census of spurious errors (compiled module only)
    spurious = {}
    totals = {'ok': 0, 'spur': 0, 'req': 0, 'bad': 0}
    if os.path.exists(census_path):
        for line in open(census_path):
            try:
                rec = json.loads(line)
            except ValueError:
                continue
            for k in totals:
                totals[k] += rec.get(k, 0)
            if rec.get('spur'):
                spurious[rec['t']] = spurious.get(rec['t'], 0) + rec['spur']
    ck.inconclusive_if(totals['req'] == 0, 'no call with a non-fitting result was observed')
    ck.inconclusive_if(totals['ok'] == 0, 'no call with an exact fitting result was observed')

    # reach floors
    need = []
    for op in ('add', 'sub', 'mul', 'lshift'):
        for h in ('int', 'unsigned_int', 'long', 'unsigned_long', 'PY_LONG_LONG', 'unsigned_PY_LONG_LONG', 'Py_ssize_t', 'size_t'):
            need.append('%s/var/%s' % (op, h))
    for op in ('add', 'sub', 'mul'):
        need += ['%s/constb/long_const' % op, '%s/constb/unsigned_long_const' % op, '%s/constb/PY_LONG_LONG_const' % op]
    need += ['nested/%s/%s' % (t, fo) for t in NEST_TYPES for fo in ('fold', 'nofold')]
    need += ['sweep/%s/%s' % (t, fo) for t in SMALL_SWEEP + WIDE_SWEEP for fo in ('fold', 'nofold')]
    need += ['neg/var/s32', 'neg/var/s64', 'floordiv/var/s32', 'floordiv/var/s64', 'classicdiv/var/s32', 'classicdiv/var/s64']
    missing = [c for c in need if st.cells.get(c, 0) <= 0]
    ck.inconclusive_if(bool(missing), 'cells without a non-trivial observation: %s' % missing[:12])
    ck.inconclusive_if(st.skipped_build > 0, '%d module build(s) failed' % st.skipped_build)
    ck.cov['functions_without_expected_helper'] = st.trivial[:40]
    ck.inconclusive_if(len(st.trivial) > 0.05 * len(funcs) * 2 * len(configs),
                       '%d generated functions did not contain the expected checked-arithmetic helper / consolidated check' % len(st.trivial))
    return ck.finish(
        st.n, st.distinct,
        'typed functions a OP b for OP in + - * << // (and language-level-2 /), unary -, constant operands on either side, and '
        'nested side-effect-free expressions, for 8..64-bit signed/unsigned C integer types, compiled with overflowcheck=True and '
        'overflowcheck.fold on and off; every call is judged by the statement: exact value (or tolerated spurious OverflowError) '
        'when every operation fits its C result type, OverflowError required otherwise; in-C sweeps judge + - * << against a '
        '128-bit oracle. evaluations = calls / in-C operations judged. distinct_nontrivial = distinct (function, operand tuple) '
        'whose generated C calls the matching __Pyx_<op>_<T>_checking_overflow helper (nested: as many helpers as operations and '
        'one consolidated check with fold, one per operation without), plus the (op, a, b) triples of the exhaustive sweeps',
        st.samples,
        extra={'functions': len(funcs), 'modules': len(mods) + len(swmods), 'configs': [c[0] for c in configs], 'cells': st.cells,
               'judged_totals': {'exact_value': totals['ok'], 'spurious_overflow': totals['spur'], 'required_overflow_raised': totals['req']},
               'spurious_overflow': dict(sorted(spurious.items(), key=lambda kv: -kv[1])[:60]),
               'nested_check_counts': st.fold_checks, 'min_by_minus1_outcomes': st.crash_outcomes,
               'ubsan_reports': {'%s | %s' % k: v for k, v in ubsan_reports.items()},
               'outcome_hist_top': dict(sorted(st.hist.items(), key=lambda kv: -kv[1])[:40])},
        assumptions=['Python big-int arithmetic defines the exact result of every operation; C promotion defines the result type',
                     'x86-64 / gcc 12: long is 64 bit; __builtin_*_overflow is the default branch of Overflow.c, the portable branch is '
                     'selected in the thorough tier by -D__ibmxl__ -D__INTEL_COMPILER=1700',
                     'zero divisors are not generated (C03 owns ZeroDivisionError); operands always fit their declared C types, so '
                     'every OverflowError observed comes from the arithmetic and not from argument conversion'])
