"""C13 Builtin call and method optimisations preserve semantics (DESIGN.md section 5, C13).

One small function per (call-site template, receiver typing) from vlib/gen/c13calls.py is compiled (.pyx) by the tree
under observation; every call is compared with CPython executing the same text without the type annotations:
result signature (type-qualified), exception type, log (argument evaluation order) and the final state of all
arguments (post_args: the mutated receiver).  The generated C of every function is inspected for the specialised
helper / C-API call listed in the template table; templates whose optimisation did not fire are run as well but
reported as `not_optimised` and do not count towards distinct_nontrivial."""
import os
import re
from concurrent.futures import ThreadPoolExecutor

from vlib import creach, cy, diff
from vlib.gen import c13calls as G

_GENERIC = re.compile(r'__Pyx_PyObject_Call\w*\(|__Pyx_PyObject_FastCall\w*\(|PyObject_Call\w*\(|__Pyx_PyObject_GetAttrStr\(')


def impl_bodies(ctext):
    out = {}
    for cname, body in creach.function_bodies(ctext).items():
        if '_pf_' not in cname and '_gb_' not in cname and 'genexpr' not in cname:
            continue
        for m in re.finditer(r'fz\d+z', cname):
            out[m.group(0)] = out.get(m.group(0), '') + '\n' + body
    return out


def reach(fn, body):
    """(optimised?, helpers found)"""
    body = re.sub(r'/\*.*?\*/', '', body, flags=re.S)
    if not body.strip():
        return False, []
    if fn.helper is None:
        return False, []
    if fn.helper == '':
        return not _GENERIC.search(body), ['<no generic call>']
    found = sorted(set(re.findall(r'(?:%s)\w*' % fn.helper, body)))
    return bool(found), found


def akind(expr):
    """structural kind of an argument expression (never its concrete value)"""
    e = expr.strip()
    if e in ('None', 'True', 'False', 'inf', 'nan', '_'):
        return {'True': 'bool', 'False': 'bool', 'inf': 'float', 'nan': 'float'}.get(e, e)
    if re.fullmatch(r'[-+\d\s\*\(\)]+', e) and re.search(r'\d', e) and not e.startswith('('):
        try:
            v = eval(e, {'__builtins__': {}})
            if isinstance(v, int):
                return 'int:huge' if abs(v) >= 2 ** 63 else ('int:big' if abs(v) >= 2 ** 31 else ('int:neg' if v < 0 else 'int'))
        except Exception:
            pass
    if re.fullmatch(r'-?\d+\.\d*(e-?\d+)?|-?\d+e\d+', e):
        return 'float'
    m = re.match(r'^([A-Za-z_]\w*)\(', e)
    if m:
        return m.group(1)
    if e.startswith(("b'", 'b"')):
        return 'bytes'
    if e.startswith(("'", '"')):
        return 'str'
    if e.startswith('('):
        return 'tuple'
    if e.startswith('['):
        return 'list'
    if e.startswith('{'):
        return 'dictset'
    return 'expr'


def oclass(o):
    return o[0] + ':' + (o[1][0] if o[0] == 'ok' else o[1])


def strlen_kind(expr):
    try:
        v = eval(expr, {'__builtins__': {}, 'bytearray': bytearray})
        return 'len1' if len(v) == 1 else 'len%s' % ('0' if len(v) == 0 else 'N')
    except Exception:
        return '?'


CINT_ROLES = {'index', 'smallidx', 'maxsplit', 'chrarg', 'byteval', 'tinyint'}


RECV_LITERAL_KINDS = {'list': ('list', 'mkmutlist'), 'dict': ('dictset', 'mkmutdict'), 'set': ('dictset', 'set'), 'str': ('str',),
                      'bytes': ('bytes',), 'bytearray': ('bytearray',), 'tuple': ('tuple',), 'frozenset': ('frozenset',)}


def classify(fn, exprs, exp, got):
    """mechanism key from the template, the receiver typing and the kinds of the arguments"""
    spec = fn.spec
    ek, gk = oclass(exp), oclass(got)
    kinds = [akind(e) for e in exprs]
    fam = spec.name.split('-')[0]
    roles = ['recv'] + [r if isinstance(r, str) else 'enum' for r in spec.roles]
    if spec.recv_pool in (['chrarg'],) or spec.recv == 'chrarg':
        roles[0] = 'chrarg'
    # --- unbound method forms: T.meth(x, ...) with x not (exactly) a T -----------------------------------------
    if spec.name.endswith('-unbound') and kinds[0] not in RECV_LITERAL_KINDS.get(spec.recv, ()):
        # the receiver is used as a T without a type test (None gets the bound-call AttributeError, other objects are
        # handed to the C-level helper, subclasses are dispatched virtually)
        return 'unbound-method-receiver-type-unchecked:%s' % spec.recv
    # --- typed receiver holding None, method called through the cached unbound C method ------------------------
    if fn.typing == 'typed' and kinds[0] == 'None' and ek == 'exc:AttributeError' and gk != 'exc:AttributeError' and fn.helper is None:
        return 'typed-none-receiver-unchecked:cached-method'
    # --- known mechanisms (recon #11, #16, #17) ---------------------------------------------------------------
    if fam.startswith('ord') and ek == 'exc:TypeError' and gk == 'exc:ValueError' and kinds[0] in ('str', 'bytes', 'bytearray', 'S', 'B'):
        return 'ord-multichar-error-type'
    cint_args = [(r, k) for r, k in zip(roles, kinds) if r in CINT_ROLES]
    if cint_args:
        grp = ('tailmatch' if 'swith' in spec.name else 'find' if ('find' in spec.name or 'count' in spec.name) else
               'slice-decode' if 'slice-decode' in spec.name else fam)
        if gk == 'exc:OverflowError' and ek != 'exc:OverflowError' and any(k == 'int:huge' or k == 'Idx' for r, k in cint_args):
            return 'huge-bound-overflow-%s' % grp
        if ek == 'exc:TypeError' and gk != 'exc:TypeError' and any(k in ('float', 'IntOnly', 'F') for r, k in cint_args):
            return 'cint-from-nb_int:%s' % grp
        if gk == 'exc:TypeError' and ek != 'exc:TypeError' and any(k in ('Idx',) for r, k in cint_args):
            return 'cint-rejects-index-only:%s' % grp
        if any(k == 'None' for r, k in cint_args) and ek != gk and (ek == 'exc:TypeError' or gk == 'exc:TypeError'):
            # None where CPython wants an int (split maxsplit, replace count) or accepts None (start/end)
            return 'none-for-int-argument:%s' % grp
    if spec.name == 'set-lit.contains' and ek.startswith('exc:') and gk == 'ok:bool':
        return 'in-set-literal-flattened-no-hash'
    if fn.typing == 'untyped' and ek == 'exc:AttributeError' and gk.startswith('exc:') and gk != ek and '.' in spec.name \
            and kinds[0] not in RECV_LITERAL_KINDS.get(spec.recv, ()):
        # x.meth(<args>) with x lacking the method: CPython fails on the attribute lookup before the arguments
        # are evaluated, the compiled call evaluates the arguments first
        return 'method-lookup-after-argument-evaluation'
    return '%s:%s:%s:%s->%s' % (spec.name, fn.typing, ','.join(kinds), ek, gk)


def classify_crash(fn, exprs, crash):
    kinds = [akind(e) for e in exprs]
    spec = fn.spec
    if spec.name.endswith('-unbound') and kinds[0] not in RECV_LITERAL_KINDS.get(spec.recv, ()):
        return 'unbound-method-receiver-type-unchecked:%s' % spec.recv
    if fn.typing == 'typed' and kinds[0] == 'None' and fn.helper is None:
        return 'typed-none-receiver-unchecked:cached-method'
    if spec.name.startswith('bytes.') and 'swith' in spec.name and 'int:big' in kinds[1:]:
        # start close to PY_SSIZE_T_MAX: "start + sub_len <= end" overflows in __Pyx_PyBytes_SingleTailmatch and memcmp
        # reads far outside the object
        return 'bytes-tailmatch-start-overflow'
    return 'crash:%s:%s:%s' % (spec.name, fn.typing, ','.join(kinds))


def build_all(ck, tree, fns, per_mod, tagbase):
    done, lost = [], []
    pending = [fns[i:i + per_mod] for i in range(0, len(fns), per_mod)]
    rnd = 0
    while pending:
        mods, groups = {}, {}
        for gi, grp in enumerate(pending):
            name = '%s_r%d_%d' % (tagbase, rnd, gi)
            text = G.HEADER
            starts = []
            for f in grp:
                starts.append(text.count('\n') + 1)
                text += f.src + '\n'
            mods[name] = text
            groups[name] = (grp, starts)
        d, info = tree.build_sources(mods, subdir='b_%s_r%d' % (tagbase, rnd), ext='.pyx')
        pending = []
        for name, (grp, starts) in groups.items():
            inf = info[name]
            if inf['ok']:
                refp = inf['src'][:-4] + '_ref.py'
                with open(refp, 'w', encoding='utf-8') as f:
                    f.write(G.HEADER + '\n'.join(x.ref for x in grp))
                done.append((name, d, inf, grp, refp))
                continue
            bad = set()
            if inf['stage'] == 'translate' and not inf.get('crash'):
                for m in re.finditer(r'%s\.pyx:(\d+):\d+:' % re.escape(name), inf['errors'] or ''):
                    ln = int(m.group(1))
                    if ln >= starts[0]:
                        bad.add(max(i for i, st in enumerate(starts) if st <= ln))
            if inf['stage'] == 'cc':
                toks = set(re.findall(r'fz\d+z', inf['errors'] or ''))
                bad = {i for i, f in enumerate(grp) if f.name in toks}
            if bad and rnd < 6:
                lost.extend((grp[i], inf) for i in sorted(bad))
                rest = [f for i, f in enumerate(grp) if i not in bad]
                if rest:
                    pending.append(rest)
            elif len(grp) == 1 or rnd >= 4:
                lost.extend((x, inf) for x in grp)
            else:
                k = max(1, (len(grp) + 1) // 2)
                pending.extend(grp[i:i + k] for i in range(0, len(grp), k))
        rnd += 1
    return done, lost


def main(ck):
    tree = cy.Tree('C13')
    rng = ck.rng('gen')
    fns = G.generate(rng, ck.pick(40, 400), names=os.environ.get('VERIF_C13_ONLY'))
    if os.environ.get('VERIF_C13_ONLY'):
        ck.note('VERIF_C13_ONLY set: partial workload (development aid)')
    per_mod = max(30, min(120, -(-len(fns) // 14)))
    done, lost = build_all(ck, tree, fns, per_mod, 'c13')
    ck.cov['t_build'] = round(ck.elapsed(), 1)
    for f, inf in lost[:12]:
        ck.note('template lost to a build failure (%s/%s): %s' % (f.spec.name, f.typing, (inf['errors'] or '')[-300:]))
    byname = {f.name: f for f in fns}
    helpers = {}
    not_optimised = {}
    optimised_templates = set()
    all_templates = set()
    expected_opt = unexpected = 0
    jobs = []
    for name, d, inf, grp, refp in done:
        bodies = impl_bodies(open(inf['c'], encoding='utf-8', errors='replace').read())
        runs = {True: [], False: []}
        for f in grp:
            opt, found = reach(f, bodies.get(f.name, ''))
            tkey = '%s/%s' % (f.spec.name, f.typing)
            all_templates.add(tkey)
            if f.helper is not None:
                expected_opt += 1
            if opt:
                optimised_templates.add(tkey)
                for h in found:
                    helpers[h] = helpers.get(h, 0) + 1
            else:
                not_optimised[tkey] = 'no specialisation expected' if f.helper is None else 'helper not found in generated C'
                if f.helper is not None:
                    unexpected += 1
            for i, (args, exprs) in enumerate(f.cases):
                runs[opt].append({'f': f.name, 'a': args, 't': '%s/%s%s' % (f.spec.name, f.typing, '' if opt else '/unopt'), 'ci': i})
        for opt in (True, False):
            if runs[opt]:
                jobs.append((name, d, refp, opt, runs[opt]))

    def run_one(job):
        name, d, refp, opt, cases = job
        return diff.run_cases(tree, d, name, cases, ref=refp, compare={'post_args': True, 'log': True, 'exc_args': False},
                              setup=G.SETUP, tagdir='run_%s_%s' % (name, opt), timeout=1200,
                              nproc=min(4, max(1, len(cases) // 400)), max_restarts=60)

    with ThreadPoolExecutor(6) as ex:
        results = list(ex.map(run_one, jobs))
    total_n = nontrivial = 0
    samples = []
    hist = {}
    cells = {}
    for (name, d, refp, opt, cases), res in zip(jobs, results):
        total_n += res.n
        if opt:
            nontrivial += res.distinct
            samples.extend(res.samples[:1])
        for k, v in res.hist.items():
            hist[k] = hist.get(k, 0) + v
            c = k.split('|')[0]
            cells[c] = cells.get(c, 0) + v
        for m in res.mismatches:
            f = byname[m['case']['f']]
            exprs = f.cases[m['case']['ci']][1]
            key = classify(f, exprs, m['exp'], m['got'])
            ck.discrepancy(key, '%s [%s] args %s: CPython %s, compiled %s' % (f.spec.expr, f.typing, m['case']['a'], str(m['exp'])[:240], str(m['got'])[:240]),
                           {'module_source': G.HEADER + f.src, 'ref_source': G.HEADER + f.ref, 'ext': '.pyx',
                            'case': {k: v for k, v in m['case'].items() if k != 'ci'}, 'compare': {'post_args': True, 'log': True},
                            'setup': G.SETUP, 'cflags': [], 'directives': {}, 'expected': m['exp'], 'observed': m['got'],
                            'optimised': opt, 'template': f.spec.name, 'typing': f.typing})
        for c in res.crashes:
            f = byname[c['case']['f']]
            exprs = f.cases[c['case']['ci']][1]
            ck.discrepancy(classify_crash(f, exprs, c),
                           'crash/hang %s in %s [%s] on %s' % (c['kind'], f.spec.expr, f.typing, c['case']['a']),
                           {'module_source': G.HEADER + f.src, 'ref_source': G.HEADER + f.ref, 'ext': '.pyx',
                            'case': {k: v for k, v in c['case'].items() if k != 'ci'}, 'setup': G.SETUP, 'stderr': c['stderr'][-1500:]})
        for ft in res.fatal:
            ck.inconclusive_if(True, 'driver failed for %s: %s' % (name, str(ft)[-300:]))
    partial = bool(os.environ.get('VERIF_C13_ONLY'))
    ck.inconclusive_if(len(lost) > 0.2 * max(1, len(fns)), '%d of %d templates lost to build failures' % (len(lost), len(fns)))
    if not partial:
        ck.inconclusive_if(expected_opt and (expected_opt - unexpected) < 0.85 * expected_opt,
                           'only %d of %d templates with a listed helper were optimised (floor 85%%)' % (expected_opt - unexpected, expected_opt))
    return ck.finish(
        total_n, nontrivial,
        'one function per (call-site template, receiver typing: untyped / annotated / literal / C-typed); each called with '
        'value-pool combinations (every pool value at least once + seeded random combinations: exact types, subclasses with '
        'overridden methods, None, wrong types, unhashable / raising keys, unicode kinds 1/2/4, negative / huge / non-int '
        'indices and start/end, tuples of prefixes, missing keys, defaults, containers emptied by a hostile __eq__); compared '
        'with CPython on the same text without annotations: type-qualified result, exception type, evaluation-order log, final '
        'state of all arguments (mutated receiver). distinct = distinct (function, CPython outcome) among functions whose '
        'generated C contains the helper / C-API call listed for the template',
        samples,
        extra={'templates': len(G.SPECS), 'functions': len(fns), 'functions_optimised': len(optimised_templates),
               'functions_with_listed_helper': expected_opt, 'not_optimised': not_optimised,
               'not_optimised_total': len(not_optimised), 'unexpectedly_not_optimised': unexpected,
               'skipped_build_failure': len(lost), 'helpers_reached': dict(sorted(helpers.items())),
               'cells': len(cells), 'outcome_hist_top': dict(sorted(hist.items(), key=lambda kv: -kv[1])[:40])},
        assumptions=['CPython 3.12.1 executing the same text without type annotations is the reference',
                     'annotated receivers get exact-type values or None only; C-typed parameters only values the C type admits',
                     'exception messages are not compared (type only)'])


def replay(ck, data):
    w = data.get('witness', data)
    tree = cy.Tree('replay')
    d, info = tree.build_sources({'replaymod': w['module_source']}, subdir='r', ext='.pyx')
    inf = info['replaymod']
    if not inf['ok']:
        print('build failed at', inf['stage'], inf['errors'][-2000:])
        return 2
    refp = inf['src'] + '.ref.py'
    open(refp, 'w').write(w['ref_source'])
    res = diff.run_cases(tree, d, 'replaymod', [w['case']], ref=refp, compare=w.get('compare') or {'post_args': True},
                         setup=w.get('setup'), nproc=1)
    for m in res.mismatches:
        print('expected', m['exp'])
        print('observed', m['got'])
    for c in res.crashes:
        print('crash', c['kind'], c['stderr'][-1500:])
    if res.mismatches or res.crashes:
        print('VIOLATION property=%s replay=<replayed>' % ck.pid)
        return 1
    print('replay: case now agrees with the reference (%d evaluated)' % res.n)
    return 0
