"""C17 Buffer acquisition accepts exactly the matching buffers (DESIGN.md section 5, C17).

A generated .pyx module acquires typed memoryviews (`T[:]`, `T[::1]`, `T[:, :]`, `T[:, ::1]`, `T[::1, :]`, const variants)
and legacy buffers (`object[T, ndim=..., mode=...]`) for every C numeric type, complex types and packed/aligned/nested/
array-holding structs, and reads every element. Exporters: the plain-C `fakebuf` extension (csrc/fakebuf.c) with
caller-chosen format/itemsize/shape/strides/readonly, NumPy (structured) arrays and ctypes arrays. The reference model
(vlib/ref/c17ref.py) flattens the PEP 3118 format with struct-module rules and decides accept/reject; accepted buffers
must read the values struct/ctypes decode from the raw bytes. Cells that PEP 3118 leaves open are counted, not asserted."""
import os
import re

from vlib import core, cy, diff
from vlib.ref import c17ref

SETUP = 'from vlib.ref.c17ref import FB, NP, CTA\nimport numpy as np\nimport array\n'
FAMILY = {'ValueError', 'TypeError', 'BufferError'}


class Acc:
    """one acquiring function: declared dtype x access form"""

    def __init__(self, n, dt, ndim, mode, const=False, legacy=False):
        self.n, self.dt, self.ndim, self.mode, self.const, self.legacy = n, dt, ndim, mode, const, legacy
        self.name = 'fz%dz' % n
        self.writable = not const and not legacy
        self.tag = '%s/%s%d%s%s' % (dt.replace(' ', '_'), 'buf' if legacy else 'mv', ndim, mode, 'k' if const else '')

    def pyx(self):
        idx = ', '.join('ijk'[:self.ndim])
        el = 'CONV(m[%s])' % idx
        for d in reversed(range(self.ndim)):
            el = '[%s for %s in range(m.shape[%d])]' % (el, 'ijk'[d], d)
        if self.legacy:
            mode = {'s': 'strided', 'c': 'c', 'f': 'fortran'}[self.mode]
            # extents are taken from a Python memoryview: not every exporter (ctypes) has a .shape attribute
            el = el.replace('m.shape[', 'shp[')
            return 'def %s(object[%s, ndim=%d, mode=%r] m):\n    cdef Py_ssize_t i, j, k\n    shp = memoryview(m).shape\n    return %s\n' % (
                self.name, self.dt, self.ndim, mode, el)
        ax = [':'] * self.ndim
        if self.mode == 'c':
            ax[-1] = '::1'
        elif self.mode == 'f':
            ax[0] = '::1'
        return 'def %s(obj):\n    cdef %s%s[%s] m = obj\n    cdef Py_ssize_t i, j, k\n    return %s\n' % (
            self.name, 'const ' if self.const else '', self.dt, ', '.join(ax), el)

    def ref(self):
        return 'def %s(obj):\n    return ACQ(%r, %d, %r, %r, obj)\n' % (self.name, self.dt, self.ndim, self.mode, self.writable)


REF_PRE = '''from vlib.ref import c17ref as _r


def ACQ(dt, ndim, mode, writable, obj):
    try:
        return _r.acquire(dt, ndim, mode, writable, obj)
    except _r.Ambiguous as e:
        return 'AMBIGUOUS: %s' % e
'''

PYX_PRE = '''# cython: language_level=3
from vlib.ref import c17ref as _r
CONV = _r.conv

'''


def accessors(ck):
    out = []
    n = 0

    def add(dt, ndim, mode, const=False, legacy=False):
        nonlocal n
        out.append(Acc(n, dt, ndim, mode, const, legacy))
        n += 1
    scal = list(c17ref.SCALARS) + list(c17ref.COMPLEX)
    for dt in scal:
        add(dt, 1, 's')
    for dt in c17ref.STRUCT_ORDER:
        add(dt, 1, 's')
    for dt in ('int', 'double', 'S_id'):
        add(dt, 1, 'c')
        add(dt, 2, 's')
        add(dt, 2, 'c')
        add(dt, 2, 'f')
    add('int', 1, 's', legacy=True)
    add('double', 2, 'c', legacy=True)
    add('S_id', 1, 's', legacy=True)
    add('int', 1, 's', const=True)
    add('S_cs', 1, 'c', const=True)
    if not ck.quick:
        # the structs with multi-digit extents / counts are costly per element: contiguous and legacy forms for three of them only
        for dt in scal + [d for d in c17ref.STRUCT_ORDER if d not in c17ref.WIDE_ORDER] + ['P_w3', 'S_w5', 'S_run']:
            add(dt, 1, 'c')
            add(dt, 1, 's', legacy=True)
        for dt in ('unsigned char', 'short', 'float', 'double complex', 'P_id', 'S_nest', 'S_arr', 'S_mix'):
            add(dt, 2, 's')
            add(dt, 2, 'c', legacy=True)
            add(dt, 2, 'f')
            add(dt, 1, 's', const=True)
        add('int', 2, 'f', legacy=True)
        add('S_id', 2, 's', legacy=True)
    return out


# ------------------------------------------------------------------------------------------------ format spellings
NATIVE_CODES = {('int', 1): ['b'], ('uint', 1): ['B'], ('char', 1): ['c'], ('int', 2): ['h'], ('uint', 2): ['H'], ('int', 4): ['i'],
                ('uint', 4): ['I'], ('int', 8): ['l', 'q'], ('uint', 8): ['L', 'Q'], ('float', 4): ['f'], ('float', 8): ['d'],
                ('complex', 8): ['Zf'], ('complex', 16): ['Zd']}
STD_CODES = {('int', 1): ['b'], ('uint', 1): ['B'], ('char', 1): ['c'], ('int', 2): ['h'], ('uint', 2): ['H'], ('int', 4): ['i', 'l'],
             ('uint', 4): ['I', 'L'], ('int', 8): ['q'], ('uint', 8): ['Q'], ('float', 4): ['f'], ('float', 8): ['d'],
             ('complex', 8): ['Zf'], ('complex', 16): ['Zd']}


def code_for(dt, mode, rng, canonical):
    kind = c17ref.SCALARS[dt][1] if dt in c17ref.SCALARS else 'complex'
    size = c17ref.sizeof(dt)
    if canonical and mode in '@^':
        return c17ref.CANON_CODE[dt]
    return rng.choice((NATIVE_CODES if mode in '@^' else STD_CODES)[(kind, size)])


class Speller:
    """spells a declared dtype as a PEP 3118 format in one of several equivalent ways"""

    def __init__(self, rng, mode, names, explicit_pad, canonical, spaces, counts):
        self.rng, self.mode, self.names, self.explicit_pad = rng, mode, names, explicit_pad
        self.canonical, self.spaces, self.counts = canonical, spaces, counts

    def items(self, dt, base, off):
        """list of (text, kind) tokens for dtype dt placed at absolute offset base, current format offset off;
        returns tokens, new offset"""
        toks = []
        if dt in c17ref.SCALARS or dt in c17ref.COMPLEX:
            c = code_for(dt, self.mode, self.rng, self.canonical)
            size = c17ref.sizeof(dt)
            off, pad = self.pad_to(base, off, c)
            toks += pad
            toks.append(c)
            return toks, off + size
        packed, fields = c17ref.STRUCT_SPECS[dt]
        ct = c17ref.CT[dt]
        # a nested struct
        inner = []
        o = off
        o, pad = self.pad_struct_start(base, o, dt)
        toks += pad
        for f, t, dims in fields:
            fo = base + getattr(ct, f).offset
            if dims:
                c = code_for(t, self.mode, self.rng, self.canonical)
                o, pad = self.pad_to(fo, o, c)
                inner += pad
                n = 1
                for d in dims:
                    n *= d
                inner.append('(%s)%s' % (','.join(str(d) for d in dims) + (',' if len(dims) == 1 and self.rng.random() < 0.5 else ''), c))
                o += n * c17ref.sizeof(t)
            else:
                sub, o = self.items(t, fo, o)
                inner += sub
            if self.names:
                inner.append(':%s:' % f)
        end = base + c17ref.sizeof(dt)
        if o < end:
            if self.explicit_pad or self.mode != '@':
                inner.append(self.xpad(end - o))
            o = end
        toks.append('T{' + self.join(inner) + '}')
        return toks, o

    def xpad(self, n):
        if n > 1 and self.counts and self.rng.random() < 0.6:
            return '%dx' % n
        return 'x' * n

    def pad_to(self, target, off, code):
        """padding tokens so that the next item of `code` lands at target"""
        if self.mode == '@' and not self.explicit_pad:
            al = c17ref.native_align(code[-1])
            aligned = off + (-off) % al
            if aligned == target:
                return target, []
        if target > off:
            return target, [self.xpad(target - off)]
        return off, []

    def pad_struct_start(self, base, off, dt):
        if base > off:
            return base, [self.xpad(base - off)]
        return off, []

    def join(self, toks):
        if self.spaces:
            return ''.join(t + (' ' if self.rng.random() < 0.4 else '') for t in toks).rstrip(' ') or ''
        # pool equal adjacent scalar codes into counts
        out = []
        i = 0
        while i < len(toks):
            j = i
            while j + 1 < len(toks) and toks[j + 1] == toks[i] and (len(toks[i]) == 1 or toks[i].startswith('T{')) and toks[i] != 'x':
                j += 1
            if j > i and self.counts:
                out.append('%d%s' % (j - i + 1, toks[i]))
            else:
                out += toks[i:j + 1]
            i = j + 1
        return ''.join(out)

    def spell(self, dt):
        toks, off = self.items(dt, 0, 0)
        body = self.join(toks)
        if dt in c17ref.STRUCT_SPECS and body.startswith('T{') and self.rng.random() < 0.25 and body.count('T{') == 1 and not self.names:
            pass
        prefix = self.mode if (self.mode != '@' or self.rng.random() < 0.3) else ''
        return prefix + body


def matching_format(dt, rng):
    mode = rng.choice(['@', '@', '@', '=', '<', '^'])
    sp = Speller(rng, mode, names=rng.random() < 0.5, explicit_pad=rng.random() < 0.6, canonical=rng.random() < 0.7,
                 spaces=rng.random() < 0.2, counts=rng.random() < 0.5)
    return sp.spell(dt)


ALL_CODES = list('cbB?hHiIlLqQfdgOP') + ['Zf', 'Zd', 's', 'p', 'e', 'n', 'N']
NAME_RE = re.compile(r':[^:]*:')
# numbers of two and more digits for inserted / random counts: every digit in a non-leading position, round values, all-nines
MULTI_DIGIT = [10, 11, 12, 13, 14, 15, 16, 17, 18, 19, 20, 29, 40, 64, 90, 99, 100, 101, 109, 119, 128, 190, 199, 256, 999, 1000]


def mutate_format(fmt, rng):
    """near-miss of a matching format; returns (text, mutation kind)"""
    kind = rng.choice(['code', 'code', 'pad+', 'pad-', 'swap', 'count', 'endian', 'endian', 'dup', 'drop', 'arraydim', 'truncate', 'brace', 'structcount',
                       'digits', 'digits'])
    codes = [m for m in re.finditer(r'Z[fdg]|[cbB?hHiIlLqQfdgsp]', NAME_RE.sub(lambda m: '#' * len(m.group()), fmt))]
    if kind == 'digits':
        # one digit of a repeat count / pad count / array extent inserted, deleted or replaced (field names masked)
        nums = [m for m in re.finditer(r'[0-9]+', NAME_RE.sub(lambda m: '#' * len(m.group()), fmt))]
        if nums:
            m = rng.choice(nums)
            t = m.group()
            op = rng.choice(['ins', 'del', 'rep'] if len(t) > 1 else ['ins', 'rep'])
            i = rng.randrange(len(t) + (op == 'ins'))
            if op == 'ins':
                t2 = t[:i] + rng.choice('0123456789' if i else '123456789') + t[i:]
            elif op == 'del':
                t2 = (t[:i] + t[i + 1:]).lstrip('0') or '0'
            else:
                t2 = t[:i] + rng.choice([ch for ch in ('0123456789' if i else '123456789') if ch != t[i]]) + t[i + 1:]
            if int(t2) != int(t) and int(t2) <= 4000:
                return fmt[:m.start()] + t2 + fmt[m.end():], 'number-digit-changed'
    if kind == 'code' and codes:
        m = rng.choice(codes)
        return fmt[:m.start()] + rng.choice(ALL_CODES) + fmt[m.end():], 'code-changed'
    if kind == 'pad+':
        i = rng.randrange(len(fmt) + 1)
        if not re.search(r'[:(][^:)]*$', fmt[:i]):
            return fmt[:i] + 'x' + fmt[i:], 'pad-added'
    if kind == 'pad-' and 'x' in fmt:
        i = rng.choice([k for k, ch in enumerate(fmt) if ch == 'x'])
        if not re.search(r':[^:]*$', fmt[:i]) or fmt[:i].count(':') % 2 == 0:
            return fmt[:i] + fmt[i + 1:], 'pad-removed'
    if kind == 'swap' and len(codes) >= 2:
        a, b = sorted(rng.sample(range(len(codes)), 2))
        ma, mb = codes[a], codes[b]
        if ma.group() != mb.group():
            return fmt[:ma.start()] + mb.group() + fmt[ma.end():mb.start()] + ma.group() + fmt[mb.end():], 'items-swapped'
    if kind == 'count' and codes:
        m = rng.choice(codes)
        return fmt[:m.start()] + str(rng.choice([0, 2, 3, 7, rng.choice(MULTI_DIGIT)])) + fmt[m.start():], 'count-inserted'
    if kind == 'structcount' and 'T{' in fmt:
        i = rng.choice([m.start() for m in re.finditer(r'T\{', fmt)])
        if i == 0 or not fmt[i - 1].isdigit():
            return fmt[:i] + str(rng.choice([2, 3])) + fmt[i:], 'struct-count-inserted'
    if kind == 'endian':
        body = fmt.lstrip('@=<>!^')
        return rng.choice(['>', '!']) + body, 'big-endian'
    if kind == 'dup' and codes:
        m = rng.choice(codes)
        return fmt[:m.end()] + m.group() + fmt[m.end():], 'item-duplicated'
    if kind == 'drop' and len(codes) >= 2:
        m = rng.choice(codes)
        return fmt[:m.start()] + fmt[m.end():], 'item-dropped'
    if kind == 'arraydim' and '(' in fmt:
        return re.sub(r'\((\d+)', lambda m: '(%d' % (int(m.group(1)) + rng.choice([-1, 1])), fmt, count=1), 'array-dim-changed'
    if kind == 'truncate' and len(fmt) > 2:
        return fmt[:rng.randrange(1, len(fmt))], 'truncated'
    if kind == 'brace':
        return rng.choice([fmt + '}', 'T{' + fmt, fmt.replace('}', '', 1) if '}' in fmt else fmt + 'T{']), 'brace-unbalanced'
    return fmt + rng.choice(ALL_CODES), 'item-appended'


MALFORMED = ['', 'y', '&', 'Z', 'Zi', 'T', 'T{', '}', 'T{}', '(3', '(3)', '(a)i', '3', '99999999999i', 'i}', '{i}', 'ii:a', ':a', 'T{i:a}',
             '(2,)(2,)i', '3(2)i', '-1i', 'i,d', 'T{i}}', 'T{T{i}', '4294967297x', 'Ti', 'z', '@', '<', '=>i', '0i', '0T{i}']


def random_format(rng, depth=0):
    n = rng.randint(1, 4)
    out = []
    for _ in range(n):
        w = rng.random()
        if w < 0.1:
            out.append(rng.choice('@=<>!^'))
        if w < 0.25 and depth < 2:
            out.append(('%d' % rng.randint(1, 3) if rng.random() < 0.3 else '') + 'T{' + random_format(rng, depth + 1) + '}')
        elif w < 0.35:
            out.append('%dx' % (rng.randint(1, 4) if rng.random() < 0.7 else rng.choice(MULTI_DIGIT)) if rng.random() < 0.5 else 'x')
        else:
            c = rng.choice(ALL_CODES)
            if rng.random() < 0.15:
                c = '(%s)%s' % (','.join(str(rng.randint(1, 3) if rng.random() < 0.7 else rng.choice(MULTI_DIGIT[:16])) for _ in range(rng.randint(1, 2))), c)
            elif rng.random() < 0.25:
                c = '%d%s' % (rng.randint(1, 4) if rng.random() < 0.7 else rng.choice(MULTI_DIGIT), c)
            out.append(c)
        if rng.random() < 0.2:
            out.append(':f%d:' % rng.randint(0, 9))
        if rng.random() < 0.1:
            out.append(' ')
    return ''.join(out)


# ------------------------------------------------------------------------------------------------ layouts
def layout(acc, rng, itemsize):
    """(shape, strides or None, layout kind) for an accessor; kinds: contig-c, contig-f, strided, negative, ndim-wrong"""
    nd = acc.ndim
    w = rng.random()
    if w < 0.06:
        nd = nd + rng.choice([-1, 1]) if nd > 1 else 2
        shape = tuple(rng.randint(1, 3) for _ in range(nd))
        return shape, None, 'ndim-wrong'
    # items of several KB (structs with four-digit array extents): fewer of them, reading and signing every element dominates
    shape = tuple(rng.choice([0, 1, 2, 3, 3, 4] if itemsize <= 2048 else [0, 1, 1, 2]) for _ in range(nd))
    c_strides = []
    s = itemsize
    for d in reversed(shape):
        c_strides.insert(0, s)
        s *= max(d, 1)
    f_strides = []
    s = itemsize
    for d in shape:
        f_strides.append(s)
        s *= max(d, 1)
    kind = rng.choice(['contig-c', 'contig-c', 'contig-f', 'strided', 'negative', 'row-padded', 'col-padded'] if nd > 1
                      else ['contig-c', 'contig-c', 'strided', 'negative'])
    if kind == 'row-padded':        # innermost dimension contiguous, rows further apart (a[:, :k] of a wider array)
        st, s2 = [], itemsize
        for q, dd in enumerate(reversed(shape)):
            st.insert(0, s2)
            s2 *= max(dd, 1) + (2 if q == 0 else 0)
        return shape, tuple(st), kind
    if kind == 'col-padded':
        st, s2 = [], itemsize
        for q, dd in enumerate(shape):
            st.append(s2)
            s2 *= max(dd, 1) + (3 if q == 0 else 0)
        return shape, tuple(st), kind
    if kind == 'contig-c':
        return shape, tuple(c_strides), kind
    if kind == 'contig-f':
        return shape, tuple(f_strides), kind
    if kind == 'strided':
        k = rng.choice([2, 3])
        return shape, tuple(st * k for st in c_strides), kind
    return shape, tuple(-st for st in c_strides), kind


DISTINCT = set()


def gen_cases(ck, acc, rng, prod_hist, n_per):
    cases = []
    size = c17ref.sizeof(acc.dt)
    for i in range(n_per):
        w = rng.random()
        amb = None
        if w < 0.38:
            fmt, cat = matching_format(acc.dt, rng), 'match'
        elif w < 0.68:
            fmt, cat = mutate_format(matching_format(acc.dt, rng), rng)
            cat = 'near:' + cat
        elif w < 0.76:
            fmt, cat = rng.choice(MALFORMED), 'malformed'
        elif w < 0.88:
            other = rng.choice(c17ref.DTYPES)
            fmt, cat = matching_format(other, rng), 'other-dtype'
        else:
            fmt, cat = random_format(rng), 'random'
        itemsize = size
        try:
            fl = c17ref.flatten(fmt)
            for c in fl.codes:
                prod_hist[c] = prod_hist.get(c, 0) + 1
            if cat in ('other-dtype', 'random') or (cat.startswith('near') and rng.random() < 0.5):
                itemsize = fl.size if 0 < fl.size <= 64 else size
        except c17ref.Malformed:
            prod_hist['malformed'] = prod_hist.get('malformed', 0) + 1
        if rng.random() < 0.04:
            itemsize = rng.choice([1, 2, 4, 8, 16, size + 1])
        shape, strides, lk = layout(acc, rng, max(itemsize, 1))
        ro = rng.random() < 0.12
        pv = c17ref.predict(acc.dt, acc.ndim, acc.mode, acc.writable, fmt, itemsize, shape, strides, ro)
        if pv != 'ambiguous':
            DISTINCT.add((acc.name, fmt, pv, lk if pv == 'accept' else ''))
        prod_hist['verdict:' + pv] = prod_hist.get('verdict:' + pv, 0) + 1
        cases.append({'f': acc.name, 'a': '(FB(%r, %d, %r, %r, %r, %d),)' % (fmt, itemsize, shape, strides, ro, rng.randrange(10 ** 6)),
                      't': acc.tag, 'cat': cat, 'lk': lk, 'ro': ro, 'fmt': fmt, 'pv': pv})
    return cases


NP_SPECS = {
    'signed char': "'i1'", 'unsigned char': "'u1'", 'char': "'S1'", 'short': "'i2'", 'unsigned short': "'u2'", 'int': "'i4'",
    'unsigned int': "'u4'", 'long': "'i8'", 'unsigned long': "'u8'", 'long long': "np.longlong", 'unsigned long long': "np.ulonglong",
    'float': "'f4'", 'double': "'f8'", 'float complex': "'c8'", 'double complex': "'c16'",
    'S_id': "np.dtype([('a', 'i4'), ('b', 'f8')], align=True)", 'P_id': "np.dtype([('a', 'i4'), ('b', 'f8')])",
    'S_cs': "np.dtype([('a', 'i1'), ('b', 'i2'), ('c', 'i4')], align=True)", 'P_cs': "np.dtype([('a', 'i1'), ('b', 'i2'), ('c', 'i4')])",
    'S_mix': "np.dtype([('a', 'u1'), ('b', 'i8'), ('c', 'f4'), ('d', 'u2')], align=True)",
    'P_mix': "np.dtype([('a', 'u1'), ('b', 'i8'), ('c', 'f4'), ('d', 'u2')])",
    'S_ff': "np.dtype([('re', 'f4'), ('im', 'f4')], align=True)",
    'S_arr': "np.dtype([('k', 'i4'), ('v', 'f8', (3,)), ('m', 'i2', (2, 2))], align=True)",
    'S_nest': "np.dtype([('x', np.dtype([('a', 'i1'), ('b', 'i2'), ('c', 'i4')], align=True)), ('y', 'f8'), "
              "('z', np.dtype([('a', 'i4'), ('b', 'f8')], align=True))], align=True)",
    'S_cz': "np.dtype([('z', 'c16'), ('f', 'f4')], align=True)", 'S_one': "np.dtype([('q', 'u8')], align=True)",
    'S_rep': "np.dtype([(n, np.dtype([('a', 'i4'), ('b', 'f8')], align=True)) for n in 'pqr'], align=True)",
}


NP_CODE = {'signed char': 'i1', 'unsigned char': 'u1', 'short': 'i2', 'unsigned short': 'u2', 'int': 'i4', 'unsigned int': 'u4',
           'long long': 'i8', 'unsigned long long': 'u8', 'float': 'f4', 'double': 'f8'}
for _n in c17ref.WIDE_ORDER:        # NumPy spells the array members '(19,)h' and the gaps '<n>x'
    _packed, _fields = c17ref.STRUCT_SPECS[_n]
    NP_SPECS[_n] = 'np.dtype([%s]%s)' % (', '.join('(%r, %r, %r)' % (f, NP_CODE[t], tuple(dims)) if dims else '(%r, %r)' % (f, NP_CODE[t])
                                                   for f, t, dims in _fields), '' if _packed else ', align=True')


def real_exporter_cases(ck, acc, rng, n):
    cases = []
    for i in range(n):
        w = rng.random()
        other = rng.choice(list(NP_SPECS))
        dt = acc.dt if (w < 0.55 and acc.dt in NP_SPECS) else other
        seed = rng.randrange(10 ** 6)
        shape = tuple(rng.choice([0, 1, 2, 3]) for _ in range(acc.ndim))
        if rng.random() < 0.08:
            shape = shape + (2,)
        kind = rng.choice(['np', 'np', 'np-f', 'np-step', 'np-ro', 'np-swapped', 'ctypes', 'np-cols'])
        if kind == 'ctypes' and len(shape) == 1:
            cases.append({'f': acc.name, 'a': '(CTA(%r, %d, %d),)' % (dt, shape[0] or 1, seed), 't': acc.tag, 'cat': 'ctypes', 'lk': 'contig-c'})
            continue
        spec = NP_SPECS[dt]
        if kind == 'np-cols' and len(shape) == 2:
            cases.append({'f': acc.name, 'a': '(NP(%r, %r, %d)[:, :%d],)' % (spec, (shape[0], shape[1] + 2), seed, shape[1]), 't': acc.tag,
                          'cat': 'np-cols' if dt == acc.dt else 'np-cols/other-dtype', 'lk': 'row-padded'})
            continue
        if kind == 'np-swapped' and dt in ('short', 'int', 'long', 'float', 'double', 'unsigned int'):
            spec = "np.dtype(%s).newbyteorder('>')" % spec
        order = 'F' if kind == 'np-f' else 'C'
        step = 2 if kind == 'np-step' else 1
        cases.append({'f': acc.name, 'a': '(NP(%r, %r, %d, %r, %r, %d),)' % (spec, shape, seed, order, kind == 'np-ro', step),
                      't': acc.tag, 'cat': kind if dt == acc.dt else kind + '/other-dtype', 'lk': kind})
    return cases


def case_format(case):
    """format string an exporter case presents (evaluated here for NumPy / ctypes exporters)"""
    if 'fmt' in case:
        return case['fmt']
    try:
        import numpy as np
        obj = eval(case['a'], {'NP': c17ref.NP, 'CTA': c17ref.CTA, 'np': np})[0]
        return memoryview(obj).format
    except Exception:
        return None


def classify(acc, case, exp, got, crashed=False):
    def cls(o):
        if o is None:
            return '?'
        if o[0] == 'exc':
            return 'reject' if o[1] in FAMILY else 'exc:' + o[1]
        if o[1][0] == 'str':
            return 'ambiguous'
        return 'accept'
    dk = 'struct' if acc.dt in c17ref.STRUCT_SPECS else ('complex' if acc.dt in c17ref.COMPLEX else 'scalar')
    form = 'buf' if acc.legacy else 'mv'
    fmt = case_format(case)
    mal = c17ref.malformation(fmt) if fmt is not None else None
    if crashed:
        if case.get('cat') == 'ctypes' and acc.legacy:
            return 'crash:legacy-buffer:ctypes-exporter-leaves-strides-NULL'
        if fmt is not None and mal is None:
            try:
                nitems = len(c17ref.flatten(fmt).prims)
            except c17ref.Malformed:
                nitems = len(re.findall(r'Z[fdg]|[cbB?hHiIlLqQfdgOPspnNe]', re.sub(r':[^:]*:', '', fmt)))
            if nitems > len(c17ref.prims_of(acc.dt)):
                return 'crash:format-continues-after-declared-type-is-consumed'
        return 'crash:%s:%s:%s' % (dk, form, mal or case.get('cat', '?').split(':')[0].split('/')[0])
    if cls(exp) == 'accept' and cls(got) == 'accept':
        return 'values:%s:%s:%s' % (dk, form, case.get('lk'))
    if cls(exp) == 'reject' and mal == 'unbalanced-braces' and cls(got) == 'accept':
        return 'reject->accept:format-with-unbalanced-braces'
    if cls(exp) == 'reject' and mal == 'array-shape-before-padding' and cls(got) == 'accept':
        return 'reject->accept:array-shape-carried-over-padding-to-the-next-item'
    if cls(exp) == 'reject' and mal == 'dangling-repeat-count' and cls(got) == 'accept':
        return 'reject->accept:format-with-dangling-repeat-count'
    if cls(exp) == 'reject' and mal == 'zero-repeat-struct' and cls(got) == 'accept':
        return 'reject->accept:zero-repeat-count-before-struct'
    if cls(exp) == 'reject' and mal == 'unterminated-field-name':
        return 'reject->%s:format-with-unterminated-field-name' % cls(got)
    if cls(exp) == 'accept' and cls(got) == 'reject' and c17ref.leading_struct_not_first(acc.dt):
        return 'accept->reject:struct-member-that-starts-with-a-struct-at-later-position'
    return '%s->%s:%s:%s:%s:%s' % (cls(exp), cls(got), dk, form, case.get('cat', '?').split('/')[0],
                                   case.get('lk') if cls(exp) == 'accept' or case.get('lk') in ('ndim-wrong',) else 'anylayout')


def main(ck):
    tree = cy.Tree('C17')
    accs = accessors(ck)
    amap = {a.name: a for a in accs}
    # the harness exporter: plain C, built with the system compiler only
    bdir = tree.subdir('b')
    fb = tree.cbuild(os.path.join(core.VERIF, 'csrc', 'fakebuf.c'), so=os.path.join(bdir, 'fakebuf' + cy.EXT_SUFFIX))
    if not fb['ok']:
        ck.inconclusive_if(True, 'fakebuf exporter failed to build: %s' % fb['err'][-300:])
        return ck.finish(0, 0, 'n/a', [])
    nmod = ck.pick(3, 8)
    groups = [accs[i::nmod] for i in range(nmod)]
    mods, refs = {}, {}
    for gi, g in enumerate(groups):
        name = 'c17m%d' % gi
        mods[name] = PYX_PRE + c17ref.struct_decl_text() + '\n' + '\n'.join(a.pyx() for a in g)
        refs[name] = REF_PRE + '\n' + '\n'.join(a.ref() for a in g)
    d, info = tree.build_sources(mods, subdir='b', ext='.pyx')
    skipped = 0
    anchor = 0
    for name, inf in info.items():
        if not inf['ok']:
            skipped += 1
            ck.note('build failure %s at %s: %s' % (name, inf['stage'], inf['errors'][-800:]))
            continue
        ctext = open(inf['c'], encoding='utf-8', errors='replace').read()
        anchor += len(re.findall(r'__Pyx_BufFmt_CheckString\(', ctext))
    prod_hist = {}
    runs = []
    for gi, g in enumerate(groups):
        name = 'c17m%d' % gi
        if not info[name]['ok']:
            continue
        rp = os.path.join(d, name + '_ref.py')
        with open(rp, 'w') as f:
            f.write(refs[name])
        rng = ck.rng('cases%d' % gi)
        cases = []
        for a in g:
            cases += gen_cases(ck, a, rng, prod_hist, ck.pick(120, 1200))
            cases += real_exporter_cases(ck, a, rng, ck.pick(16, 120))
        for i, c in enumerate(cases):
            c['id'] = i
        runs.append((name, rp, cases))

    from concurrent.futures import ThreadPoolExecutor

    def run_one(r):
        name, rp, cases = r
        return diff.run_cases(tree, d, name, cases, ref=rp, setup=SETUP, compare={'exc_args': False, 'log': False},
                              tagdir='run_' + name, timeout=ck.pick(900, 3000), nproc=max(1, core.NCPU // 3),
                              spec_extra={'max_mismatch_records': 1000000, 'nsample': 2}, max_restarts=2000,
                              extra_env={'OPENBLAS_NUM_THREADS': '1', 'OMP_NUM_THREADS': '1'})

    with ThreadPoolExecutor(3) as ex:
        results = list(ex.map(run_one, runs))
    total_n = total_distinct = 0
    samples = []
    outcomes = {}
    by_cat = {}
    ambiguous = {}
    family_alt = 0
    hangs = []
    for (name, rp, cases), res in zip(runs, results):
        total_n += res.n
        total_distinct += res.distinct
        samples.extend(res.samples[:1])
        for k, v in res.hist.items():
            tag, cls = k.split('|', 1)
            outcomes[cls] = outcomes.get(cls, 0) + v
        mism = {m['case']['id']: m for m in res.mismatches}
        for c in cases:
            m = mism.get(c['id'])
            cat = c['cat'].split(':')[0].split('/')[0]
            if m is None:
                by_cat[cat] = by_cat.get(cat, 0) + 1
                continue
            exp, got = m['exp'], m['got']
            if exp[0] == 'ok' and exp[1][0] == 'str':       # 'AMBIGUOUS: ...' from the model: not asserted
                reason = eval(exp[1][1])[len('AMBIGUOUS: '):]
                outcome = 'accepted' if got[0] == 'ok' else ('rejected' if got[1] in FAMILY else 'other:' + got[1])
                for r in reason.split('; '):
                    ambiguous.setdefault(r, {}).setdefault(outcome, 0)
                    ambiguous[r][outcome] += 1
                if outcome.startswith('other'):
                    ck.discrepancy('ambiguous-cell:unexpected-exception:%s' % got[1], '%s on %s: %s' % (amap[c['f']].tag, c['a'][:200], got),
                                   witness(amap[c['f']], c, exp, got))
                continue
            if exp[0] == 'exc' and got[0] == 'exc' and exp[1] in FAMILY and got[1] in FAMILY:
                family_alt += 1
                by_cat[cat] = by_cat.get(cat, 0) + 1
                continue
            acc = amap[c['f']]
            ck.discrepancy(classify(acc, c, exp, got), '%s on %s: model %s, compiled %s' % (acc.tag, c['a'][:220], str(exp)[:160], str(got)[:160]),
                           witness(acc, c, exp, got))
        for cr in res.crashes:
            acc = amap[cr['case']['f']]
            if cr['kind'] == 'HANG':
                hangs.append((acc, cr['case']))
                continue
            ck.discrepancy(classify(acc, cr['case'], None, None, crashed=True),
                           'crash %s in %s on %s' % (cr['kind'], acc.tag, cr['case']['a'][:200]), witness(acc, cr['case'], None, None, stderr=cr['stderr']))
        for ft in res.fatal:
            ck.inconclusive_if(True, 'driver failed for %s: %s' % (name, str(ft)[-400:]))
    # probe: white space inside an array shape (NumPy does not emit it; nothing forbids it) - run apart with a short watchdog
    # because the format parser of the tree is suspected to loop forever on it
    probes = []
    for a in accs:
        if (a.dt, a.ndim, a.mode, a.legacy, a.const) == ('S_arr', 1, 's', False, False):
            probes.append((a, 'T{i:k:xxxx( 3)d:v:(2,2)h:m:}'))
        if (a.dt, a.ndim, a.mode, a.legacy, a.const) == ('double', 1, 's', False, False) and not ck.quick:
            probes.append((a, '(1 )d'))
    for a, fmt in probes:
        mname = [n for n, g in zip(['c17m%d' % i for i in range(nmod)], groups) if a in g][0]
        if not info[mname]['ok']:
            continue
        pc = {'f': a.name, 'a': '(FB(%r, %d, (2,), None, False, 1),)' % (fmt, c17ref.sizeof(a.dt)), 't': a.tag, 'cat': 'probe', 'lk': 'contig-c',
              'fmt': fmt, 'id': 0}
        pres = diff.run_cases(tree, d, mname, [pc], ref=os.path.join(d, mname + '_ref.py'), setup=SETUP,
                              compare={'exc_args': False, 'log': False}, tagdir='probe_' + a.name, timeout=45, nproc=1, max_restarts=1)
        total_n += pres.n
        for cr in pres.crashes:
            if cr['kind'] == 'HANG':
                hangs.append((a, pc))
            else:
                ck.discrepancy('crash:probe', 'crash %s on %s' % (cr['kind'], pc['a']), witness(a, pc, None, None, stderr=cr['stderr']))
        for m in pres.mismatches:
            if not (m['exp'][0] == 'ok' and m['exp'][1][0] == 'str'):
                ck.discrepancy(classify(a, pc, m['exp'], m['got']), '%s on %s' % (a.tag, pc['a']), witness(a, pc, m['exp'], m['got']))
    # a watchdog hit is only evidence when the case spins on the CPU by itself (load independent)
    for acc, case in hangs[:6]:
        verdict = confirm_spin(tree, d, acc, case, refs)
        if verdict == 'spins':
            ck.discrepancy('hang:format-parser:%s' % hang_kind(case), 'acquisition never returns (CPU-bound loop) in %s on %s' % (acc.tag, case['a'][:200]),
                           witness(acc, case, None, None, stderr='re-run alone: killed by RLIMIT_CPU after 15 s of CPU time'))
        else:
            ck.inconclusive_if(True, 'watchdog fired in %s (not reproduced as a CPU-bound loop: %s)' % (acc.tag, verdict))
    # reach
    nv = {k: prod_hist.pop('verdict:' + k, 0) for k in ('accept', 'reject', 'ambiguous')}
    ratio = nv['accept'] / max(1, sum(nv.values()))
    ck.inconclusive_if(skipped > 0, '%d module build(s) failed' % skipped)
    ck.inconclusive_if(anchor < 1, '__Pyx_BufFmt_CheckString absent from the generated C')
    ck.inconclusive_if(not (0.10 <= ratio <= 0.90), 'acceptance ratio %.2f outside [0.10, 0.90]' % ratio)
    need = ['prefix@', 'prefix=', 'prefix<', 'prefix>', 'prefix^', 'count', 'pad', 'struct', 'name', 'whitespace', 'array', 'complex', 'malformed']
    low = [p for p in need if prod_hist.get(p, 0) < 50]
    ck.inconclusive_if(bool(low), 'grammar productions used fewer than 50 times: %s' % low)
    return ck.finish(
        total_n, len(DISTINCT),
        'one evaluation = one acquisition attempt (plus reading all elements when it succeeds) compared with the model; '
        'distinct_nontrivial = distinct (function, format string, asserted model verdict, layout) combinations of the fakebuf cases, counted in the check process; every accessor goes through __Pyx_BufFmt_CheckString '
        '(static presence) and the model must accept between 10 % and 90 % of the cases',
        samples,
        extra={'accessors': len(accs), 'declared_dtypes': sorted({a.dt for a in accs}), 'access_forms': sorted({a.tag.split('/')[1] for a in accs}),
               'BufFmt_CheckString_calls_in_C': anchor, 'model_acceptance_ratio': round(ratio, 3), 'model_verdicts_fakebuf_cases': nv, 'outcome_classes': outcomes,
               'grammar_productions_used': dict(sorted(prod_hist.items())), 'agreeing_cases_by_category': dict(sorted(by_cat.items())),
               'rejections_with_another_class_of_the_family': family_alt,
               'cells_not_asserted': {k: v for k, v in sorted(ambiguous.items())}},
        assumptions=['format strings are read with struct-module rules (native sizes and alignment for @, standard sizes for = < > !, native '
                     'sizes without alignment for ^); T{...} nests, :name: is skipped, (d1,d2) is an array',
                     'rejection may be ValueError, TypeError or BufferError (read-only vs writable request, contiguity requests)',
                     'NOT asserted either way, only counted (cells_not_asserted): native integer codes of equal size (l/q/n), ? for a one-byte '
                     'integer, s/p string items, complex spelled as two floats and vice versa, array members not spelled (d1,d2), implicit '
                     'struct alignment/tail padding in @ mode, format size different from itemsize, big-endian prefix on single-byte items, '
                     'whitespace inside array shapes, contiguity that depends on strides of dimensions of length <= 1',
                     'plain char compares equal to either signedness (documented by Cython); element values of plain char are signed'])


def hang_kind(case):
    fmt = case.get('fmt') or ''
    if re.search(r'\([^)]*\s', fmt):
        return 'whitespace-inside-array-shape'
    return 'other'


def confirm_spin(tree, d, acc, case, refs):
    """re-run one case alone under RLIMIT_CPU: 'spins' iff the process is killed for using 20 s of CPU time"""
    script = ('import sys\nsys.path.insert(0, %r)\n%s\nimport %s as M\nargs = %s\nM.%s(*args)\nprint("returned")\n'
              % (d, SETUP, [n for n, g in refs.items() if ('def %s(' % acc.name) in g][0], case['a'], acc.name))
    r = core.run([core.PY, '-c', script], env=tree.env(d), timeout=900, cpu_s=15)
    if r.timed_out:
        return 'wall-clock timeout without using 20 s CPU'
    if r.rc is not None and r.rc < 0 and -r.rc in (24, 9):       # SIGXCPU / SIGKILL from the CPU limit
        return 'spins'
    return 'finished rc=%s' % r.rc


def witness(acc, case, exp, got, stderr=None):
    src = PYX_PRE + c17ref.struct_decl_text() + '\n' + acc.pyx()
    w = {'module_source': src, 'ref_source': REF_PRE + '\n' + acc.ref(), 'ext': '.pyx',
         'case': {k: v for k, v in case.items() if k in ('f', 'a', 't')}, 'expected': exp, 'observed': got, 'setup': SETUP,
         'cflags': [], 'directives': {}, 'declared': '%s ndim=%d mode=%s %s' % (acc.dt, acc.ndim, acc.mode, 'legacy buffer' if acc.legacy else 'memoryview'),
         'needs': 'csrc/fakebuf.c built next to the module'}
    if stderr:
        w['stderr'] = stderr[-1500:]
    return w


def replay(ck, data):
    w = data.get('witness', data)
    tree = cy.Tree('C17r')
    bdir = tree.subdir('r')
    fb = tree.cbuild(os.path.join(core.VERIF, 'csrc', 'fakebuf.c'), so=os.path.join(bdir, 'fakebuf' + cy.EXT_SUFFIX))
    d, info = tree.build_sources({'replaymod': w['module_source']}, subdir='r', ext='.pyx')
    inf = info['replaymod']
    if not inf['ok'] or not fb['ok']:
        print('build failed', inf['errors'][-1500:], fb.get('err', '')[-300:])
        return 2
    rp = os.path.join(d, 'replaymod_ref.py')
    open(rp, 'w').write(w['ref_source'])
    res = diff.run_cases(tree, d, 'replaymod', [w['case']], ref=rp, setup=w.get('setup', SETUP),
                         compare={'exc_args': False, 'log': False}, nproc=1, timeout=300)
    for m in res.mismatches:
        print('case    ', w['case'])
        print('model   ', m['exp'])
        print('observed', m['got'])
    for c in res.crashes:
        print('crash/hang', c['kind'], c['stderr'][-1200:])
    for ft in res.fatal:
        print('driver failure', ft)
    if res.mismatches or res.crashes:
        print('VIOLATION property=%s replay=<replayed>' % ck.pid)
        return 1
    print('replay: case agrees with the model now (%d evaluated)' % res.n)
    return 0 if res.n else 2
