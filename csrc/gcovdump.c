/* Linked into --coverage builds of generated modules: lets the differential driver flush the gcov
   counters explicitly (the driver leaves with os._exit, which skips the atexit dump). */
extern void __gcov_dump(void);
void verif_gcov_dump(void) { __gcov_dump(); }
