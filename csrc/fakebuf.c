/* fakebuf: a buffer exporter whose Py_buffer fields are chosen by the caller (harness for property C17).
 * Plain C on purpose: it must not depend on the compiler under test.
 *
 *   Buf(data: bytes, format: str | None, itemsize: int, shape: tuple, strides: tuple | None,
 *       readonly: bool = False, offset: int = 0)
 *
 * bf_getbuffer behaves like a well-formed PEP 3118 exporter for the *request flags* (format only with
 * PyBUF_FORMAT, BufferError for a writable request on a read-only object, for a contiguity request the
 * layout does not satisfy and for a request without strides on a non C-contiguous layout) but reports
 * exactly the caller's format / itemsize / ndim / shape / strides.  The caller is responsible for `data`
 * covering everything shape x strides can address. */
#define PY_SSIZE_T_CLEAN
#include <Python.h>
#include <string.h>

#define FB_MAXDIM 8

typedef struct {
    PyObject_HEAD
    PyObject *data;          /* bytearray holding a private copy */
    char *format;            /* malloc'ed or NULL */
    Py_ssize_t itemsize;
    int ndim;
    Py_ssize_t shape[FB_MAXDIM];
    Py_ssize_t strides[FB_MAXDIM];
    int has_strides;
    int readonly;
    Py_ssize_t offset;
    Py_ssize_t exports;
    Py_ssize_t requests;     /* number of getbuffer calls (observability) */
    int last_flags;
} FakeBuf;

static int fb_tuple_to_array(PyObject *t, Py_ssize_t *out, int *n) {
    Py_ssize_t i, len;
    if (!PyTuple_Check(t)) { PyErr_SetString(PyExc_TypeError, "tuple expected"); return -1; }
    len = PyTuple_GET_SIZE(t);
    if (len > FB_MAXDIM) { PyErr_SetString(PyExc_ValueError, "too many dimensions"); return -1; }
    for (i = 0; i < len; i++) {
        out[i] = PyLong_AsSsize_t(PyTuple_GET_ITEM(t, i));
        if (out[i] == -1 && PyErr_Occurred()) return -1;
    }
    *n = (int) len;
    return 0;
}

static int fb_init(FakeBuf *self, PyObject *args, PyObject *kwds) {
    static char *kwlist[] = {"data", "format", "itemsize", "shape", "strides", "readonly", "offset", NULL};
    PyObject *data, *fmt, *shape, *strides = Py_None;
    Py_ssize_t itemsize, offset = 0;
    int readonly = 0, nstr = 0;
    if (!PyArg_ParseTupleAndKeywords(args, kwds, "OOnO|Opn", kwlist, &data, &fmt, &itemsize, &shape, &strides,
                                     &readonly, &offset))
        return -1;
    Py_CLEAR(self->data);
    self->data = PyByteArray_FromObject(data);
    if (!self->data) return -1;
    free(self->format);
    self->format = NULL;
    if (fmt != Py_None) {
        Py_ssize_t n;
        const char *s = PyUnicode_AsUTF8AndSize(fmt, &n);
        if (!s) return -1;
        self->format = (char *) malloc((size_t) n + 1);
        if (!self->format) { PyErr_NoMemory(); return -1; }
        memcpy(self->format, s, (size_t) n + 1);
    }
    self->itemsize = itemsize;
    if (fb_tuple_to_array(shape, self->shape, &self->ndim) < 0) return -1;
    self->has_strides = 0;
    if (strides != Py_None) {
        if (fb_tuple_to_array(strides, self->strides, &nstr) < 0) return -1;
        if (nstr != self->ndim) { PyErr_SetString(PyExc_ValueError, "len(strides) != len(shape)"); return -1; }
        self->has_strides = 1;
    } else {
        Py_ssize_t st = itemsize;
        int i;
        for (i = self->ndim - 1; i >= 0; i--) { self->strides[i] = st; st *= self->shape[i]; }
    }
    self->readonly = readonly;
    self->offset = offset;
    return 0;
}

static int fb_is_contig(FakeBuf *self, char order) {
    Py_ssize_t st = self->itemsize;
    int i;
    for (i = 0; i < self->ndim; i++) if (self->shape[i] == 0) return 1;
    if (order == 'C') {
        for (i = self->ndim - 1; i >= 0; i--) {
            if (self->shape[i] != 1 && self->strides[i] != st) return 0;
            st *= self->shape[i];
        }
    } else {
        for (i = 0; i < self->ndim; i++) {
            if (self->shape[i] != 1 && self->strides[i] != st) return 0;
            st *= self->shape[i];
        }
    }
    return 1;
}

static int fb_getbuffer(FakeBuf *self, Py_buffer *view, int flags) {
    Py_ssize_t len = self->itemsize;
    int i;
    self->requests++;
    self->last_flags = flags;
    view->obj = NULL;
    if ((flags & PyBUF_WRITABLE) == PyBUF_WRITABLE && self->readonly) {
        PyErr_SetString(PyExc_BufferError, "fakebuf: object is not writable");
        return -1;
    }
    if ((flags & PyBUF_C_CONTIGUOUS) == PyBUF_C_CONTIGUOUS && !fb_is_contig(self, 'C')) {
        PyErr_SetString(PyExc_BufferError, "fakebuf: not C-contiguous");
        return -1;
    }
    if ((flags & PyBUF_F_CONTIGUOUS) == PyBUF_F_CONTIGUOUS && !fb_is_contig(self, 'F')) {
        PyErr_SetString(PyExc_BufferError, "fakebuf: not Fortran-contiguous");
        return -1;
    }
    if ((flags & PyBUF_ANY_CONTIGUOUS) == PyBUF_ANY_CONTIGUOUS && !fb_is_contig(self, 'C') && !fb_is_contig(self, 'F')) {
        PyErr_SetString(PyExc_BufferError, "fakebuf: not contiguous");
        return -1;
    }
    if ((flags & PyBUF_STRIDES) != PyBUF_STRIDES && !fb_is_contig(self, 'C')) {
        PyErr_SetString(PyExc_BufferError, "fakebuf: strides needed");
        return -1;
    }
    for (i = 0; i < self->ndim; i++) len *= self->shape[i];
    view->buf = PyByteArray_AS_STRING(self->data) + self->offset;
    view->len = len;
    view->itemsize = self->itemsize;
    view->readonly = self->readonly;
    view->ndim = self->ndim;
    view->format = (flags & PyBUF_FORMAT) ? self->format : NULL;
    view->shape = ((flags & PyBUF_ND) == PyBUF_ND) ? self->shape : NULL;
    view->strides = ((flags & PyBUF_STRIDES) == PyBUF_STRIDES) ? self->strides : NULL;
    view->suboffsets = NULL;
    view->internal = NULL;
    Py_INCREF(self);
    view->obj = (PyObject *) self;
    self->exports++;
    return 0;
}

static void fb_releasebuffer(FakeBuf *self, Py_buffer *view) {
    (void) view;
    self->exports--;
}

static void fb_dealloc(FakeBuf *self) {
    Py_CLEAR(self->data);
    free(self->format);
    Py_TYPE(self)->tp_free((PyObject *) self);
}

static PyObject *fb_new(PyTypeObject *type, PyObject *args, PyObject *kwds) {
    FakeBuf *self = (FakeBuf *) type->tp_alloc(type, 0);
    (void) args; (void) kwds;
    if (self) { self->data = NULL; self->format = NULL; self->exports = 0; self->requests = 0; self->last_flags = 0; }
    return (PyObject *) self;
}

static PyObject *fb_arr(Py_ssize_t *a, int n) {
    PyObject *t = PyTuple_New(n);
    int i;
    if (!t) return NULL;
    for (i = 0; i < n; i++) PyTuple_SET_ITEM(t, i, PyLong_FromSsize_t(a[i]));
    return t;
}

static PyObject *fb_get_format(FakeBuf *s, void *c) { (void) c; if (!s->format) Py_RETURN_NONE; return PyUnicode_FromString(s->format); }
static PyObject *fb_get_itemsize(FakeBuf *s, void *c) { (void) c; return PyLong_FromSsize_t(s->itemsize); }
static PyObject *fb_get_shape(FakeBuf *s, void *c) { (void) c; return fb_arr(s->shape, s->ndim); }
static PyObject *fb_get_strides(FakeBuf *s, void *c) { (void) c; return fb_arr(s->strides, s->ndim); }
static PyObject *fb_get_readonly(FakeBuf *s, void *c) { (void) c; return PyBool_FromLong(s->readonly); }
static PyObject *fb_get_offset(FakeBuf *s, void *c) { (void) c; return PyLong_FromSsize_t(s->offset); }
static PyObject *fb_get_exports(FakeBuf *s, void *c) { (void) c; return PyLong_FromSsize_t(s->exports); }
static PyObject *fb_get_requests(FakeBuf *s, void *c) { (void) c; return PyLong_FromSsize_t(s->requests); }
static PyObject *fb_get_data(FakeBuf *s, void *c) { (void) c; return PyBytes_FromStringAndSize(PyByteArray_AS_STRING(s->data), PyByteArray_GET_SIZE(s->data)); }

static PyGetSetDef fb_getset[] = {
    {"format", (getter) fb_get_format, NULL, NULL, NULL},
    {"itemsize", (getter) fb_get_itemsize, NULL, NULL, NULL},
    {"shape", (getter) fb_get_shape, NULL, NULL, NULL},
    {"strides", (getter) fb_get_strides, NULL, NULL, NULL},
    {"readonly", (getter) fb_get_readonly, NULL, NULL, NULL},
    {"offset", (getter) fb_get_offset, NULL, NULL, NULL},
    {"exports", (getter) fb_get_exports, NULL, NULL, NULL},
    {"requests", (getter) fb_get_requests, NULL, NULL, NULL},
    {"data", (getter) fb_get_data, NULL, NULL, NULL},
    {NULL, NULL, NULL, NULL, NULL}
};

static PyBufferProcs fb_as_buffer = {(getbufferproc) fb_getbuffer, (releasebufferproc) fb_releasebuffer};

static PyTypeObject FakeBufType = {
    PyVarObject_HEAD_INIT(NULL, 0)
    .tp_name = "fakebuf.Buf",
    .tp_basicsize = sizeof(FakeBuf),
    .tp_dealloc = (destructor) fb_dealloc,
    .tp_as_buffer = &fb_as_buffer,
    .tp_flags = Py_TPFLAGS_DEFAULT,
    .tp_doc = "buffer exporter with caller-chosen Py_buffer fields",
    .tp_getset = fb_getset,
    .tp_init = (initproc) fb_init,
    .tp_new = fb_new,
};

static struct PyModuleDef fakebufmodule = {PyModuleDef_HEAD_INIT, "fakebuf", NULL, -1, NULL, NULL, NULL, NULL, NULL};

PyMODINIT_FUNC PyInit_fakebuf(void) {
    PyObject *m;
    if (PyType_Ready(&FakeBufType) < 0) return NULL;
    m = PyModule_Create(&fakebufmodule);
    if (!m) return NULL;
    Py_INCREF(&FakeBufType);
    if (PyModule_AddObject(m, "Buf", (PyObject *) &FakeBufType) < 0) { Py_DECREF(&FakeBufType); Py_DECREF(m); return NULL; }
    return m;
}
