/* C12 harness: a small CPython extension around the REAL decompressor text of the tree under observation.
 * "c12_lzss_section.inc" is written at check time from Cython's own UtilityCode.load("DecompressString_LZSS",
 * "StringTools.c") (proto + impl).  Built with -fsanitize=address,undefined.
 * The compressed bytes are copied into a malloc block of exactly the compressed length and decompressed into a
 * block of exactly the uncompressed length, so that ASan's red zones see every over-read / over-write. */
#define PY_SSIZE_T_CLEAN
#include <Python.h>
#include <stdint.h>
#include <stdlib.h>
#include <string.h>

#ifndef CYTHON_UNUSED
#define CYTHON_UNUSED __attribute__((__unused__))
#endif
#ifndef CYTHON_SMALL_CODE
#define CYTHON_SMALL_CODE __attribute__((cold))
#endif
#ifndef CYTHON_UNUSED_VAR
#define CYTHON_UNUSED_VAR(x) (void)(x)
#endif
#ifndef likely
#define likely(x)   __builtin_expect(!!(x), 1)
#define unlikely(x) __builtin_expect(!!(x), 0)
#endif
#define __Pyx_PyBytes_AsWritableUString(s) ((unsigned char*) PyBytes_AS_STRING(s))

#include "c12_lzss_section.inc"

/* raw(compressed: bytes, n: int) -> (output bytes, consumed) : calls __pyx_lzss_decompress on exact-size heap blocks */
static PyObject *c12_raw(PyObject *self, PyObject *args) {
    const char *comp; Py_ssize_t clen, n;
    if (!PyArg_ParseTuple(args, "y#n", &comp, &clen, &n)) return NULL;
    uint8_t *src = (uint8_t*) malloc((size_t) clen);
    uint8_t *dst = (uint8_t*) malloc((size_t) n);
    if ((!src && clen) || (!dst && n)) { free(src); free(dst); return PyErr_NoMemory(); }
    if (clen) memcpy(src, comp, (size_t) clen);
    if (n) memset(dst, 0xEE, (size_t) n);
    size_t consumed = __pyx_lzss_decompress(src, dst, (size_t) n);
    PyObject *out = PyBytes_FromStringAndSize((const char*) dst, n);
    free(src); free(dst);
    if (!out) return NULL;
    return Py_BuildValue("(Nn)", out, (Py_ssize_t) consumed);
}

/* full(compressed: bytes, n: int) -> bytes : the wrapper generated modules call (RuntimeError when consumed != len) */
static PyObject *c12_full(PyObject *self, PyObject *args) {
    const char *comp; Py_ssize_t clen, n;
    if (!PyArg_ParseTuple(args, "y#n", &comp, &clen, &n)) return NULL;
    char *src = (char*) malloc((size_t) clen);
    if (!src && clen) return PyErr_NoMemory();
    if (clen) memcpy(src, comp, (size_t) clen);
    PyObject *r = __Pyx_DecompressString_LZSS(src, (size_t) clen, (size_t) n);
    free(src);
    return r;
}

static PyMethodDef c12_methods[] = {
    {"raw", c12_raw, METH_VARARGS, "raw(compressed, n) -> (bytes, consumed)"},
    {"full", c12_full, METH_VARARGS, "full(compressed, n) -> bytes"},
    {NULL, NULL, 0, NULL}
};

static struct PyModuleDef c12_module = {PyModuleDef_HEAD_INIT, "c12_lzss_harness", NULL, -1, c12_methods};

PyMODINIT_FUNC PyInit_c12_lzss_harness(void) {
    return PyModule_Create(&c12_module);
}
