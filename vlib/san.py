"""Sanitizer support (monitor M2): ASan+UBSan builds of generated modules loaded into the uninstrumented
CPython through LD_PRELOAD, report collection from log files, de-duplication."""
import glob
import os
import re
import subprocess

SAN_CFLAGS = ['-g', '-fsanitize=address,undefined', '-fno-omit-frame-pointer', '-fsanitize-recover=address,undefined']
SAN_OPT = '-O1'
_libasan = None


def libasan():
    global _libasan
    if _libasan is None:
        _libasan = subprocess.run(['gcc', '-print-file-name=libasan.so'], capture_output=True, text=True).stdout.strip()
    return _libasan


def run_env(logdir, tag='san'):
    os.makedirs(logdir, exist_ok=True)
    base = os.path.join(logdir, tag)
    return {
        'LD_PRELOAD': libasan(),
        'ASAN_OPTIONS': 'detect_leaks=0:halt_on_error=0:abort_on_error=0:allocator_may_return_null=1:'
                        'handle_segv=0:handle_sigfpe=0:handle_abort=0:handle_sigill=0:log_path=%s.asan' % base,
        'UBSAN_OPTIONS': 'print_stacktrace=1:halt_on_error=0:log_path=%s.ubsan' % base,
        'PYTHONMALLOC': 'malloc',
    }


_ASAN_HEAD = re.compile(r'==\d+==ERROR: AddressSanitizer: ([\w-]+)')
_UBSAN_LINE = re.compile(r'^(\S+?):(\d+):(\d+): runtime error: (.*)$')
_FRAME = re.compile(r'^\s*#(\d+) 0x[0-9a-f]+ in (\S+)(?: (\S+?):(\d+))?')


def parse_logs(logdir):
    """Returns list of reports: {tool, kind, func, file, line, text}"""
    reports = []
    for path in sorted(glob.glob(os.path.join(logdir, '*'))):
        if not os.path.isfile(path):
            continue
        try:
            text = open(path, errors='replace').read()
        except OSError:
            continue
        lines = text.splitlines()
        i = 0
        while i < len(lines):
            ln = lines[i]
            m = _ASAN_HEAD.search(ln)
            if m:
                func = None
                j = i + 1
                block = [ln]
                while j < len(lines) and not _ASAN_HEAD.search(lines[j]) and j < i + 80:
                    block.append(lines[j])
                    fm = _FRAME.match(lines[j])
                    if fm and func is None and not fm.group(2).startswith('__interceptor') and fm.group(2) not in ('memcpy', 'memmove', 'memset', 'strlen'):
                        func = fm.group(2)
                        ffile, fline = fm.group(3), fm.group(4)
                    j += 1
                reports.append({'tool': 'asan', 'kind': m.group(1), 'func': func or '?', 'text': '\n'.join(block[:40]),
                                'log': os.path.basename(path)})
                i = j
                continue
            u = _UBSAN_LINE.match(ln)
            if u:
                func = None
                block = [ln]
                j = i + 1
                while j < len(lines) and j < i + 30 and lines[j].strip().startswith('#'):
                    block.append(lines[j])
                    fm = _FRAME.match(lines[j])
                    if fm and func is None:
                        func = fm.group(2)
                    j += 1
                kind = re.sub(r'0x[0-9a-f]+', 'ADDR', u.group(4))
                kind = re.sub(r'-?\d+(\.\d+)?(e[+-]?\d+)?', 'N', kind)[:90]
                reports.append({'tool': 'ubsan', 'kind': kind, 'func': func or '?', 'file': os.path.basename(u.group(1)),
                                'line': int(u.group(2)), 'text': '\n'.join(block[:20]), 'log': os.path.basename(path)})
                i = j
                continue
            i += 1
    return reports


def is_helper(func):
    """True for compiler-provided helper/utility code, False for the body of a user function."""
    if not func or func == '?':
        return True
    if re.match(r'__pyx_(pf|pw|f|gb|lambda|fuse)_', func) or func.startswith('__pyx_pymod_exec') or func.startswith('__pyx_specialmethod'):
        return False
    return True


def dedupe_key(r):
    return '%s:%s:%s' % (r['tool'], re.sub(r'\d+', 'N', r['func']), r['kind'])
