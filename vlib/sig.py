"""Deep, type-qualified signatures of observations (JSON-serialisable, comparable with ==)."""
import types

_CALLABLE_NAMES = {'function', 'cython_function_or_method', 'builtin_function_or_method', 'method',
                   'fused_cython_function', 'method_descriptor', 'wrapper_descriptor'}


def sig(x, depth=0):
    if depth > 12:
        return ['<deep>']
    t = type(x)
    tn = t.__name__
    if x is None or t is bool or t is int or t is float or t is complex or t is str or t is bytes:
        return [tn, repr(x)]
    if t is Ellipsis.__class__ or x is NotImplemented:
        return [tn]
    if t is bytearray:
        return [tn, repr(bytes(x))]
    if t is list or t is tuple:
        return [tn, [sig(e, depth + 1) for e in x]]
    if t is dict:
        return [tn, [[sig(k, depth + 1), sig(v, depth + 1)] for k, v in x.items()]]
    if t is set or t is frozenset:
        return [tn, sorted((sig(e, depth + 1) for e in x), key=repr)]
    if t is slice:
        return [tn, sig(x.start, depth + 1), sig(x.stop, depth + 1), sig(x.step, depth + 1)]
    if t is range:
        return [tn, repr(x)]
    if t is type:
        return ['type', x.__name__]
    if t is memoryview:
        try:
            return [tn, x.format, list(x.shape), repr(x.tobytes())]
        except Exception:
            return [tn]
    v = getattr(t, '__vsig__', None)
    if v is not None:
        try:
            return [tn, 'vsig', sig(v(x), depth + 1)]
        except Exception as e:
            return [tn, 'vsig-error', type(e).__name__]
    if isinstance(x, BaseException):
        return sig_exc(x, depth + 1)
    # subclasses of builtins: qualify with the subclass name, show the base value
    for base, conv in ((bool, None), (int, int), (float, float), (complex, complex), (str, str), (bytes, bytes),
                       (list, list), (tuple, tuple), (dict, dict), (set, set), (frozenset, frozenset),
                       (bytearray, bytes)):
        if conv is not None and isinstance(x, base):
            try:
                if base is int:
                    bv = int.__repr__(x) if not isinstance(x, bool) else repr(bool(x))
                    return ['sub:' + tn, 'int', bv]
                if base is float:
                    return ['sub:' + tn, 'float', float.__repr__(x)]
                if base is str:
                    return ['sub:' + tn, 'str', str.__repr__(x)]
                if base is bytes:
                    return ['sub:' + tn, 'bytes', bytes.__repr__(x)]
                if base in (list, tuple):
                    return ['sub:' + tn, base.__name__, [sig(e, depth + 1) for e in base.__iter__(x)]]
                if base is dict:
                    return ['sub:' + tn, 'dict', [[sig(k, depth + 1), sig(dict.__getitem__(x, k), depth + 1)]
                                                  for k in dict.__iter__(x)]]
                if base in (set, frozenset):
                    return ['sub:' + tn, base.__name__, sorted((sig(e, depth + 1) for e in base.__iter__(x)), key=repr)]
                return ['sub:' + tn, base.__name__, repr(conv(x))]
            except Exception as e:
                return ['sub:' + tn, 'sig-error', type(e).__name__]
    if tn in _CALLABLE_NAMES or isinstance(x, (types.FunctionType, types.BuiltinFunctionType, types.MethodType)):
        return ['callable', getattr(x, '__name__', '?')]
    if tn in ('generator', 'coroutine', 'async_generator'):
        return [tn]
    if t.__module__ == 'numpy' or tn == 'ndarray':
        try:
            import numpy
            if isinstance(x, numpy.ndarray):
                return ['ndarray', str(x.dtype), list(x.shape), repr(x.tolist())]
            if isinstance(x, numpy.generic):
                return ['npscalar', str(x.dtype), repr(x.item())]
        except Exception:
            pass
    return ['obj', tn]


def sig_exc(e, depth=0, with_args=True, chain=False):
    out = ['exc', type(e).__name__]
    if with_args:
        try:
            out.append(sig(e.args, depth + 1))
        except Exception:
            out.append('args-error')
    if chain and depth < 6:
        c = e.__cause__
        k = e.__context__
        out.append(['cause', sig_exc(c, depth + 1, with_args, True) if c is not None else None])
        out.append(['context', sig_exc(k, depth + 1, with_args, True) if k is not None else None])
        out.append(['suppress', bool(e.__suppress_context__)])
        if isinstance(e, BaseExceptionGroup):
            out.append(['group', [sig_exc(s, depth + 1, with_args, True) for s in e.exceptions]])
    return out


def exc_type_only(e):
    return ['exc', type(e).__name__]
