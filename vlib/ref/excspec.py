"""C32 specification model: what a caller must observe for a C function with a given exception
specification, return type, body behaviour and call chain.  Written from the documentation
(docs/src/userguide/language_basics.rst "Error return values", wrapping_CPlusPlus.rst "Exceptions"),
not from the compiler.

Observation format (returned by every generated wrapper and by the model):
    (outcome, pyerr_left_set, unraisable_records)
    outcome = ('ret', value | '*')            '*' = value is unspecified (after a swallowed error)
            | ('exc', type name, args tuple)
    unraisable_records = [(type name, args tuple), ...] in the order they were reported
"""

UNSPEC = '*'


def effective(spec, rtype, legacy=False):
    """'propagate' or 'swallow' for a Cython-implemented function."""
    if rtype == 'object':
        return 'propagate'          # exception clause has no meaning for object returns (NULL signals)
    if spec == 'noexcept':
        return 'swallow'
    if spec == 'default' and legacy:
        return 'swallow'            # directive legacy_implicit_noexcept
    return 'propagate'


def body_outcome(meta, beh):
    """What the body of the innermost function does: ('ret', value) or ('raise', type, args)."""
    b = meta['behaviours'][str(beh)]
    if b['kind'] == 'ret':
        return ('ret', _val(b['value']))
    return ('raise', b['exc'], _val(b['args']))


def _val(v):
    # json round trip turns tuples into lists: values are tagged
    if isinstance(v, dict):
        t = v['t']
        if t == 'tuple':
            return tuple(_val(x) for x in v['v'])
        if t == 'float':
            return float(v['v'])
        if t == 'none':
            return None
        if t == 'bool':
            return bool(v['v'])
    return v


def through(effs, outcome):
    """Pass the innermost body outcome outward through functions with the given effective specs
    (inner to outer).  Returns (outcome seen by the outermost caller, unraisable records)."""
    unr = []
    for eff in effs:
        if outcome[0] == 'raise' and eff == 'swallow':
            unr.append((outcome[1], outcome[2]))
            outcome = ('ret', UNSPEC)
    return outcome, unr


def expect(meta, beh):
    out = body_outcome(meta, beh)
    out, unr = through(meta['chain'], out)
    if out[0] == 'raise':
        return (('exc', out[1], out[2]), False, unr)
    v = out[1]
    if v != UNSPEC:
        v = apply_ctx(meta, v)
    return (('ret', v), False, unr)


def apply_ctx(meta, v):
    """value transformation the wrapper applies for its call context (e.g. `f(x) + 1`)."""
    ctx = meta['post']
    if ctx == 'id':
        return v
    if ctx == 'none':       # statement context: value discarded
        return None
    if ctx == 'plus1':
        return v + 1
    if ctx == 'not':
        return not v
    if ctx == 'first':      # struct attribute
        return v[0]
    if ctx == 'isnull':
        return v is None
    if ctx == 'pair':
        return (v, 1)
    raise ValueError(ctx)


def masked(meta, beh):
    """True when the returned value is unspecified for this case (an error was swallowed)."""
    out = body_outcome(meta, beh)
    out, unr = through(meta['chain'], out)
    return out == ('ret', UNSPEC)


def for_ctx(meta, ci):
    """flatten the per-wrapper metadata to the selected caller context"""
    m = dict(meta)
    m.update(meta['ctxs'][str(ci)])
    return m


def make(meta):
    def fn(ctx, beh, mask=0):
        return expect(for_ctx(meta, ctx), beh)
    return fn


def make_cpp(meta):
    def fn(ctx, beh, mask=0):
        return cpp_expect(for_ctx(meta, ctx), beh)
    return fn


# ---------------------------------------------------------------- C++ `except +`
# documented translation table (wrapping_CPlusPlus.rst); OSError is what IOError names on Python 3
CPP_TABLE = {
    'bad_alloc': 'MemoryError', 'bad_cast': 'TypeError', 'bad_typeid': 'TypeError',
    'domain_error': 'ValueError', 'invalid_argument': 'ValueError', 'ios_failure': 'OSError',
    'out_of_range': 'IndexError', 'overflow_error': 'OverflowError', 'range_error': 'ArithmeticError',
    'underflow_error': 'ArithmeticError',
    # "all others"
    'runtime_error': 'RuntimeError', 'logic_error': 'RuntimeError', 'custom_std': 'RuntimeError',
    'int': 'RuntimeError', 'custom_nonstd': 'RuntimeError',
    # subclasses are caught by their documented base
    'custom_oor': 'IndexError',
}
HAS_MESSAGE = {'domain_error', 'invalid_argument', 'out_of_range', 'overflow_error', 'range_error',
               'underflow_error', 'runtime_error', 'logic_error', 'custom_std', 'custom_oor'}


def cpp_body(meta, beh):
    b = meta['behaviours'][str(beh)]
    if b['kind'] == 'ret':
        return ('ret', _val(b['value']))
    if b['kind'] == 'pyerr':          # function sets a Python error itself and returns (only `except +*`)
        return ('raise', b['exc'], _val(b['args']))
    cpp = b['cpp']
    spec = meta['spec']
    if spec in ('plus', 'plusstar'):
        ty = CPP_TABLE[cpp]
        if cpp in HAS_MESSAGE:
            return ('raise', ty, ('m_' + cpp,))
        if cpp in ('int', 'custom_nonstd'):
            return ('raise', ty, ('Unknown exception',))
        return ('raise', ty, None)      # what() text of the C++ library: not modelled
    if spec == 'pluscls':
        # "catch any C++ error and raise the given Python exception in its place"; what() kept if any
        if cpp in HAS_MESSAGE:
            return ('raise', meta['cls'], ('m_' + cpp,))
        if cpp in ('int', 'custom_nonstd'):
            return ('raise', meta['cls'], ())
        return ('raise', meta['cls'], None)
    if spec == 'plusfn':
        # custom handler sets LookupError('handler') for even behaviours and nothing for odd ones
        if beh % 2 == 0:
            return ('raise', 'LookupError', ('handler',))
        return ('raise', 'RuntimeError', ('Error converting c++ exception.',))
    raise ValueError(spec)


def cpp_expect(meta, beh):
    out = cpp_body(meta, beh)
    out, unr = through(meta['chain'], out)
    if out[0] == 'raise':
        return (('exc', out[1], out[2]), False, unr)
    v = out[1]
    if v != UNSPEC:
        v = apply_ctx(meta, v)
    return (('ret', v), False, unr)
