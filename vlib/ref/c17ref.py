"""Reference model for C17 (buffer acquisition): PEP 3118 / struct format flattener, declared-dtype layouts
(through ctypes, i.e. the platform C ABI), the acceptance decision and element decoding with struct/ctypes.

Pure Python; nothing in here is compiled by the compiler under test."""
import ctypes
import random
import struct

# ------------------------------------------------------------------------------------------ declared dtypes
SCALARS = {
    'signed char': (ctypes.c_byte, 'int'), 'unsigned char': (ctypes.c_ubyte, 'uint'), 'char': (ctypes.c_char, 'char'),
    'short': (ctypes.c_short, 'int'), 'unsigned short': (ctypes.c_ushort, 'uint'), 'int': (ctypes.c_int, 'int'),
    'unsigned int': (ctypes.c_uint, 'uint'), 'long': (ctypes.c_long, 'int'), 'unsigned long': (ctypes.c_ulong, 'uint'),
    'long long': (ctypes.c_longlong, 'int'), 'unsigned long long': (ctypes.c_ulonglong, 'uint'),
    'float': (ctypes.c_float, 'float'), 'double': (ctypes.c_double, 'float'),
}


class _CF(ctypes.Structure):
    _fields_ = [('re', ctypes.c_float), ('im', ctypes.c_float)]


class _CD(ctypes.Structure):
    _fields_ = [('re', ctypes.c_double), ('im', ctypes.c_double)]


COMPLEX = {'float complex': _CF, 'double complex': _CD}
_CHAR_SIGNED = True        # plain char is signed on x86-64 Linux (the only platform here)

# name -> (packed, [(field, type name, dims)])
STRUCT_SPECS = {
    'S_id': (False, [('a', 'int', ()), ('b', 'double', ())]),
    'P_id': (True, [('a', 'int', ()), ('b', 'double', ())]),
    'S_cs': (False, [('a', 'char', ()), ('b', 'short', ()), ('c', 'int', ())]),
    'P_cs': (True, [('a', 'char', ()), ('b', 'short', ()), ('c', 'int', ())]),
    'S_mix': (False, [('a', 'unsigned char', ()), ('b', 'long long', ()), ('c', 'float', ()), ('d', 'unsigned short', ())]),
    'P_mix': (True, [('a', 'unsigned char', ()), ('b', 'long long', ()), ('c', 'float', ()), ('d', 'unsigned short', ())]),
    'S_ff': (False, [('re', 'float', ()), ('im', 'float', ())]),
    'S_arr': (False, [('k', 'int', ()), ('v', 'double', (3,)), ('m', 'short', (2, 2))]),
    'S_nest': (False, [('x', 'S_cs', ()), ('y', 'double', ()), ('z', 'S_id', ())]),
    'S_deep': (False, [('h', 'unsigned short', ()), ('n', 'S_nest', ()), ('t', 'signed char', ())]),
    'S_cz': (False, [('z', 'double complex', ()), ('f', 'float', ())]),
    'S_one': (False, [('q', 'unsigned long long', ())]),
    'S_rep': (False, [('p', 'S_id', ()), ('q', 'S_id', ()), ('r', 'S_id', ())]),
}
STRUCT_ORDER = ['S_id', 'P_id', 'S_cs', 'P_cs', 'S_mix', 'P_mix', 'S_ff', 'S_arr', 'S_nest', 'S_deep', 'S_cz', 'S_one', 'S_rep']

# Declared dtypes whose exact formats need MULTI-DIGIT numbers: array extents and runs of equal members (spelled as repeat
# counts) from 10 up. The extents put every digit 0-9 into a non-leading position (second digit of two-digit numbers, second
# and third digit of three-digit ones, 4th of four-digit ones) and include the round values 10/100/1000 and the 99/199 boundaries.
# Arrays of the one-byte types are avoided: Cython converts char/signed char/unsigned char arrays to NUL-terminated bytes.
WIDE_EXTENTS = [10, 21, 32, 43, 54, 65, 76, 87, 98, 19, 11, 29, 90, 99, 100, 109, 119, 190, 199, 208, 255, 1000, 1009]
WIDE_ORDER = []


def _wide_structs():
    elem = ['short', 'int', 'double', 'unsigned short', 'float', 'long long']
    groups = [WIDE_EXTENTS[i:i + 3] for i in range(0, len(WIDE_EXTENTS), 3)]
    for gi, ext in enumerate(groups):
        name = '%s_w%d' % ('P' if gi % 4 == 3 else 'S', gi)
        fields = [('k', ['int', 'signed char', 'unsigned short'][gi % 3], ())]
        for j, e in enumerate(ext):
            t = elem[(gi + 2 * j) % len(elem)] if e < 100 else ['short', 'unsigned short'][j % 2]
            dims = (e,)
            if e < 100 and (gi + j) % 4 == 1:
                dims = (2, e)
            elif e < 100 and (gi + j) % 4 == 3:
                dims = (e, 3)
            fields.append(('v%d' % j, t, dims))
        STRUCT_SPECS[name] = (name.startswith('P'), fields)
        WIDE_ORDER.append(name)
    # runs of equal scalar members: '12h19i10d' / '29b10q' when the exporter pools them into repeat counts
    STRUCT_SPECS['S_run'] = (False, [('h%d' % i, 'short', ()) for i in range(12)] + [('i%d' % i, 'int', ()) for i in range(19)]
                             + [('d%d' % i, 'double', ()) for i in range(10)])
    STRUCT_SPECS['P_run'] = (True, [('b%d' % i, 'signed char', ()) for i in range(29)] + [('q%d' % i, 'long long', ()) for i in range(10)]
                             + [('f%d' % i, 'float', ()) for i in range(101)])
    WIDE_ORDER.extend(['S_run', 'P_run'])
    STRUCT_ORDER.extend(WIDE_ORDER)


_wide_structs()
CT = {}


def _ctype_of(name):
    if name in SCALARS:
        return SCALARS[name][0]
    if name in COMPLEX:
        return COMPLEX[name]
    return CT[name]


for _n in STRUCT_ORDER:
    _packed, _fields = STRUCT_SPECS[_n]
    _fl = []
    for _f, _t, _dims in _fields:
        _ct = _ctype_of(_t)
        for _d in reversed(_dims):
            _ct = _ct * _d
        _fl.append((_f, _ct))
    _ns = {'_fields_': _fl}
    if _packed:
        _ns['_pack_'] = 1
    CT[_n] = type(_n, (ctypes.Structure,), _ns)

DTYPES = list(SCALARS) + list(COMPLEX) + STRUCT_ORDER


def struct_decl_text():
    out = []
    for n in STRUCT_ORDER:
        packed, fields = STRUCT_SPECS[n]
        out.append('cdef %sstruct %s:' % ('packed ' if packed else '', n))
        for f, t, dims in fields:
            out.append('    %s %s%s' % (t, f, ''.join('[%d]' % d for d in dims)))
        out.append('')
    return '\n'.join(out)


def sizeof(dt):
    return ctypes.sizeof(_ctype_of(dt))


def prims_of(dt, base=0, ct=None):
    """flattened primitive members of a declared dtype: [(offset, kind, size)]"""
    ct = ct or _ctype_of(dt)
    if dt in SCALARS:
        return [(base, SCALARS[dt][1], ctypes.sizeof(ct), CANON_CODE[dt], None)]
    if dt in COMPLEX:
        return [(base, 'complex', ctypes.sizeof(ct), CANON_CODE[dt], None)]
    out = []
    packed, fields = STRUCT_SPECS[dt]
    for (f, t, dims) in fields:
        off = getattr(ct, f).offset
        n = 1
        for d in dims:
            n *= d
        esz = sizeof(t)
        for i in range(n):
            sub = prims_of(t, base + off + i * esz)
            if dims:
                sub = [(o, k, z, c, tuple(dims)) for (o, k, z, c, a) in sub]
            out += sub
    return out


CANON_CODE = {'signed char': 'b', 'unsigned char': 'B', 'char': 'c', 'short': 'h', 'unsigned short': 'H', 'int': 'i',
              'unsigned int': 'I', 'long': 'l', 'unsigned long': 'L', 'long long': 'q', 'unsigned long long': 'Q', 'float': 'f',
              'double': 'd', 'float complex': 'Zf', 'double complex': 'Zd'}


def has_arrays(dt):
    if dt not in STRUCT_SPECS:
        return False
    return any(dims or has_arrays(t) for f, t, dims in STRUCT_SPECS[dt][1])


def decode(dt, raw):
    """Python value of one element of declared dtype dt held in raw bytes (struct -> tuple, array -> list)"""
    if dt in SCALARS:
        ct, kind = SCALARS[dt]
        if kind == 'char':
            return ctypes.c_byte.from_buffer_copy(raw).value if ctypes.c_char(b'\xff').value and _CHAR_SIGNED else raw[0]
        return ct.from_buffer_copy(raw).value
    if dt in COMPLEX:
        c = COMPLEX[dt].from_buffer_copy(raw)
        return complex(c.re, c.im)
    ct = CT[dt]
    out = []
    for f, t, dims in STRUCT_SPECS[dt][1]:
        off = getattr(ct, f).offset
        esz = sizeof(t)

        def arr(dims, off):
            if not dims:
                return decode(t, raw[off:off + esz])
            inner = esz
            for d in dims[1:]:
                inner *= d
            return [arr(dims[1:], off + i * inner) for i in range(dims[0])]
        out.append(arr(tuple(dims), off))
    return tuple(out)


def conv(x):
    """normal form of what the compiled reader returns (struct elements arrive as dicts)"""
    if isinstance(x, dict):
        return tuple(conv(v) for v in x.values())
    if isinstance(x, (list, tuple)) and not isinstance(x, bytes):
        return type(x)(conv(e) for e in x) if isinstance(x, tuple) else [conv(e) for e in x]
    if isinstance(x, bytes) and len(x) == 1:
        return x[0]
    return x


# ------------------------------------------------------------------------------------------ format flattener
class Malformed(ValueError):
    pass


CODE_KIND = {'c': 'char', 'b': 'int', 'B': 'uint', '?': 'bool', 'h': 'int', 'H': 'uint', 'i': 'int', 'I': 'uint', 'l': 'int',
             'L': 'uint', 'q': 'int', 'Q': 'uint', 'n': 'int', 'N': 'uint', 'f': 'float', 'd': 'float', 'g': 'float', 'e': 'float',
             'O': 'obj', 'P': 'ptr', 's': 'bytes', 'p': 'bytes'}
STD_SIZE = {'c': 1, 'b': 1, 'B': 1, '?': 1, 'h': 2, 'H': 2, 'i': 4, 'I': 4, 'l': 4, 'L': 4, 'q': 8, 'Q': 8, 'f': 4, 'd': 8,
            'e': 2, 's': 1, 'p': 1}
NATIVE_ONLY = {'n', 'N', 'P', 'O', 'g'}


def native_size(c):
    if c == 'g':
        return ctypes.sizeof(ctypes.c_longdouble)
    if c == 'O':
        return ctypes.sizeof(ctypes.c_void_p)
    return struct.calcsize('@' + c)


def native_align(c):
    if c == 'g':
        return ctypes.alignment(ctypes.c_longdouble)
    if c == 'O':
        return ctypes.alignment(ctypes.c_void_p)
    return struct.calcsize('@b' + c) - struct.calcsize('@' + c)


class Flat:
    def __init__(self):
        self.prims = []         # (offset, kind, size, code, array dims or None)
        self.size = 0
        self.flags = set()      # reasons why PEP 3118 does not settle the meaning
        self.nonnative = False  # a '>' / '!' prefix governs at least one item
        self.codes = set()      # grammar productions used


def flatten(fmt):
    """Flatten a PEP 3118 format string; raises Malformed. Offsets follow struct-module rules per mode."""
    fl = Flat()
    pos = [0]
    n = len(fmt)
    mode = ['@']

    def peek():
        return fmt[pos[0]] if pos[0] < n else ''

    def parse_items(base, in_struct):
        off = base
        maxalign = 1
        count = None
        shape = None
        while True:
            c = peek()
            if c == '':
                if in_struct:
                    raise Malformed('unbalanced brace')
                if count is not None or shape is not None:
                    raise Malformed('dangling count')
                return off, maxalign
            if c in ' \t\n\r':
                pos[0] += 1
                fl.codes.add('whitespace')
                continue
            if c in '@=<>!^':
                mode[0] = c
                pos[0] += 1
                fl.codes.add('prefix' + c)
                continue
            if c.isdigit():
                j = pos[0]
                while j < n and fmt[j].isdigit():
                    j += 1
                if count is not None:
                    raise Malformed('two counts')
                count = int(fmt[pos[0]:j])
                if count > 10 ** 6:
                    raise Malformed('huge count')
                pos[0] = j
                fl.codes.add('count')
                continue
            if c == '(':
                j = fmt.find(')', pos[0])
                if j < 0:
                    raise Malformed('unterminated array shape')
                inner = fmt[pos[0] + 1:j]
                parts = [q.strip() for q in inner.split(',')]
                if len(parts) > 1 and parts[-1] == '':
                    parts.pop()
                if not parts or not all(q.isdigit() for q in parts):
                    raise Malformed('bad array shape')
                dims = [int(q) for q in parts]
                if ' ' in inner:
                    fl.flags.add('whitespace inside array shape')
                if count is not None:
                    fl.flags.add('repeat count combined with an array shape')
                shape = dims
                pos[0] = j + 1
                fl.codes.add('array')
                continue
            if c == ':':
                j = fmt.find(':', pos[0] + 1)
                if j < 0:
                    raise Malformed('unterminated field name')
                pos[0] = j + 1
                fl.codes.add('name')
                continue
            if c == '}':
                if not in_struct:
                    raise Malformed('unbalanced brace')
                if count is not None or shape is not None:
                    raise Malformed('dangling count')
                pos[0] += 1
                return off, maxalign
            if c == 'T':
                if peek_at(1) != '{':
                    raise Malformed('T without brace')
                fl.codes.add('struct')
                reps = 1
                if count is not None:
                    reps = count
                    fl.codes.add('struct-repeat')
                if shape is not None:
                    for d in shape:
                        reps *= d
                count = shape = None
                start = pos[0] + 2
                for r in range(reps):
                    pos[0] = start
                    mark = len(fl.prims)
                    # first pass at the current offset; native structs start at their own alignment
                    end, align = parse_items(off, True)
                    if mode[0] == '@' and align > 1:
                        if off % align:
                            # re-parse at the aligned position
                            del fl.prims[mark:]
                            fl.flags.add('implicit struct alignment')
                            off += align - off % align
                            pos[0] = start
                            end, align = parse_items(off, True)
                        if (end - off) % align:
                            fl.flags.add('implicit struct tail padding')
                            end += align - (end - off) % align
                    maxalign = max(maxalign, align)
                    off = end
                if reps == 0:
                    # skip the body once without recording
                    pos[0] = start
                    mark = len(fl.prims)
                    parse_items(off, True)
                    del fl.prims[mark:]
                continue
            if c == 'x':
                k = count if count is not None else 1
                if shape is not None:
                    raise Malformed('array of padding')
                off += k
                count = None
                pos[0] += 1
                fl.codes.add('pad')
                continue
            is_complex = False
            if c == 'Z':
                c2 = peek_at(1)
                if c2 not in ('f', 'd', 'g'):
                    raise Malformed('Z without float code')
                is_complex = True
                pos[0] += 1
                c = c2
                fl.codes.add('complex')
            if c not in CODE_KIND:
                raise Malformed('unknown code %r' % c)
            m = mode[0]
            if m in '@^':
                size = native_size(c)
                align = native_align(c) if m == '@' else 1
            else:
                if c in NATIVE_ONLY:
                    raise Malformed('native-only code in standard mode')
                size = STD_SIZE[c]
                align = 1
            if m in '>!':
                fl.nonnative = True
            kind = CODE_KIND[c]
            if is_complex:
                size *= 2
                kind = 'complex'
            fl.codes.add('code:' + ('Z' if is_complex else '') + c)
            pos[0] += 1
            k = 1
            if c in 'sp':
                ln = count if count is not None else 1
                count = None
                if off % align:
                    off += align - off % align
                reps = 1
                if shape is not None:
                    for d in shape:
                        reps *= d
                    shape = None
                for _ in range(reps):
                    fl.prims.append((off, 'bytes', ln, c, None))
                    off += ln
                fl.flags.add("'s'/'p' string item")
                continue
            adims = None
            if count is not None and shape is not None:
                fl.flags.add('repeat count combined with an array shape')
            if count is not None:
                k = count
                count = None
            if shape is not None:
                adims = tuple(shape)
                for d in shape:
                    k *= d
                shape = None
            if off % align:
                off += align - off % align
            maxalign = max(maxalign, align)
            code = ('Z' if is_complex else '') + c
            for _ in range(k):
                fl.prims.append((off, kind, size, code, adims))
                off += size

    def peek_at(d):
        return fmt[pos[0] + d] if pos[0] + d < n else ''

    end, align = parse_items(0, False)
    fl.size = end
    return fl


# ------------------------------------------------------------------------------------------ acceptance
SAME_SIZE_LETTERS = [set('lqn'), set('LQN')]


def compare(dt, fl, itemsize):
    """('accept' | 'reject' | 'ambiguous', reason) for a flattened format against declared dtype dt"""
    want = prims_of(dt)
    got = fl.prims
    amb = set(fl.flags)
    if 'repeat count combined with an array shape' in amb:
        return 'ambiguous', 'repeat count combined with an array shape'
    if fl.nonnative:
        if all(p[2] == 1 for p in got) and len(got) == len(want):
            amb.add('big-endian prefix on single-byte items')
        else:
            return 'reject', 'non-native byte order'
    if itemsize != sizeof(dt):
        return 'reject', 'itemsize %d != sizeof %d' % (itemsize, sizeof(dt))
    if len(got) != len(want):
        # complex spelled as two floats (or the reverse) is a known grey area
        if _complex_respelled(want, got):
            return 'ambiguous', 'complex number spelled as two floats or vice versa'
        return 'reject', 'number of items differs'
    for (wo, wk, ws, wc, wa), (go, gk, gs, gc, ga) in zip(want, got):
        if ws != gs or wo != go:
            return 'reject', 'size/offset differs'
        if wa != ga:
            amb.add('array member: dimensions spelled differently from (d1,d2)')
        if wk == gk:
            if wc != gc and any(wc in g and gc in g for g in SAME_SIZE_LETTERS):
                amb.add('native integer codes of equal size (l / q / n)')
            continue
        if {wk, gk} <= {'char', 'int', 'uint'} and ws == 1 and 'char' in (wk, gk):
            continue            # plain char matches either signedness (documented)
        if gk == 'bool' and wk in ('uint', 'char', 'int') and ws == 1:
            amb.add("'?' for a one-byte integer")
            continue
        if gk == 'bytes' and ws == gs:
            amb.add("'s'/'p' string item")
            continue
        return 'reject', 'kind differs'
    if fl.size != itemsize:
        amb.add('format size differs from itemsize (trailing padding not spelled out)')
    if amb:
        return 'ambiguous', '; '.join(sorted(amb))
    return 'accept', ''


def _complex_respelled(want, got):
    def expand(ps):
        out = []
        for o, k, s, c, a in ps:
            if k == 'complex':
                out += [(o, 'float', s // 2), (o + s // 2, 'float', s // 2)]
            else:
                out.append((o, k, s))
        return out
    return expand(want) == expand(got) and want != got


def contiguity(shape, strides, itemsize, order):
    """(strict, relaxed) contiguity: relaxed ignores the strides of dimensions of length <= 1"""
    nd = len(shape)
    if 0 in shape:
        relaxed = True
    else:
        relaxed = True
        st = itemsize
        rng = range(nd - 1, -1, -1) if order == 'c' else range(nd)
        for i in rng:
            if shape[i] != 1 and strides[i] != st:
                relaxed = False
            st *= shape[i]
    strict = True
    st = itemsize
    rng = range(nd - 1, -1, -1) if order == 'c' else range(nd)
    for i in rng:
        if strides[i] != st:
            strict = False
        st *= shape[i]
    return strict, relaxed


class Ambiguous(Exception):
    pass


def describe(obj):
    """Py_buffer fields and a raw-bytes reader for an exporter"""
    mv = memoryview(obj)
    info = {'format': mv.format, 'itemsize': mv.itemsize, 'ndim': mv.ndim, 'shape': tuple(mv.shape),
            'strides': tuple(mv.strides), 'readonly': mv.readonly}
    if type(obj).__name__ == 'Buf' and hasattr(obj, 'offset'):
        info['format'] = obj.format
        return info, obj.data, obj.offset
    try:
        import numpy as np
    except ImportError:
        np = None
    if np is not None and isinstance(obj, np.ndarray):
        lo = 0
        extent = info['itemsize']
        empty = False
        for s, st in zip(info['shape'], info['strides']):
            if s == 0:
                empty = True
            elif st < 0:
                lo += (s - 1) * st
            if s:
                extent += (s - 1) * abs(st)
        if empty:
            return info, b'', 0
        addr = obj.__array_interface__['data'][0] + lo
        return info, ctypes.string_at(addr, extent), -lo
    if isinstance(obj, ctypes.Array):
        return info, bytes(obj), 0
    return info, mv.tobytes(), 0


def acquire(dt, ndim, mode, writable, obj):
    """model of `cdef <dt>[...] m = obj` followed by reading every element: list of elements, raises ValueError
    when the buffer must be rejected, Ambiguous when PEP 3118 / the documentation leave the cell open"""
    info, data, base = describe(obj)
    if info['ndim'] != ndim:
        raise ValueError('ndim')
    if writable and info['readonly']:
        raise ValueError('read-only')
    fmt = info['format']
    if fmt is None:
        raise Ambiguous('format NULL')
    try:
        fl = flatten(fmt)
    except Malformed as e:
        raise ValueError('malformed: %s' % e)
    verdict, why = compare(dt, fl, info['itemsize'])
    if verdict == 'reject':
        raise ValueError(why)
    shape, strides = info['shape'], info['strides']
    amb = None if verdict == 'accept' else why
    if mode in ('c', 'f'):
        strict, relaxed = contiguity(shape, strides, info['itemsize'], mode)
        if not relaxed:
            raise ValueError('not contiguous')
        if not strict:
            amb = (amb + '; ' if amb else '') + 'contiguity depends on strides of dimensions of length <= 1'
    if amb:
        raise Ambiguous(amb)
    size = sizeof(dt)

    def walk(d, off):
        if d == len(shape):
            return decode(dt, data[base + off: base + off + size])
        return [walk(d + 1, off + i * strides[d]) for i in range(shape[d])]
    return walk(0, 0)


# ------------------------------------------------------------------------------------------ exporters (driver side)
def FB(fmt, itemsize, shape, strides=None, readonly=False, seed=0):
    """fakebuf exporter over seeded random bytes large enough for shape x strides"""
    import fakebuf
    shape = tuple(shape)
    if strides is None:
        st, s = [], itemsize
        for d in reversed(shape):
            st.insert(0, s)
            s *= d
        strides = tuple(st)
    lo = hi = 0
    for s, st in zip(shape, strides):
        if s > 0:
            if st < 0:
                lo += (s - 1) * st
            else:
                hi += (s - 1) * st
    n = hi - lo + max(itemsize, 64) + 64
    rnd = random.Random(seed)
    data = bytes(rnd.getrandbits(8) for _ in range(n))
    return fakebuf.Buf(data, fmt, itemsize, shape, tuple(strides), readonly, -lo)


def NP(spec, shape, seed=0, order='C', readonly=False, step=1):
    """NumPy (structured) array over seeded random bytes; spec is evaluated with numpy as np"""
    import numpy as np
    dt = eval(spec, {'np': np}) if isinstance(spec, str) else spec
    dt = np.dtype(dt)
    n = 1
    for d in shape:
        n *= d
    rnd = random.Random(seed)
    raw = bytes(rnd.getrandbits(8) for _ in range(n * step * dt.itemsize))
    a = np.frombuffer(bytearray(raw), dtype=dt)
    if step != 1:
        a = a[::step]
    a = a.reshape(shape, order=order) if order == 'C' else np.asfortranarray(a.reshape(shape))
    if readonly:
        a.setflags(write=False)
    return a


def CTA(name, n, seed=0):
    """ctypes array of the structure mirroring declared dtype `name`"""
    ct = _ctype_of(name)
    rnd = random.Random(seed)
    raw = bytes(rnd.getrandbits(8) for _ in range(n * ctypes.sizeof(ct)))
    return (ct * n).from_buffer_copy(raw)


def malformation(fmt):
    """structural reason why a format string is malformed: 'unbalanced-braces', 'unterminated-field-name', or None"""
    import re
    if re.search(r'(?<![0-9])0+T\{', re.sub(r':[^:]*:', '', fmt)):
        return 'zero-repeat-struct'
    depth = 0
    i = 0
    n = len(fmt)
    while i < n:
        c = fmt[i]
        if c == ':':
            j = fmt.find(':', i + 1)
            if j < 0:
                return 'unterminated-field-name'
            i = j + 1
            continue
        if c == 'T' and i + 1 < n and fmt[i + 1] == '{':
            depth += 1
            i += 2
            continue
        if c == '}':
            depth -= 1
            if depth < 0:
                return 'unbalanced-braces'
        i += 1
    if depth:
        return 'unbalanced-braces'
    if re.search(r'[0-9]\s*(\}|$)', re.sub(r':[^:]*:', '', fmt)):
        return 'dangling-repeat-count'
    if re.search(r'\)\s*[0-9]*x', re.sub(r':[^:]*:', '', fmt)):
        return 'array-shape-before-padding'
    return None


def leading_struct_not_first(dt):
    """True when dt (or a struct inside it) has, at a position other than the first, a struct member whose own first
    member is a struct again"""
    if dt not in STRUCT_SPECS:
        return False
    for k, (f, t, dims) in enumerate(STRUCT_SPECS[dt][1]):
        if t in STRUCT_SPECS:
            first = STRUCT_SPECS[t][1][0][1]
            if k > 0 and first in STRUCT_SPECS:
                return True
            if leading_struct_not_first(t):
                return True
    return False


def predict(dt, ndim, mode, writable, fmt, itemsize, shape, strides, readonly):
    """model verdict without touching data: 'accept' | 'reject' | 'ambiguous'"""
    if len(shape) != ndim or (writable and readonly):
        return 'reject'
    try:
        fl = flatten(fmt)
    except Malformed:
        return 'reject'
    verdict, why = compare(dt, fl, itemsize)
    if verdict == 'reject':
        return 'reject'
    if strides is None:
        st, s = [], itemsize
        for d in reversed(shape):
            st.insert(0, s)
            s *= d
        strides = tuple(st)
    if mode in ('c', 'f'):
        strict, relaxed = contiguity(shape, strides, itemsize, mode)
        if not relaxed:
            return 'reject'
        if not strict:
            return 'ambiguous'
    return verdict
