"""List-of-holes reference model of an insertion-point text buffer (C49).

A buffer is a list whose items are either written fragments ``(text, markers)`` or child buffers
(holes).  ``insertion_point`` appends a fresh child, ``insert`` appends the given buffer.  The value is the
in-order concatenation.  This shares no structure with Cython/StringIOTree.py (which keeps "prepended
children + one open stream" and converts committed text into children)."""


class Hole:
    __slots__ = ('items', 'parent', 'uid')
    _n = 0

    def __init__(self):
        self.items = []
        self.parent = None
        Hole._n += 1
        self.uid = Hole._n

    # ---- mutators
    def write(self, text, markers=()):
        self.items.append((text, tuple(markers)))

    def insertion_point(self):
        c = Hole()
        c.parent = self
        self.items.append(c)
        return c

    def insert(self, other):
        other.parent = self
        self.items.append(other)

    def reset(self):
        for it in self.items:
            if type(it) is Hole:
                it.parent = None
        self.items = []

    # ---- observers (iterative: real compilations nest deeply)
    def frags(self):
        stack = [iter(self.items)]
        while stack:
            for it in stack[-1]:
                if type(it) is Hole:
                    stack.append(iter(it.items))
                    break
                yield it
            else:
                stack.pop()

    def value(self):
        return ''.join([f[0] for f in self.frags()])

    def markers(self):
        out = []
        for f in self.frags():
            out.extend(f[1])
        return out

    def empty(self):
        for f in self.frags():
            if f[0]:
                return False
        return True

    def depth(self):
        """height of the hole tree below this buffer"""
        best = 0
        stack = [(self, 0)]
        while stack:
            b, d = stack.pop()
            if d > best:
                best = d
            for it in b.items:
                if type(it) is Hole:
                    stack.append((it, d + 1))
        return best

    def nholes(self):
        n = 0
        stack = [self]
        while stack:
            b = stack.pop()
            for it in b.items:
                if type(it) is Hole:
                    n += 1
                    stack.append(it)
        return n

    def contains(self, other):
        """other is self or a descendant of self"""
        b = other
        while b is not None:
            if b is self:
                return True
            b = b.parent
        return False


def diagnose(expected_frags, observed_text):
    """How does observed_text deviate from the concatenation of expected_frags (list of texts, each unique
    and non-empty where it matters)?  Returns one of 'equal', 'lost', 'duplicated', 'reordered', 'foreign'."""
    exp = ''.join(expected_frags)
    if exp == observed_text:
        return 'equal'
    lost = dup = 0
    rest_len = len(observed_text)
    pos = []
    for f in expected_frags:
        if not f:
            continue
        c = observed_text.count(f)
        if c == 0:
            lost += 1
        elif c > 1:
            dup += 1
        else:
            pos.append(observed_text.index(f))
        rest_len -= c * len(f)
    if lost:
        return 'lost'
    if dup:
        return 'duplicated'
    if rest_len > 0:
        return 'foreign'
    if pos != sorted(pos):
        return 'reordered'
    return 'foreign'
