"""Reference decoder for C string / character literals (C11 5.1.1.2 translation phases 1-6, the parts that matter
for an initializer made of adjacent narrow string literals or a brace list of character constants).

Used by C11 as (a) the oracle of the exhaustive sweeps and (b) a postcondition on the live escape functions; it is
cross-validated on every run against gcc and clang (a disagreement makes the run inconclusive)."""

TRIGRAPHS = {'=': '#', '(': '[', '/': '\\', ')': ']', "'": '^', '<': '{', '!': '|', '>': '}', '-': '~'}
SIMPLE = {'n': 10, 't': 9, 'r': 13, 'a': 7, 'b': 8, 'f': 12, 'v': 11, '\\': 92, "'": 39, '"': 34, '?': 63}
OCT = '01234567'
HEX = '0123456789abcdefABCDEF'


class CDecodeError(ValueError):
    pass


def phase12(src):
    """trigraph replacement, then line splicing"""
    if '??' in src:
        out = []
        i, n = 0, len(src)
        while i < n:
            c = src[i]
            if c == '?' and i + 2 < n and src[i + 1] == '?' and src[i + 2] in TRIGRAPHS:
                out.append(TRIGRAPHS[src[i + 2]])
                i += 3
            else:
                out.append(c)
                i += 1
        src = ''.join(out)
    if '\\\n' in src:
        src = src.replace('\\\n', '')
    return src


def _escape(s, i, n, out):
    """s[i] is the character after a backslash; append the byte, return the next index"""
    if i >= n:
        raise CDecodeError('backslash at end')
    e = s[i]
    v = SIMPLE.get(e)
    if v is not None:
        out.append(v)
        return i + 1
    if e in OCT:
        j, v = i, 0
        while j < n and j < i + 3 and s[j] in OCT:
            v = v * 8 + ord(s[j]) - 48
            j += 1
        if v > 255:
            raise CDecodeError('octal escape out of range')
        out.append(v)
        return j
    if e == 'x':
        j, v = i + 1, 0
        while j < n and s[j] in HEX:
            v = v * 16 + int(s[j], 16)
            j += 1
        if j == i + 1:
            raise CDecodeError('\\x without digits')
        if v > 255:
            raise CDecodeError('hex escape out of range')
        out.append(v)
        return j
    raise CDecodeError('unknown escape \\%s' % e)


def decode_string_initializer(src):
    """bytes denoted by a sequence of adjacent string literals (without the implicit terminating NUL)"""
    s = phase12(src)
    out = bytearray()
    i, n = 0, len(s)
    seen = 0
    while i < n:
        c = s[i]
        if c in ' \t\n':
            i += 1
            continue
        if c != '"':
            raise CDecodeError('expected a string literal at %d: %r' % (i, s[i:i + 20]))
        seen += 1
        i += 1
        while True:
            if i >= n:
                raise CDecodeError('unterminated string literal')
            c = s[i]
            if c == '"':
                i += 1
                break
            if c == '\n':
                raise CDecodeError('newline in string literal')
            if c == '\\':
                i = _escape(s, i + 1, n, out)
            else:
                o = ord(c)
                # DEL (0x7f) is outside the basic source character set, but gcc and clang (the oracles this decoder is
                # validated against) take it as the byte itself; control characters and non-ASCII are rejected
                if o > 127 or o < 32:
                    raise CDecodeError('character outside the accepted source set: %r' % c)
                out.append(o)
                i += 1
    if not seen:
        raise CDecodeError('no string literal')
    return bytes(out)


def decode_char_constant(src):
    """value (0..255) of a character constant 'x' given with its quotes"""
    s = phase12(src)
    if len(s) < 3 or s[0] != "'" or s[-1] != "'":
        raise CDecodeError('not a character constant: %r' % src)
    body = s[1:-1]
    out = bytearray()
    if body[0] == '\\':
        j = _escape(body, 1, len(body), out)
        if j != len(body):
            raise CDecodeError('multi-character constant: %r' % src)
    else:
        if len(body) != 1 or body == "'" or body == '\n' or ord(body) > 127 or ord(body) < 32:
            raise CDecodeError('bad character constant: %r' % src)
        out.append(ord(body))
    return out[0]


def decode_char_array_initializer(src):
    """bytes denoted by {'a','b',...}"""
    s = phase12(src).strip()
    if not (s.startswith('{') and s.endswith('}')):
        raise CDecodeError('not a brace list')
    s = s[1:-1]
    out = bytearray()
    i, n = 0, len(s)
    while i < n:
        if s[i] in ' \t\n,':
            i += 1
            continue
        if s[i] != "'":
            # plain integer element (e.g. a terminating 0)
            j = i
            while j < n and s[j] not in ',':
                j += 1
            out.append(int(s[i:j].strip(), 0) & 255)
            i = j
            continue
        j = i + 1
        while True:
            if j >= n:
                raise CDecodeError('unterminated character constant')
            if s[j] == '\\':
                j += 2
                continue
            if s[j] == "'":
                break
            j += 1
        out.append(decode_char_constant(s[i:j + 1]))
        i = j + 1
    return bytes(out)


def parse_declaration(line):
    """'static const char NAME[] = INIT;' -> (NAME, INIT)"""
    head, _, init = line.partition('=')
    init = init.strip()
    if not init.endswith(';'):
        raise CDecodeError('declaration does not end in ;')
    name = head.strip().split()[-1].replace('[]', '')
    return name, init[:-1].strip()
