"""Reference side of C16 (typed memoryview indexing/slicing): exporters, NumPy-based expectations,
result normalisation shared by the compiled module and the reference model, sweep checker.

Pure Python on purpose: nothing in here is compiled by the compiler under test."""
import array
import sys

import numpy as np

SDT = np.dtype([('a', np.intc), ('b', np.float64)], align=True)
DT = {'i': np.dtype(np.intc), 'd': np.dtype(np.float64), 'B': np.dtype(np.uint8), 's': SDT}
FMT = {'i': 'i', 'd': 'd', 'B': 'B'}


def base(dt, shape):
    n = 1
    for s in shape:
        n *= s
    k = np.arange(n, dtype=np.int64)
    if dt == 's':
        a = np.zeros(n, SDT)
        a['a'] = k * 3 + 1
        a['b'] = k * 0.5 - 2.0
    elif dt == 'B':
        a = ((k * 3 + 1) % 251).astype(np.uint8)
    elif dt == 'd':
        a = k * 0.5 - 2.0
    else:
        a = (k * 3 + 1).astype(np.intc)
    return a.reshape(shape)


def _sl(n, kind):
    """(parent length, slice) selecting exactly n elements of a parent dimension"""
    if n == 0:
        return 2, slice(1, 1)
    if kind == 'step2':
        return 2 * n + 1, slice(1, 2 * n + 1, 2)
    if kind == 'rev':
        return n, slice(None, None, -1)
    if kind == 'rev2':
        return 2 * n + 1, slice(2 * n - 1, None, -2)
    if kind == 'step3':
        return 3 * n + 2, slice(2, 3 * n + 2, 3)
    raise ValueError(kind)


def X(dt, layout, shape):
    """Exporter of element kind `dt` with the requested logical shape and memory layout."""
    shape = tuple(shape)
    if layout == 'C':
        return base(dt, shape)
    if layout == 'F':
        return np.asfortranarray(base(dt, shape))
    if layout == 'T':
        return base(dt, shape[::-1]).T
    if layout in ('S', 'N', 'M'):
        kinds = {'S': ['step2'] * 3, 'N': ['rev'] * 3, 'M': ['rev2', 'step3', 'rev']}[layout]
        ps = [_sl(n, kinds[k]) for k, n in enumerate(shape)]
        big = base(dt, tuple(p[0] for p in ps))
        return big[tuple(p[1] for p in ps)]
    if layout == 'RO':
        a = base(dt, shape)
        a.setflags(write=False)
        return a
    if layout == 'ARR':
        assert len(shape) == 1 and dt in 'id'
        return array.array(FMT[dt], base(dt, shape).tolist())
    if layout == 'BA':
        assert len(shape) == 1 and dt == 'B'
        return bytearray(base(dt, shape).tobytes())
    if layout in ('MV', 'MVW'):
        raw = base(dt, shape).tobytes()
        mv = memoryview(raw if layout == 'MV' else bytearray(raw))
        if len(shape) == 1:
            return mv.cast(FMT[dt])
        return mv.cast('B').cast(FMT[dt], list(shape))
    raise ValueError(layout)


def A(obj):
    """NumPy view of any exporter (the reference array the same index is applied to)."""
    if isinstance(obj, np.ndarray):
        return obj
    return np.asarray(memoryview(obj))


def conv(x):
    if isinstance(x, list):
        return [conv(e) for e in x]
    if isinstance(x, dict):
        return tuple(conv(v) for v in x.values())
    if isinstance(x, tuple):
        return tuple(conv(e) for e in x)
    if isinstance(x, np.generic):
        return conv(x.item())
    return x


def norm(shape, strides, sub, elems):
    """Common result form. Strides of dimensions of length <= 1 and of arrays without elements are not compared
    (DESIGN C16 FA)."""
    shape = tuple(int(s) for s in shape)
    empty = 0 in shape      # no element: strides unobservable (NumPy's .strides and its buffer export disagree there)
    st = tuple(None if (shape[k] <= 1 or empty) else int(strides[k]) for k in range(len(shape)))
    subok = all(int(s) < 0 for s in sub)
    return (shape, st, 'direct' if subok else ('suboffsets', tuple(sub)), conv(elems))


def D(e):
    """description of the NumPy result of an indexing operation"""
    if isinstance(e, np.ndarray):
        if e.ndim == 0:
            return norm((), (), (), e.tolist())
        return norm(e.shape, e.strides, (-1,) * e.ndim, e.tolist())
    return conv(e)


def _walk(r, shape, prefix=()):
    if len(prefix) == len(shape):
        return r[prefix if len(prefix) != 1 else prefix[0]]
    return [_walk(r, shape, prefix + (i,)) for i in range(shape[len(prefix)])]


def DO(r, parent_ndim, idx):
    """description of the result of indexing a Cython memoryview *object* (element or memoryview)"""
    if not hasattr(r, 'strides') or isinstance(r, np.generic):
        return conv(r)
    nnone = sum(1 for e in idx if e is None) if isinstance(idx, tuple) else int(idx is None)
    if r.ndim > parent_ndim + nnone or len(r.shape) != r.ndim:
        return ('BAD-NDIM', r.ndim, len(r.shape))
    shape = tuple(r.shape)
    if any(s < 0 or s > 64 for s in shape):
        return ('BAD-SHAPE', shape)
    sub = tuple(r.suboffsets)
    if any(s >= 0 for s in sub):
        return ('SUBOFFSETS', shape, sub)
    via_buffer = np.asarray(r)
    res = norm(shape, r.strides, sub, via_buffer.tolist())
    if via_buffer.shape != shape:
        return ('BUFFER-SHAPE', shape, via_buffer.shape)
    if r.ndim >= 1:
        walked = conv(_walk(r, shape))
        if walked != res[3]:
            return ('ELEMENT-WALK', res, walked)
        ex = norm(shape, via_buffer.strides, sub, [])[1]
        if ex != res[1]:
            return ('BUFFER-STRIDES', res[1], ex)
    return res


class CK:
    """Sweep checker: called from the compiled driver loop for every index combination with the
    observed description; evaluates the reference function of the same name and keeps mismatches."""

    def __init__(self, obj, modname, fname, pkinds):
        ref = sys.modules.get('ref_' + modname)
        if ref is None:
            raise RuntimeError('reference module for %s not loaded' % modname)
        self.f = getattr(ref, fname)
        self.obj = obj
        self.shape = A(obj).shape
        self.pk = [(k[0], int(k[1:])) for k in pkinds.split()]
        self.n = 0
        self.bad = []

    def nerr(self, p):
        n = 0
        for (kind, dim), v in zip(self.pk, p):
            if kind == 'c' and v == 0:
                n += 1
            elif kind == 'i' and not (-self.shape[dim] <= v < self.shape[dim]):
                n += 1
        return n

    def __call__(self, p, got):
        try:
            exp = self.f(self.obj, *p)
        except IndexError:
            exp = 'IndexError'
        except ValueError:
            exp = 'ValueError'
        self.n += 1
        if exp != got:
            if isinstance(exp, str) and isinstance(got, str) and self.nerr(p) >= 2:
                return      # two independent errors in one index: which one is reported first is unspecified
            if len(self.bad) < 6:
                self.bad.append((tuple(p), exp, got))
            else:
                self.bad[-1] = ('more',)

    def result(self):
        return (self.n, self.bad)


def OSW(nd, dim, n):
    """object-level sweep: every slice(start, stop, step) of one dimension (bounds in [-2n-1, 2n+1] or None,
    steps -3..3 or None), the other dimensions taken whole"""
    rngv = [None] + list(range(-2 * n - 1, 2 * n + 2))
    out = []
    for a in rngv:
        for b in rngv:
            for c in (None, -3, -2, -1, 1, 2, 3):
                it = [slice(None)] * nd
                it[dim] = slice(a, b, c)
                out.append(tuple(it))
    return out
