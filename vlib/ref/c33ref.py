"""Reference model for C33: Python <-> C/C++ value conversions (from_py followed by to_py).

Types are nested tuples (JSON-able):
  ('i', ctype)  ('f', 'float'|'double')  ('str',)  ('charp', ctext)  ('cplx', 'double'|'float')
  ('vec', T) ('lst', T) ('set', T) ('uset', T) ('map', K, V) ('umap', K, V) ('pair', A, B)
  ('struct', name) ('union', name) ('arr', T, N)
cfg = {'type': 'bytes'|'str'|'bytearray', 'enc': ''|'ascii'|'utf8'} (c_string_type / c_string_encoding).
Pure Python; nothing here is compiled by the compiler under test."""
import ctypes

INT_RANGE = {}
for _name, _ct in (('signed char', ctypes.c_byte), ('unsigned char', ctypes.c_ubyte), ('short', ctypes.c_short),
                   ('unsigned short', ctypes.c_ushort), ('int', ctypes.c_int), ('unsigned int', ctypes.c_uint),
                   ('long', ctypes.c_long), ('unsigned long', ctypes.c_ulong), ('long long', ctypes.c_longlong),
                   ('unsigned long long', ctypes.c_ulonglong), ('size_t', ctypes.c_size_t),
                   ('Py_ssize_t', ctypes.c_ssize_t)):
    _bits = 8 * ctypes.sizeof(_ct)
    INT_RANGE[_name] = (0, 2 ** _bits - 1) if _ct(-1).value > 0 else (-(2 ** (_bits - 1)), 2 ** (_bits - 1) - 1)

# struct / union member tables, filled by the generator side (same tables go into the .pyx text)
STRUCTS = {
    'Pt': [('x', ('i', 'int')), ('y', ('i', 'int'))],
    'Mix': [('a', ('i', 'unsigned char')), ('b', ('f', 'double')), ('c', ('i', 'long long')), ('d', ('f', 'float'))],
    'Nest': [('p', ('struct', 'Pt')), ('n', ('i', 'short')), ('q', ('struct', 'Pt'))],
    'WArr': [('k', ('i', 'int')), ('v', ('arr', ('i', 'int'), 3)), ('w', ('arr', ('f', 'double'), 2))],
    'Deep': [('m', ('struct', 'Nest')), ('g', ('arr', ('arr', ('i', 'short'), 2), 2))],
    'WStr': [('s', ('charp', 'char*')), ('n', ('i', 'int'))],
}
UNIONS = {
    'U4': [('a', ('i', 'int')), ('b', ('i', 'unsigned int')), ('c', ('f', 'float'))],
}


class ModelError(Exception):
    pass


def _conv_int(ct, o):
    if isinstance(o, int):
        v = int(o)
    else:
        raise TypeError('an integer is required')
    lo, hi = INT_RANGE[ct]
    if not (lo <= v <= hi):
        raise OverflowError(ct)
    return v


def _conv_float(ct, o):
    if isinstance(o, float):
        v = float(o)
    elif isinstance(o, int):
        v = float(o)            # OverflowError for huge ints, as PyFloat_AsDouble
    elif hasattr(type(o), '__float__'):
        v = float(o)
    elif hasattr(type(o), '__index__'):
        v = float(o.__index__())
    else:
        raise TypeError('must be real number')
    if ct == 'float':
        v = ctypes.c_float(v).value
    return v


def _conv_str(o, cfg):
    if isinstance(o, str):
        if cfg['enc'] in ('ascii', 'utf8'):
            return o.encode(cfg['enc'])
        raise TypeError('expected bytes, str found')
    if isinstance(o, (bytes, bytearray)):
        return bytes(o)
    raise TypeError('expected bytes')


def conv_in(T, o, cfg):
    k = T[0]
    if k == 'i':
        return _conv_int(T[1], o)
    if k == 'f':
        return _conv_float(T[1], o)
    if k == 'str':
        return _conv_str(o, cfg)
    if k == 'charp':
        return _conv_str(o, cfg)
    if k == 'cplx':
        if isinstance(o, (complex, float, int)):
            z = complex(o)
        elif hasattr(type(o), '__complex__') or hasattr(type(o), '__float__') or hasattr(type(o), '__index__'):
            z = complex(o)
        else:
            raise TypeError('complex')
        if T[1] == 'float':
            z = complex(ctypes.c_float(z.real).value, ctypes.c_float(z.imag).value)
        return z
    if k in ('vec', 'lst'):
        return [conv_in(T[1], e, cfg) for e in o]
    if k in ('set', 'uset'):
        out = []
        for e in o:
            out.append(conv_in(T[1], e, cfg))
        return out
    if k in ('map', 'umap'):
        out = []
        if not hasattr(o, 'items'):
            # the property statement lists TypeError/ValueError/OverflowError for wrongly typed inputs
            raise TypeError('a mapping is required')
        for key, value in o.items():
            out.append((conv_in(T[1], key, cfg), conv_in(T[2], value, cfg)))
        return out
    if k == 'pair':
        x, y = o
        return (conv_in(T[1], x, cfg), conv_in(T[2], y, cfg))
    if k == 'struct':
        if not _mapping_check(o):
            raise TypeError('a mapping')
        vals = []
        try:
            for name, _ in STRUCTS[T[1]]:
                vals.append(o[name])
        except KeyError:
            raise ValueError('No value specified for struct attribute')
        return [conv_in(mt, v, cfg) for (name, mt), v in zip(STRUCTS[T[1]], vals)]
    if k == 'union':
        if not _mapping_check(o):
            raise TypeError('a mapping')
        length = len(o)
        last = None
        res = None
        for name, mt in UNIONS[T[1]]:
            if length:
                if name in o:
                    if last is not None:
                        raise ValueError('More than one union attribute passed')
                    res = (name, mt, conv_in(mt, o[name], cfg))
                    length -= 1
                    if not length:
                        return res
                    last = name
        if last is None:
            raise ValueError('No value specified for any of the union attributes')
        raise ValueError('More than one union attribute passed')
    if k == 'arr':
        n = T[2]
        i = n
        try:
            i = len(o)
        except (TypeError, OverflowError):
            pass
        out = []
        if i == n:
            complete = True
            i = -1
            for i, item in enumerate(o):
                if i >= n:
                    complete = False
                    break
                out.append(conv_in(T[1], item, cfg))
            if complete:
                if i + 1 == n:
                    return out
        raise IndexError('wrong number of values during array assignment')
    raise ModelError(T)


def _mapping_check(o):
    return hasattr(type(o), '__getitem__') and not isinstance(o, (int, float, type(None)))


def _out_str(b, cfg):
    if cfg['type'] == 'str':
        return b.decode(cfg['enc'] or 'ascii')
    if cfg['type'] == 'bytearray':
        return bytearray(b)
    return b


def conv_out(T, v, cfg):
    k = T[0]
    if k in ('i', 'f', 'cplx'):
        return v
    if k == 'str':
        return _out_str(v, cfg)
    if k == 'charp':
        z = v.find(b'\0')
        return _out_str(v if z < 0 else v[:z], cfg)
    if k in ('vec', 'lst'):
        return [conv_out(T[1], e, cfg) for e in v]
    if k in ('set', 'uset'):
        elems = _dedupe(T[1], v, k == 'set')
        return {conv_out(T[1], e, cfg) for e in elems}
    if k in ('map', 'umap'):
        seen = {}
        for kk, vv in v:          # std::map::insert keeps the first value of a key
            seen.setdefault(_hashable(kk), (kk, vv))
        out = {}
        for kk, vv in seen.values():
            out[conv_out(T[1], kk, cfg)] = conv_out(T[2], vv, cfg)
        return out
    if k == 'pair':
        return (conv_out(T[1], v[0], cfg), conv_out(T[2], v[1], cfg))
    if k == 'struct':
        return {name: conv_out(mt, e, cfg) for (name, mt), e in zip(STRUCTS[T[1]], v)}
    if k == 'union':
        name, mt, val = v
        raw = _pack4(mt, val)
        return {n2: _unpack4(t2, raw) for n2, t2 in UNIONS[T[1]]}
    if k == 'arr':
        return [conv_out(T[1], e, cfg) for e in v]
    raise ModelError(T)


def _pack4(mt, val):
    import struct
    if mt[0] == 'f':
        return struct.pack('=f', val)
    return struct.pack('=i' if INT_RANGE[mt[1]][0] < 0 else '=I', val)


def _unpack4(mt, raw):
    import struct
    if mt[0] == 'f':
        return struct.unpack('=f', raw)[0]
    return struct.unpack('=i' if INT_RANGE[mt[1]][0] < 0 else '=I', raw)[0]


def _hashable(v):
    if isinstance(v, list):
        return tuple(_hashable(e) for e in v)
    if isinstance(v, tuple):
        return tuple(_hashable(e) for e in v)
    return v


def _dedupe(T, v, ordered):
    seen = {}
    for e in v:
        seen.setdefault(_hashable(e), e)
    return list(seen.values())


def RT(T, o, cfg):
    """expected result of converting `o` to the C/C++ type T and back"""
    return conv_out(T, conv_in(T, o, cfg), cfg)


def N(x):
    """order-free normal form of results (dict item order of unordered containers is unspecified)"""
    if isinstance(x, dict):
        return ('dict', sorted(((N(k), N(v)) for k, v in x.items()), key=repr))
    if isinstance(x, (set, frozenset)):
        return ('set', sorted((N(e) for e in x), key=repr))
    if isinstance(x, list):
        return [N(e) for e in x]
    if isinstance(x, tuple):
        return tuple(N(e) for e in x)
    return x


class _Trk:
    """wrong-type element whose reference count is watched"""


def LEAK(f, build):
    """call f on a value holding one tracked (invalid) element; (outcome class, reference-count delta after the call)"""
    import gc
    import sys
    t = _Trk()
    gc.collect()
    r0 = sys.getrefcount(t)
    v = build(t)
    try:
        f(v)
        out = 'ok'
    except Exception as e:
        out = type(e).__name__
        e = None
    v = None
    gc.collect()
    return (out, sys.getrefcount(t) - r0)
