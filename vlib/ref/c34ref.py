"""Reference side of C34 (fused function dispatch): the dispatch rules of docs/src/userguide/fusedtypes.rst
("exact match, else the biggest corresponding numerical type"; buffers by dtype and ndim), the set of
specialisations the documentation allows for an argument, and the value each specialisation must return.

Used twice: by the reference module inside the driver (RefFused / RefTyped) and by the check process to
judge alternatives the documentation leaves open. Pure Python; not compiled by the compiler under test."""
import ctypes

# name -> (kind, size, signed)
NUM = {
    'short': ('int', 2, True), 'unsigned short': ('int', 2, False), 'int': ('int', 4, True), 'unsigned int': ('int', 4, False),
    'long': ('int', 8, True), 'unsigned long': ('int', 8, False), 'long long': ('int', 8, True),
    'unsigned long long': ('int', 8, False),
    'float': ('float', 4, True), 'double': ('float', 8, True),
    'float complex': ('complex', 8, True), 'double complex': ('complex', 16, True),
}
# "biggest" is read as the C conversion rank (sizes are platform dependent); signed/unsigned of one rank tie
RANK = {'short': 1, 'unsigned short': 1, 'int': 2, 'unsigned int': 2, 'long': 3, 'unsigned long': 3, 'long long': 4,
        'unsigned long long': 4, 'float': 5, 'double': 6, 'float complex': 7, 'double complex': 8}
PYOBJ = ('object', 'str', 'bytes', 'list', 'dict', 'K')
TYPEOF = {'object': 'Python object', 'str': 'str object', 'bytes': 'bytes object', 'list': 'list object',
          'dict': 'dict object', 'K': 'K'}


def is_mv(t):
    return '[' in t


def mv_parts(t):
    """'unsigned char[:, ::1]' -> (dtype name, ndim, mode)"""
    dt, ax = t.split('[', 1)
    axes = [a.strip() for a in ax.rstrip(']').split(',')]
    mode = 's'
    if axes[-1] == '::1':
        mode = 'c'
    elif axes[0] == '::1' and len(axes) > 1:
        mode = 'f'
    return dt, len(axes), mode


MV_DT = {'signed char': ('i', 1), 'unsigned char': ('u', 1), 'short': ('i', 2), 'unsigned short': ('u', 2), 'int': ('i', 4),
         'unsigned int': ('u', 4), 'long': ('i', 8), 'unsigned long': ('u', 8), 'long long': ('i', 8),
         'unsigned long long': ('u', 8), 'float': ('f', 4), 'double': ('f', 8), 'float complex': ('c', 8),
         'double complex': ('c', 16)}


def typeof_name(t):
    return TYPEOF.get(t, t)


TAG2TYPE = {v: k for k, v in TYPEOF.items()}


def int_range(t):
    _, size, signed = NUM[t]
    bits = size * 8
    return (-(2 ** (bits - 1)), 2 ** (bits - 1) - 1) if signed else (0, 2 ** bits - 1)


def fits(t, v):
    lo, hi = int_range(t)
    return lo <= int(v) <= hi


def f32(v):
    return ctypes.c_float(v).value


def same_float(a, b):
    return a == b or (a != a and b != b)


def akind(a):
    """dispatch-relevant class of a Python argument"""
    if isinstance(a, int):
        return 'int'
    if isinstance(a, float):
        return 'float'
    if isinstance(a, complex):
        return 'complex'
    for name, ty in (('str', str), ('bytes', bytes), ('list', list), ('dict', dict)):
        if isinstance(a, ty):
            return name if type(a) is ty else name + '-subclass'
    if a is None:
        return 'none'
    if type(a).__name__ == 'K':
        return 'K'
    try:
        import numpy as np
        if isinstance(a, np.generic):
            return {'i': 'npint', 'u': 'npint', 'f': 'npfloat', 'c': 'npcomplex'}.get(a.dtype.kind, 'other')
    except ImportError:
        pass
    try:
        memoryview(a)
        return 'buffer'
    except TypeError:
        return 'other'


def buffer_info(a):
    import numpy as np
    mv = memoryview(a)
    arr = np.asarray(a) if isinstance(a, np.ndarray) else np.asarray(mv)
    dt = arr.dtype
    return {'kind': dt.kind, 'itemsize': dt.itemsize, 'ndim': arr.ndim, 'c': bool(arr.flags.c_contiguous),
            'f': bool(arr.flags.f_contiguous), 'readonly': bool(mv.readonly), 'native': dt.isnative,
            'shape0': arr.shape[0] if arr.ndim else None}


def mv_matches(t, info):
    dt, nd, mode = mv_parts(t)
    return MV_DT[dt] == (info['kind'], info['itemsize']) and nd == info['ndim']


def mv_acquirable(t, info):
    dt, nd, mode = mv_parts(t)
    if info['readonly'] and not dt.startswith('const '):
        return False
    if not info['native']:
        return False
    if mode == 'c' and not info['c']:
        return False
    if mode == 'f' and not info['f']:
        return False
    return True


def allowed(S, a):
    """(set of type names the documentation allows for argument a, set of exception class names it allows,
    canonical choice or None)"""
    k = akind(a)
    ints = [t for t in S if t in NUM and NUM[t][0] == 'int']
    floats = [t for t in S if t in NUM and NUM[t][0] == 'float']
    cplx = [t for t in S if t in NUM and NUM[t][0] == 'complex']
    mvs = [t for t in S if is_mv(t)]
    has_obj = 'object' in S

    def biggest(ts):
        m = max(RANK[t] for t in ts)
        return [t for t in ts if RANK[t] == m]

    if k == 'int':
        if ints:
            ok = {t for t in ints if fits(t, a)}
            B = biggest(ints)
            canon = ([t for t in B if t in ok] or B)[0]
            if not ok:
                return set(ints), {'OverflowError'}, canon
            if not any(t in ok for t in B):
                return ok, {'OverflowError'}, canon      # the documented "biggest int" cannot hold the value
            return ok, set(), canon
        if has_obj:
            return {'object'}, set(), 'object'
        return set(floats + cplx), {'TypeError'}, None      # int for a float-only fused type: not determined
    if k == 'float':
        if floats:
            v = float(a)
            ok = {t for t in floats if t == 'double' or same_float(f32(v), v)}
            B = biggest(floats)
            if not ok:
                ok = set(B)
            return ok, set(), B[0]
        if has_obj:
            return {'object'} | set(cplx), set(), 'object'
        return set(cplx), {'TypeError'}, None
    if k == 'complex':
        if cplx:
            z = complex(a)
            ok = {t for t in cplx if t == 'double complex' or (same_float(f32(z.real), z.real) and same_float(f32(z.imag), z.imag))}
            B = biggest(cplx)
            if not ok:
                ok = set(B)
            return ok, set(), B[0]
        if has_obj:
            return {'object'}, set(), 'object'
        return set(), {'TypeError'}, None
    if k in ('bytes', 'bytes-subclass') and mvs and 'bytes' not in S:
        k = 'buffer'        # a bytes object is also a (read-only) buffer exporter
    if k in ('str', 'bytes', 'list', 'dict', 'K'):
        if k in S:
            return {k}, set(), k
        if has_obj:
            return {'object'}, set(), 'object'
        return set(), {'TypeError'}, None
    if k.endswith('-subclass'):
        base = k.split('-')[0]
        tags = ({base} if base in S else set()) | ({'object'} if has_obj else set())
        return tags, {'TypeError'}, ('object' if has_obj and base not in S else None)
    if k == 'none':
        tags = {t for t in S if t in PYOBJ or is_mv(t)}
        return tags, {'TypeError'}, ('object' if has_obj else None)
    if k in ('npint', 'npfloat', 'npcomplex'):
        same = {'npint': ints, 'npfloat': floats, 'npcomplex': cplx}[k]
        tags = set(same) | ({'object'} if has_obj else set())
        return tags, (set() if has_obj else {'TypeError', 'OverflowError'}), ('object' if has_obj else None)
    if k == 'buffer' and mvs:
        info = buffer_info(a)
        M = [t for t in mvs if mv_matches(t, info)]
        if M:
            ok = {t for t in M if mv_acquirable(t, info)}
            excs = {'ValueError', 'BufferError', 'TypeError'} if len(ok) < len(M) else set()
            canon = ([t for t in M if t in ok] or [None])[0]
            return ok, excs, canon
        if has_obj:
            return {'object'}, set(), 'object'
        return set(), {'TypeError'}, None
    # any other object
    if has_obj:
        return {'object'}, set(), 'object'
    return set(), {'TypeError'}, None


def value(cat, t, a):
    """what the specialisation for type t returns as its value part for argument a (or raises)"""
    if t in NUM:
        kind = NUM[t][0]
        if kind == 'int':
            if not isinstance(a, int):
                if hasattr(type(a), '__index__'):
                    a = a.__index__()
                else:
                    raise TypeError('an integer is required')
            if not fits(t, a):
                raise OverflowError(t)
            return int(a)
        if kind == 'float':
            if isinstance(a, (str, bytes, complex)) or a is None:
                raise TypeError('must be real number')
            v = float(a)
            return f32(v) if t == 'float' else v
        if isinstance(a, (str, bytes)) or a is None:
            raise TypeError('complex')
        z = complex(a)
        return complex(f32(z.real), f32(z.imag)) if t == 'float complex' else z
    if t == 'object':
        return a
    if t == 'K':
        if a is not None and type(a).__name__ != 'K':
            raise TypeError('K')
        return 'K-instance'
    if t in ('str', 'bytes', 'list', 'dict'):
        if a is not None and type(a).__name__ != t:
            raise TypeError('exact type required')
        return len(a)
    if is_mv(t):
        if a is None:
            return None
        info = buffer_info(a)
        if not mv_matches(t, info) or not mv_acquirable(t, info):
            raise ValueError('buffer mismatch')
        return (info['shape0'], info['itemsize'], info['ndim'])
    raise KeyError(t)


def index_names(idx):
    items = idx if isinstance(idx, tuple) else (idx,)
    return [i if isinstance(i, str) else repr(i) for i in items]


_SIG_CACHE = {}


def bind(shape, args, kw):
    """bind a call to a signature shape (list of parameter dicts, see props/C34.Decl) the way Python binds arguments.
    -> (dict name -> value with default values filled in, set of names that took their default); TypeError if the
    call does not fit the signature"""
    import inspect
    key = repr(shape)
    sg = _SIG_CACHE.get(key)
    if sg is None:
        ps = []
        for it in shape:
            kind = inspect.Parameter.KEYWORD_ONLY if it['kwonly'] else inspect.Parameter.POSITIONAL_OR_KEYWORD
            d = eval(it['default'], {}) if it['default'] is not None else inspect.Parameter.empty
            ps.append(inspect.Parameter(it['name'], kind, default=d))
        sg = _SIG_CACHE[key] = inspect.Signature(ps)
    ba = sg.bind(*args, **kw)
    given = set(ba.arguments)
    ba.apply_defaults()
    return dict(ba.arguments), {it['name'] for it in shape} - given


def plain_value(ctype, v):
    """what a non-fused parameter declared with C type ctype holds for argument v"""
    if ctype == 'double':
        return float(v)
    if ctype == 'long':
        if not isinstance(v, int):
            raise TypeError('an integer is required')
        return int(v)
    if ctype == 'str':
        if v is not None and type(v) is not str:
            raise TypeError('str')
    return v


class RefFused:
    """reference stand-in for a fused def/cpdef function: call dispatches by the documented rules (canonical
    choice) on the values bound to the fused parameters (arguments passed by position or keyword, or the default
    value of the parameter), indexing selects the named specialisation. shape (optional) = whole signature
    including non-fused parameters and default values; result = tags + fused values + non-fused values."""

    def __init__(self, sets, params, cat, shape=None):
        self.sets, self.params, self.cat, self.shape = sets, params, cat, shape

    def _bind(self, args, kw):
        """-> (values of the fused parameters in order, values of the non-fused parameters in order)"""
        if self.shape is None:
            if kw or len(args) != len(self.params):
                raise TypeError('argument count')
            return list(args), []
        bound, _ = bind(self.shape, args, kw)
        fused = sorted((it['i'], it['name']) for it in self.shape if it['k'] == 'F')
        plain = [plain_value(it['ctype'], bound[it['name']]) for it in self.shape if it['k'] == 'P']
        return [bound[n] for _, n in fused], plain

    def _result(self, chosen, args, plain=()):
        tags = tuple(typeof_name(chosen[p]) for p in self.params)
        vals = tuple(value(self.cat, chosen[p], a) for p, a in zip(self.params, args))
        return tags + vals + tuple(plain)

    def __call__(self, *args, **kw):
        args, plain = self._bind(args, kw)
        chosen = {}
        for p, a in zip(self.params, args):
            if p not in chosen:
                tags, excs, canon = allowed(self.sets[p], a)
                if canon is None:
                    raise TypeError('No matching signature found')
                chosen[p] = canon
        return self._result(chosen, args, plain)

    def __getitem__(self, idx):
        names = index_names(idx)
        order = []
        for p in self.params:
            if p not in order:
                order.append(p)
        if len(names) != len(order) or any(n not in self.sets[p] for n, p in zip(names, order)):
            raise KeyError('|'.join(names))
        chosen = dict(zip(order, names))

        def call(*args, **kw):
            args, plain = self._bind(args, kw)
            return self._result(chosen, args, plain)
        return call


class RefTyped:
    """reference for a typed caller of a cdef fused function: the static argument type decides"""

    def __init__(self, cat, t):
        self.cat, self.t = cat, t

    def __call__(self, a):
        return (typeof_name(self.t), value(self.cat, self.t, a))
