"""Executable models of the two implementations of C `double complex` arithmetic that Cython generates
(used by the C07/C08 classifiers to *name the mechanism* of a discrepancy, never as the oracle):

* native_*  : CYTHON_CCOMPLEX=1 - C99 `_Complex double`: `*` and `/` are gcc's __muldc3/__divdc3 (libgcc, Annex G
              recovery), `**` is libm cpow(), abs is cabs(), construction is `x + y*(double complex)_Complex_I`.
              Called through ctypes: on x86-64 SysV a struct of two doubles is passed/returned exactly like
              `_Complex double` (two SSE registers).
* helper_*  : CYTHON_CCOMPLEX=0 - the struct based code of Cython/Utility/Complex.c (Arithmetic), ported line by line
              with libm functions called through ctypes so that rounding is identical.

Only valid on x86-64 Linux with glibc/libgcc (the only platform of this task).
"""
import ctypes
import math

inf = math.inf
nan = math.nan

_libm = ctypes.CDLL('libm.so.6')
_libgcc = ctypes.CDLL('libgcc_s.so.1')


class _C(ctypes.Structure):
    _fields_ = [('r', ctypes.c_double), ('i', ctypes.c_double)]


def _d(name, nargs):
    f = getattr(_libm, name)
    f.argtypes = [ctypes.c_double] * nargs
    f.restype = ctypes.c_double
    return f


c_pow = _d('pow', 2)
c_exp = _d('exp', 1)
c_log = _d('log', 1)
c_cos = _d('cos', 1)
c_sin = _d('sin', 1)
c_atan2 = _d('atan2', 2)
c_hypot = _d('hypot', 2)
c_fabs = _d('fabs', 1)
c_sqrt = _d('sqrt', 1)
_libm.cpow.argtypes = [_C, _C]
_libm.cpow.restype = _C
_libm.cabs.argtypes = [_C]
_libm.cabs.restype = ctypes.c_double
for _n in ('__muldc3', '__divdc3'):
    _f = getattr(_libgcc, _n)
    _f.argtypes = [ctypes.c_double] * 4
    _f.restype = _C


def fdiv(a, b):
    """IEEE double division (no Python exception)"""
    try:
        return a / b
    except ZeroDivisionError:
        if a != a or a == 0:
            return nan
        return math.copysign(inf, a) * math.copysign(1.0, b)


def fmul(a, b):
    return a * b


# ----------------------------------------------------------------------------- CYTHON_CCOMPLEX=1

# The models follow the tree under observation: configure(repo) looks at Complex.c for the two places where a repair
# changes the computation (exact construction from parts; hypot() in the struct helper's abs).
FLAGS = {'from_parts_sum': True, 'helper_abs_sqrt': True}


def configure(repo):
    import os
    try:
        text = open(os.path.join(repo, 'Cython', 'Utility', 'Complex.c'), encoding='utf-8').read()
    except OSError:
        return FLAGS
    FLAGS['from_parts_sum'] = 'return x + y*(' in text
    import re
    FLAGS['helper_abs_sqrt'] = bool(re.search(r'#if\s+!defined\(HAVE_HYPOT\)', text))
    return FLAGS


def native_from_parts(x, y):
    """`x + y*(double complex)_Complex_I` as gcc evaluates it: real*complex is component-wise (y*0.0, y*1.0), then the
    real x is added to the real part only.  Turns (x, inf) into (nan, inf) and (-0.0, y>=0) into (0.0, y)."""
    if not FLAGS['from_parts_sum']:
        return complex(x, y)
    return complex(x + y * 0.0, y)


def native_roundtrip(z):
    return native_from_parts(z.real, z.imag)


def native_sum(a, b):
    return complex(a.real + b.real, a.imag + b.imag)


def native_diff(a, b):
    return complex(a.real - b.real, a.imag - b.imag)


def native_neg(a):
    return complex(-a.real, -a.imag)


def native_prod(a, b):
    z = _libgcc.__muldc3(a.real, a.imag, b.real, b.imag)
    return complex(z.r, z.i)


def native_quot(a, b):
    z = _libgcc.__divdc3(a.real, a.imag, b.real, b.imag)
    return complex(z.r, z.i)


def native_pow(a, b):
    z = _libm.cpow(_C(a.real, a.imag), _C(b.real, b.imag))
    return complex(z.r, z.i)


def native_abs(a):
    return _libm.cabs(_C(a.real, a.imag))


def native_conj(a):
    return complex(a.real, -a.imag)


# ----------------------------------------------------------------------------- CYTHON_CCOMPLEX=0 (Complex.c)

def helper_from_parts(x, y):
    return complex(x, y)


def helper_sum(a, b):
    return complex(a.real + b.real, a.imag + b.imag)


def helper_diff(a, b):
    return complex(a.real - b.real, a.imag - b.imag)


def helper_neg(a):
    return complex(-a.real, -a.imag)


def helper_conj(a):
    return complex(a.real, -a.imag)


def helper_prod(a, b):
    return complex(a.real * b.real - a.imag * b.imag, a.real * b.imag + a.imag * b.real)


def helper_quot(a, b):
    if b.imag == 0:
        return complex(fdiv(a.real, b.real), fdiv(a.imag, b.real))
    elif c_fabs(b.real) >= c_fabs(b.imag):
        if b.real == 0 and b.imag == 0:
            return complex(fdiv(a.real, b.real), fdiv(a.imag, b.imag))
        r = fdiv(b.imag, b.real)
        s = fdiv(1.0, b.real + b.imag * r)
        return complex((a.real + a.imag * r) * s, (a.imag - a.real * r) * s)
    else:
        r = fdiv(b.real, b.imag)
        s = fdiv(1.0, b.imag + b.real * r)
        return complex((a.real * r + a.imag) * s, (a.imag * r - a.real) * s)


def helper_abs(z):
    if FLAGS['helper_abs_sqrt']:      # HAVE_HYPOT is not defined by CPython >= 3.11 headers
        return c_sqrt(z.real * z.real + z.imag * z.imag)
    return c_hypot(z.real, z.imag)


def _int_cast(x):
    """(int)x on x86-64: cvttsd2si gives INT_MIN for NaN / out of range"""
    if x != x or x >= 2147483648.0 or x <= -2147483649.0:
        return -2 ** 31
    return int(x)


def helper_pow(a, b):
    ar, ai, br, bi = a.real, a.imag, b.real, b.imag
    if bi == 0 and br == _int_cast(br):
        if br < 0:
            denom = ar * ar + ai * ai
            ar, ai = fdiv(ar, denom), fdiv(-ai, denom)
            br = -br
        k = _int_cast(br)
        a2 = complex(ar, ai)
        if k == 0:
            return complex(1.0, 0.0)
        if k == 1:
            return a2
        if k == 2:
            return helper_prod(a2, a2)
        if k == 3:
            return helper_prod(helper_prod(a2, a2), a2)
        if k == 4:
            z = helper_prod(a2, a2)
            return helper_prod(z, z)
    if ai == 0:
        if ar == 0:
            return complex(ar, ai)
        elif bi == 0 and ar >= 0:
            return complex(c_pow(ar, br), 0.0)
        elif ar > 0:
            r = ar
            theta = 0.0
        else:
            r = -ar
            theta = c_atan2(0.0, -1.0)
    else:
        r = helper_abs(complex(ar, ai))
        theta = c_atan2(ai, ar)
    lnr = c_log(r)
    z_r = c_exp(lnr * br - theta * bi)
    z_theta = theta * br + lnr * bi
    return complex(z_r * c_cos(z_theta), z_r * c_sin(z_theta))


def soft(z):
    """__pyx_Py_FromSoftComplex: a float when the imaginary part is zero (NaN counts as non-zero)"""
    if z.imag:
        return z
    return z.real


NATIVE = {'from_parts': native_from_parts, 'sum': native_sum, 'diff': native_diff, 'prod': native_prod, 'quot': native_quot,
          'pow': native_pow, 'abs': native_abs, 'neg': native_neg, 'conj': native_conj}
HELPER = {'from_parts': helper_from_parts, 'sum': helper_sum, 'diff': helper_diff, 'prod': helper_prod, 'quot': helper_quot,
          'pow': helper_pow, 'abs': helper_abs, 'neg': helper_neg, 'conj': helper_conj}
