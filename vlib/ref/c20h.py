"""Logging leaves for C20/C19 (evaluation order). Pure Python, never compiled: copied next to the generated modules and
imported by both the compiled module and the CPython reference, so every observable event is produced by the same code
and only the *order/number* of events depends on the code under test.

    E = Env(log)            # log: the per-call log of the differential driver
    E.v(k, value)           # logs ('v', k) and returns value
    E.o(k)                  # logs ('o', k) and returns a logging object
    E.f(k)                  # logs ('f', k) and returns a logging callable
    E.seq(k, n)             # logs ('seq', k) and returns a logging iterable of n values
    E.m(k, names)           # logs ('m', k) and returns a logging mapping
"""


class Env:
    def __init__(self, log):
        self.log = log

    def v(self, k, val=None):
        self.log(('v', k))
        return val

    def i(self, k, val=0):
        self.log(('i', k))
        return Idx(self, k, val)

    def o(self, k, **kw):
        self.log(('o', k))
        return LObj(self, k, **kw)

    def f(self, k, ret=None):
        self.log(('f', k))
        return LFn(self, k, ret)

    def seq(self, k, n, base=0):
        self.log(('seq', k))
        return LSeq(self, k, [base + j for j in range(n)])

    def m(self, k, names=()):
        self.log(('m', k))
        return LMap(self, k, list(names))

    def b(self, k, truth):
        self.log(('b', k))
        return LBool(self, k, truth)

    def c(self, k, val, results=()):
        self.log(('c', k))
        return LCmp(self, k, val, list(results))


def _d(x):
    """description of an argument for the log (no side effects)"""
    if isinstance(x, (LObj, LFn, LSeq, LMap, LBool, Idx, LCmp)):
        return (type(x).__name__, x.k)
    if isinstance(x, slice):
        return ('slice', _d(x.start), _d(x.stop), _d(x.step))
    if isinstance(x, (tuple, list)):
        return (type(x).__name__,) + tuple(_d(e) for e in x)
    if isinstance(x, dict):
        return ('dict',) + tuple((_d(a), _d(b)) for a, b in x.items())
    if isinstance(x, (int, float, str, bytes, bool, type(None))):
        return x
    if callable(x) and not isinstance(x, type):
        return 'callable'        # plain and compiled functions have different type names
    return type(x).__name__


class Idx:
    """index object: logs __index__"""
    def __init__(self, E, k, val):
        self.E, self.k, self.val = E, k, val

    def __index__(self):
        self.E.log(('index', self.k))
        return self.val

    def __hash__(self):
        self.E.log(('hash', self.k))
        return hash(self.val)

    def __eq__(self, o):
        return isinstance(o, Idx) and o.val == self.val

    def __vsig__(self):
        return ('Idx', self.k)


class LBool:
    def __init__(self, E, k, truth):
        self.E, self.k, self.truth = E, k, truth

    def __bool__(self):
        self.E.log(('bool', self.k))
        return self.truth

    def __vsig__(self):
        return ('LBool', self.k, self.truth)


class LCmp:
    """comparison operand: logs every rich comparison / containment; results come from a script, then from values.
    A result may be 'NI' (NotImplemented), 'raise', or any object (LBool for logging truth tests)."""
    def __init__(self, E, k, val, results):
        self.E, self.k, self.val, self.results = E, k, val, results

    def _res(self, op, o, dflt):
        self.E.log((op, self.k, _d(o)))
        if self.results:
            r = self.results.pop(0)
            if r == 'NI':
                return NotImplemented
            if r == 'raise':
                raise ArithmeticError('LCmp %s %s' % (self.k, op))
            if isinstance(r, tuple) and r and r[0] == 'lbool':
                return LBool(self.E, '%s.%s' % (self.k, op), r[1])
            return r
        return dflt

    def _val(self, o):
        return o.val if isinstance(o, LCmp) else o

    def _try(self, fn, o):
        try:
            return fn(self.val, self._val(o))
        except TypeError:
            return NotImplemented

    def __lt__(self, o): return self._res('lt', o, self._try(lambda a, b: a < b, o))
    def __le__(self, o): return self._res('le', o, self._try(lambda a, b: a <= b, o))
    def __gt__(self, o): return self._res('gt', o, self._try(lambda a, b: a > b, o))
    def __ge__(self, o): return self._res('ge', o, self._try(lambda a, b: a >= b, o))
    def __eq__(self, o): return self._res('eq', o, self._try(lambda a, b: a == b, o))
    def __ne__(self, o): return self._res('ne', o, self._try(lambda a, b: a != b, o))

    def __contains__(self, o):
        return self._res('contains', o, False)

    def __hash__(self):
        self.E.log(('hash', self.k))
        return hash(self.val)

    def __bool__(self):
        self.E.log(('bool', self.k))
        return bool(self.val)

    def __vsig__(self):
        return ('LCmp', self.k)


class LFn:
    def __init__(self, E, k, ret=None):
        self.E, self.k, self.ret = E, k, ret

    def __call__(self, *a, **kw):
        self.E.log(('call', self.k, _d(a), _d(kw)))
        if self.ret == 'arg0':
            return a[0]
        return self.ret if self.ret is not None else ('ret', self.k)

    def __vsig__(self):
        return ('LFn', self.k)


class LSeq:
    def __init__(self, E, k, vals):
        self.E, self.k, self.vals = E, k, vals

    def __iter__(self):
        self.E.log(('iter', self.k))
        return LIter(self.E, self.k, list(self.vals))

    def __vsig__(self):
        return ('LSeq', self.k)


class LIter:
    def __init__(self, E, k, vals):
        self.E, self.k, self.vals = E, k, vals

    def __iter__(self):
        return self

    def __next__(self):
        if not self.vals:
            self.E.log(('stop', self.k))
            raise StopIteration
        v = self.vals.pop(0)
        self.E.log(('next', self.k, v))
        return v


class LMap:
    def __init__(self, E, k, names):
        self.E, self.k, self.names = E, k, names

    def keys(self):
        self.E.log(('keys', self.k))
        return list(self.names)

    def __getitem__(self, n):
        self.E.log(('mapget', self.k, n))
        return ('val', self.k, n)

    def __vsig__(self):
        return ('LMap', self.k)


class LObj:
    """logging object: item/attribute access, in-place and binary operators, context manager, method calls"""
    _own = ('E', 'k', 'inplace_returns_self')

    def __init__(self, E, k, inplace_returns_self=True):
        object.__setattr__(self, 'E', E)
        object.__setattr__(self, 'k', k)
        object.__setattr__(self, 'inplace_returns_self', inplace_returns_self)

    def _log(self, *a):
        self.E.log(a)

    def __getitem__(self, i):
        self._log('getitem', self.k, _d(i))
        return LObj(self.E, '%s[]' % (self.k,))

    def __setitem__(self, i, v):
        self._log('setitem', self.k, _d(i), _d(v))

    def __delitem__(self, i):
        self._log('delitem', self.k, _d(i))

    def __getattr__(self, n):
        if n.startswith('__'):
            raise AttributeError(n)
        self._log('getattr', self.k, n)
        if n.startswith('m_'):
            return LFn(self.E, '%s.%s' % (self.k, n))
        return LObj(self.E, '%s.%s' % (self.k, n))

    def __setattr__(self, n, v):
        self._log('setattr', self.k, n, _d(v))

    def __delattr__(self, n):
        self._log('delattr', self.k, n)

    def _bin(self, name, o):
        self._log(name, self.k, _d(o))
        return LObj(self.E, '%s:%s' % (self.k, name))

    def __add__(self, o): return self._bin('add', o)
    def __radd__(self, o): return self._bin('radd', o)
    def __sub__(self, o): return self._bin('sub', o)
    def __rsub__(self, o): return self._bin('rsub', o)
    def __mul__(self, o): return self._bin('mul', o)
    def __rmul__(self, o): return self._bin('rmul', o)
    def __or__(self, o): return self._bin('or', o)
    def __ror__(self, o): return self._bin('ror', o)
    def __neg__(self): return self._bin('neg', None)
    def __invert__(self): return self._bin('invert', None)

    def _ibin(self, name, o):
        self._log(name, self.k, _d(o))
        return self if self.inplace_returns_self else LObj(self.E, '%s:%s' % (self.k, name))

    def __iadd__(self, o): return self._ibin('iadd', o)
    def __isub__(self, o): return self._ibin('isub', o)
    def __imul__(self, o): return self._ibin('imul', o)
    def __ior__(self, o): return self._ibin('ior', o)

    def __call__(self, *a, **kw):
        self._log('call', self.k, _d(a), _d(kw))
        return LObj(self.E, '%s()' % (self.k,))

    def __enter__(self):
        self._log('enter', self.k)
        return LObj(self.E, '%s:as' % (self.k,))

    def __exit__(self, *a):
        self._log('exit', self.k, a[0].__name__ if a[0] else None)
        return False

    def __iter__(self):
        self._log('iter', self.k)
        return LIter(self.E, self.k, [LObj(self.E, '%s#%d' % (self.k, j)) for j in range(2)])

    def __bool__(self):
        self._log('bool', self.k)
        return True

    def __len__(self):
        self._log('len', self.k)
        return 2

    def __format__(self, spec):
        self._log('format', self.k, spec)
        return '<%s:%s>' % (self.k, spec)

    def __repr__(self):
        self._log('repr', self.k)
        return '<r%s>' % (self.k,)

    def __str__(self):
        self._log('str', self.k)
        return '<s%s>' % (self.k,)

    def __lt__(self, o): return self._bin('lt', o)
    def __gt__(self, o): return self._bin('gt', o)
    def __le__(self, o): return self._bin('le', o)
    def __ge__(self, o): return self._bin('ge', o)
    def __eq__(self, o): return self._bin('eq', o)
    def __ne__(self, o): return self._bin('ne', o)

    def __hash__(self):
        self._log('hash', self.k)
        return hash(self.k)

    def __contains__(self, x):
        self._log('contains', self.k, _d(x))
        return True

    def __vsig__(self):
        return ('LObj', self.k)
