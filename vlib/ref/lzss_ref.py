"""Independent pure-Python reference decoder for Cython's LZSS-like string-table format, written from the format
description (Cython/LZSS.py docstrings/comments), not from the C code.

Stream = groups of [flag byte][up to 8 items]; flag bits are consumed LSB first; bit 1 = literal byte, bit 0 =
back reference.  A back reference stores `gap` = distance between the END of the earlier occurrence and the current
output position, and the match length L (>= 3):
  form A  [gap (0..0x7F)] [L-3 (0..255)]
  form B  [0x80 | (g & 0x7F)] [((g & 0x180) >> 2) | (L-3)]     g = gap - 0x80 < 512, L-3 < 32, second byte < 0x80
  form C  [0x80 | (g & 0x7F)] [0x80 | (g >> 7)] [L-3]           g = gap - 0x80 < 2**14
Decoding stops as soon as `n` output bytes exist (trailing flag bits are padding).
"""


class BadStream(Exception):
    pass


def decode(comp, n):
    """returns (output bytes, consumed input length, stats dict)"""
    out = bytearray()
    pos = 0
    stats = {'literal': 0, 'A': 0, 'B': 0, 'C': 0, 'window_edge': 0, 'maxlen': 0, 'len3': 0, 'len34_35': 0,
             'A_gap_7f': 0, 'B_gap_80': 0, 'B_gap_27f': 0, 'C_gap_280': 0, 'C_gap_407f': 0}
    if n == 0:
        return b'', 0, stats
    while True:
        if pos >= len(comp):
            raise BadStream('flag byte beyond the end of the stream at %d' % pos)
        flags = comp[pos]
        pos += 1
        for bit in range(8):
            if (flags >> bit) & 1:
                if pos >= len(comp):
                    raise BadStream('literal beyond the end of the stream')
                out.append(comp[pos])
                pos += 1
                stats['literal'] += 1
            else:
                if pos + 1 >= len(comp):
                    raise BadStream('back reference beyond the end of the stream')
                lo, hi = comp[pos], comp[pos + 1]
                pos += 2
                if lo < 0x80:
                    gap, ln, form = lo, hi + 3, 'A'
                elif hi < 0x80:
                    gap, ln, form = 0x80 + (((hi & 0x60) << 2) | (lo & 0x7F)), (hi & 0x1F) + 3, 'B'
                else:
                    if pos >= len(comp):
                        raise BadStream('length byte beyond the end of the stream')
                    gap, ln, form = 0x80 + (((hi & 0x7F) << 7) | (lo & 0x7F)), comp[pos] + 3, 'C'
                    pos += 1
                start = len(out) - gap - ln
                if start < 0:
                    raise BadStream('back reference before the start of the output (gap %d, length %d at %d)' % (gap, ln, len(out)))
                out += out[start:start + ln]
                stats[form] += 1
                if gap >= 0x4080 - 4:
                    stats['window_edge'] += 1
                if ln == 258:
                    stats['maxlen'] += 1
                if ln == 3:
                    stats['len3'] += 1
                if ln in (34, 35):
                    stats['len34_35'] += 1
                if form == 'A' and gap == 0x7F:
                    stats['A_gap_7f'] += 1
                if form == 'B' and gap == 0x80:
                    stats['B_gap_80'] += 1
                if form == 'B' and gap == 0x27F:
                    stats['B_gap_27f'] += 1
                if form == 'C' and gap == 0x280:
                    stats['C_gap_280'] += 1
                if form == 'C' and gap == 0x407F:
                    stats['C_gap_407f'] += 1
            if len(out) >= n:
                return bytes(out), pos, stats
