"""Verdicts, evidence files, known findings, replay files."""
import fnmatch
import hashlib
import json
import os
import random
import sys
import time

from . import core

EXIT_HELD, EXIT_VIOLATION, EXIT_INCONCLUSIVE = 0, 1, 2


def load_known(pid):
    """Known findings: /verif/known_findings.json plus per-property fragments in
    /verif/known_findings.d/*.json (same format). Committed files, never written at run time."""
    out = []
    paths = [os.path.join(core.VERIF, 'known_findings.json')]
    d = os.path.join(core.VERIF, 'known_findings.d')
    if os.path.isdir(d):
        paths += sorted(os.path.join(d, n) for n in os.listdir(d) if n.endswith('.json'))
    for p in paths:
        if not os.path.exists(p):
            continue
        data = core.read_json(p)
        out += [f for f in data.get('findings', []) if f.get('property') == pid]
    return out


class Check:
    def __init__(self, pid, tier=None, level='exploration'):
        self.pid = pid
        self.tier = tier or os.environ.get('VERIF_TIER') or 'quick'
        if self.tier not in ('quick', 'thorough'):
            self.tier = 'quick'
        try:
            self.seed = int(os.environ.get('VERIF_SEED', '0'))
        except ValueError:
            self.seed = 0
        self.level = level
        self.t0 = time.time()
        self.known = load_known(pid)
        self.violations = {}      # key -> {what, witness, count}
        self.known_hits = {}      # key -> {what, count, example}
        self.inconclusive = []
        self.cov = {}
        self.assumptions = []
        self.notes = []

    @property
    def quick(self):
        return self.tier == 'quick'

    def pick(self, quick, thorough):
        return quick if self.quick else thorough

    def rng(self, salt=''):
        return random.Random('%s:%d:%s' % (self.pid, self.seed, salt))

    def elapsed(self):
        return time.time() - self.t0

    # ------------------------------------------------------------------ discrepancies
    def _known_entry(self, key):
        for f in self.known:
            k = f.get('key', '')
            if k == key or (('*' in k or '?' in k) and fnmatch.fnmatchcase(key, k)):
                return f
        return None

    def discrepancy(self, key, what, witness):
        """Record an observed discrepancy classified under mechanism `key`."""
        f = self._known_entry(key)
        if f is not None:
            h = self.known_hits.setdefault(key, {'what': f.get('what', what), 'count': 0, 'example': witness})
            h['count'] += 1
            return False
        v = self.violations.setdefault(key, {'what': what, 'witness': witness, 'count': 0})
        v['count'] += 1
        return True

    def inconclusive_if(self, cond, reason):
        if cond:
            self.inconclusive.append(reason)
        return cond

    def note(self, s):
        self.notes.append(s)

    # ------------------------------------------------------------------ finish
    def finish(self, evaluations, distinct_nontrivial, rule, samples, extra=None, assumptions=None):
        cov = {'evaluations': int(evaluations), 'distinct_nontrivial': int(distinct_nontrivial), 'rule': rule,
               'samples': list(samples)[:12] if samples else []}
        cov.update(self.cov)
        if extra:
            cov.update(extra)
        cov['known_findings_matched'] = {k: v['count'] for k, v in self.known_hits.items()}
        cov['violation_keys'] = {k: v['count'] for k, v in self.violations.items()}
        cov['inconclusive_reasons'] = list(self.inconclusive)
        if self.notes:
            cov['notes'] = self.notes
        cov['tree'] = core.REPO
        if not cov['samples']:
            cov['samples'] = ['<no case was observed>']
        if evaluations < 1 or distinct_nontrivial < 2:
            self.inconclusive.append('too few observed cases (evaluations=%d distinct_nontrivial=%d)'
                                     % (evaluations, distinct_nontrivial))
            cov['inconclusive_reasons'] = list(self.inconclusive)
        ev = {'property_id': self.pid, 'tier': self.tier, 'seed': self.seed, 'level': self.level,
              'coverage': cov, 'assumptions': (assumptions or []) + self.assumptions,
              'wall_s': round(time.time() - self.t0, 2), 'violations': len(self.violations),
              'verdict': 'violated' if self.violations else ('inconclusive' if self.inconclusive else 'held')}
        core.write_json(os.path.join(core.VERIF, 'evidence', self.pid + '.json'), ev)
        for key, h in sorted(self.known_hits.items()):
            print('KNOWN-FINDING: property=%s %s [key=%s, %d case(s) this run]' % (self.pid, h['what'], key, h['count']))
        rc = EXIT_HELD
        if self.violations:
            rc = EXIT_VIOLATION
            rdir = os.path.join(core.VERIF, 'replay', self.pid)
            for key, v in sorted(self.violations.items()):
                hh = hashlib.sha1((self.pid + key).encode()).hexdigest()[:12]
                path = os.path.join(rdir, hh + '.json')
                core.write_json(path, {'property': self.pid, 'key': key, 'what': v['what'], 'count': v['count'],
                                       'tier': self.tier, 'seed': self.seed, 'tree': core.REPO,
                                       'witness': v['witness']})
                print('VIOLATION property=%s replay=%s' % (self.pid, path))
                print('  detail: key=%s count=%d: %s' % (key, v['count'], str(v['what'])[:300]))
        elif self.inconclusive:
            rc = EXIT_INCONCLUSIVE
            for r in self.inconclusive:
                print('INCONCLUSIVE property=%s reason=%s' % (self.pid, r))
        print('%s tier=%s seed=%d verdict=%s evaluations=%d distinct_nontrivial=%d wall=%.1fs' % (
            self.pid, self.tier, self.seed, ev['verdict'], evaluations, distinct_nontrivial, ev['wall_s']))
        sys.stdout.flush()
        return rc
