"""Runner for the boundary differential driver: parallel chunks, crash/hang isolation and restart."""
import json
import os
from concurrent.futures import ThreadPoolExecutor

from . import core


class DiffResult:
    def __init__(self):
        self.n = 0
        self.mismatches = []     # dicts {i, case, exp, got}
        self.nmismatch = 0
        self.hist = {}
        self.distinct = 0
        self.samples = []
        self.crashes = []        # dicts {case, kind, stderr}
        self.fatal = []          # driver-level failures (import errors etc.)

    def merge_hist(self, h):
        for k, v in h.items():
            self.hist[k] = self.hist.get(k, 0) + v

    def tags_seen(self):
        return {k.split('|', 1)[0] for k in self.hist}


def dedupe(cases):
    seen = set()
    out = []
    for c in cases:
        k = json.dumps(c, sort_keys=True)
        if k not in seen:
            seen.add(k)
            out.append(c)
    return out


def run_cases(tree, builddir, mod, cases, ref=None, ref_mod=None, nproc=None, compare=None, env_mods=None,
              setup=None, preset=None, timeout=600, extra_env=None, extra_path=(), tagdir=None, spec_extra=None,
              max_restarts=25, as_gb=6):
    """Evaluate cases (list of dicts) on compiled module `mod` (in builddir) and the reference.
    One build configuration per call (each chunk is its own process)."""
    res = DiffResult()
    if not cases:
        return res
    nproc = max(1, min(nproc or core.NCPU, (len(cases) + 199) // 200))
    d = tree.subdir(tagdir or ('run_' + mod))
    chunks = [cases[i::nproc] for i in range(nproc)]

    def one(ci, timeout=timeout):
        chunk = chunks[ci]
        cf = os.path.join(d, 'cases_%d.json' % ci)
        with open(cf, 'w') as f:
            json.dump(chunk, f)
        out = os.path.join(d, 'out_%d.jsonl' % ci)
        prog = os.path.join(d, 'prog_%d' % ci)
        for p in (out, prog):
            if os.path.exists(p):
                os.unlink(p)
        start = 0
        local = {'mis': [], 'crashes': [], 'fatal': [], 'done': []}
        restarts = 0
        while start < len(chunk):
            spec = {'builddir': builddir, 'mod': mod, 'cases': cf, 'out': out, 'progress': prog, 'start': start,
                    'compare': compare or {}, 'setup': setup, 'preset': preset}
            if ref_mod:
                spec['ref_mod'] = ref_mod
            else:
                spec['ref'] = ref
            if env_mods is not None:
                spec['env'] = env_mods
            if spec_extra:
                spec.update(spec_extra)
            sf = os.path.join(d, 'spec_%d.json' % ci)
            with open(sf, 'w') as f:
                json.dump(spec, f)
            if os.path.exists(prog):
                os.unlink(prog)
            r = core.run([core.PY, '-m', 'vlib.diffdriver', sf],
                         env=tree.env(builddir, *extra_path, extra=extra_env), timeout=timeout, as_gb=as_gb)
            finished = False
            if os.path.exists(out):
                with open(out) as f:
                    lines = f.read().splitlines()
                os.unlink(out)
                for ln in lines:
                    try:
                        rec = json.loads(ln)
                    except ValueError:
                        continue
                    if rec.get('done'):
                        local['done'].append(rec)
                        finished = True
                    else:
                        local['mis'].append(rec)
            if finished and r.rc == 0:
                break
            # abnormal end: identify the case in flight
            at = None
            if os.path.exists(prog):
                try:
                    at = int(open(prog).read().strip() or -1)
                except ValueError:
                    at = None
            if at is None or at < start or at >= len(chunk):
                local['fatal'].append({'rc': r.rc, 'timed_out': r.timed_out, 'stderr': (r.err or '')[-3000:],
                                       'stdout': (r.out or '')[-1000:]})
                break
            if r.timed_out:
                # a watchdog firing on a loaded machine is not a verdict: confirm by running the in-flight case alone
                sf1 = os.path.join(d, 'spec_%d_confirm.json' % ci)
                cf1 = os.path.join(d, 'cases_%d_confirm.json' % ci)
                with open(cf1, 'w') as f:
                    json.dump([chunk[at]], f)
                spec1 = dict(spec, cases=cf1, start=0, out=out + '.confirm', progress=prog + '.confirm')
                spec1.pop('dump_outcomes', None)
                with open(sf1, 'w') as f:
                    json.dump(spec1, f)
                r1 = core.run([core.PY, '-m', 'vlib.diffdriver', sf1],
                              env=tree.env(builddir, *extra_path, extra=extra_env), timeout=max(120, timeout // 4), as_gb=as_gb)
                for p in (out + '.confirm', prog + '.confirm'):
                    if os.path.exists(p):
                        os.unlink(p)
                if not r1.timed_out and r1.rc == 0:
                    # the case terminates on its own: the chunk was merely slow; resume from it with more time
                    local['done'].append({'n': at - start, 'nmismatch': 0, 'hist': {}, 'distinct': 0, 'samples': []})
                    start = at
                    timeout = timeout * 2
                    restarts += 1
                    local.setdefault('slow', 0)
                    local['slow'] += 1
                    if restarts > max_restarts:
                        local['fatal'].append({'rc': r.rc, 'stderr': 'too many restarts (slow machine)', 'timed_out': True})
                        break
                    continue
            local['crashes'].append({'case': chunk[at], 'kind': 'HANG' if r.timed_out else 'CRASH rc=%s' % r.rc,
                                     'stderr': (r.err or '')[-3000:]})
            # cases before `at` in this segment were observed but their summary was lost; count them
            local['done'].append({'n': at - start + 1, 'nmismatch': 0, 'hist': {}, 'distinct': 0, 'samples': []})
            start = at + 1
            restarts += 1
            if restarts > max_restarts:
                local['fatal'].append({'rc': r.rc, 'stderr': 'too many restarts', 'timed_out': False})
                break
        return local

    with ThreadPoolExecutor(nproc) as ex:
        locals_ = list(ex.map(one, range(nproc)))
    for loc in locals_:
        res.mismatches.extend(loc['mis'])
        res.crashes.extend(loc['crashes'])
        res.fatal.extend(loc['fatal'])
        for dn in loc['done']:
            res.n += dn['n']
            res.nmismatch += dn.get('nmismatch', 0)
            res.merge_hist(dn.get('hist', {}))
            res.distinct += dn.get('distinct', 0)
            res.samples.extend(dn.get('samples', []))
    res.nmismatch = max(res.nmismatch, len(res.mismatches))
    return res
