"""Generic replay of an E-diff witness: rebuild the module from the witness and re-run the one case."""
import json

from . import cy, diff


def replay_diff(ck, data):
    w = data.get('witness', data)
    src = w.get('module_source') or w.get('function_source')
    case = w.get('case')
    if not src or not case:
        print('witness is not replayable generically; content follows')
        print(json.dumps(w, indent=1)[:4000])
        return 2
    tree = cy.Tree('replay')
    ext = w.get('ext', '.py')
    name = w.get('module_name', 'replaymod')
    d, info = tree.build_sources({name: src}, subdir='r', ext=ext, directives=w.get('directives'),
                                 cflags=w.get('cflags') or (), cplus=bool(w.get('cplus')))
    inf = info[name]
    if not inf['ok']:
        print('build failed at', inf['stage'], inf['errors'][-2000:])
        return 2
    ref = w.get('ref_source')
    refpath = inf['src']
    if ref:
        refpath = inf['src'] + '.ref.py'
        open(refpath, 'w').write(ref)
    res = diff.run_cases(tree, d, name, [case], ref=refpath, compare=w.get('compare') or {'log': False}, nproc=1)
    for m in res.mismatches:
        print('expected', m['exp'])
        print('observed', m['got'])
    for c in res.crashes:
        print('crash', c['kind'], c['stderr'][-1500:])
    if res.mismatches or res.crashes:
        print('VIOLATION property=%s replay=%s' % (ck.pid, '<replayed>'))
        return 1
    print('replay: case now agrees with the reference (%d evaluated)' % res.n)
    return 0
