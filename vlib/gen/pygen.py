"""pygen: typed random generator of valid, terminating, deterministic pure-Python modules.

Every module is a set of functions `fz<N>z(...)` plus helper classes and module globals. A scope model
tracks the rough kind of every variable so that most calls succeed, while hostile arguments still drive
the exception paths. All loops are bounded, shifts and repetitions are capped, nothing depends on
identity, addresses or wall-clock. The program logs ordered side effects through `log(x)`.
"""
import random

KINDS = ['int', 'float', 'str', 'list', 'dict', 'bool', 'tuple']

HELPERS = '''
def log(*xs):    # replaced by the harness logger after import
    return None


G0 = 0
G1 = 10
GL = []


class Acc:
    scale = 2

    def __init__(self, v):
        self.v = v
        self.n = 0

    def add(self, x):
        self.v += x
        self.n += 1
        return self.v

    @property
    def double(self):
        return self.v * self.scale

    def __repr__(self):
        return 'Acc(%r, %r)' % (self.v, self.n)


class Sub(Acc):
    scale = 3

    def add(self, x):
        log(('Sub.add', x))
        return super().add(x) + 1

    @classmethod
    def make(cls, v):
        return cls(v + 1)

    @staticmethod
    def twice(x):
        return x + x


def rec_sum(n, acc=0):
    if n <= 0:
        return acc
    return rec_sum(n - 1, acc + n)


def apply(f, *args, **kw):
    return f(*args, **kw)

'''


class FuncGen:
    def __init__(self, rng, name, feats, prior_funcs, budget=14):
        self.r = rng
        self.name = name
        self.feats = feats          # dict feature -> count (shared, for the histogram)
        self.prior = prior_funcs    # [(name, [param kinds], ret kind)]
        self.lines = []
        self.ind = 1
        self.scope = {}             # var -> kind
        self.nvar = 0
        self.budget = budget
        self.loop = 0
        self.in_nested = 0
        self.globals_declared = set()
        self.ncalls = 0
        self.readonly = set()

    # ----------------------------------------------------------------- utils
    def f(self, name):
        self.feats[name] = self.feats.get(name, 0) + 1

    def emit(self, s):
        self.lines.append('    ' * self.ind + s)

    def new(self, kind):
        self.nvar += 1
        v = 'v%d' % self.nvar
        return v

    def vars_of(self, kind):
        return [v for v, k in self.scope.items() if k == kind]

    def pick_var(self, kind, writable=False):
        vs = self.vars_of(kind)
        if writable:
            # names of an enclosing function are read-only inside a nested def (binding them would make them
            # local and definitely-unbound reads are a compile-time error in Cython; C21 owns unbound locals)
            vs = [v for v in vs if v not in self.readonly]
        return self.r.choice(vs) if vs else None

    # ----------------------------------------------------------------- literals
    def lit(self, kind):
        r = self.r
        if kind == 'int':
            return str(r.choice([0, 1, 2, 3, 5, 7, 10, -1, -2, -7, 100, 255, 1 << 15, (1 << 30) - 1, 1 << 30, 1 << 31,
                                 (1 << 62) + 3, (1 << 63) - 1, 1 << 64, -(1 << 31), -(1 << 63), 12345678901234567890]))
        if kind == 'float':
            return r.choice(['0.0', '1.5', '-2.25', '1e10', '3.0', '0.1', '-0.0', '1e-3', '2.5e300'])
        if kind == 'str':
            return repr(r.choice(['', 'a', 'abc', 'hello world', 'x,y,z', 'A1b2', ' pad ', 'été', '中文', 'q\U0001f600']))
        if kind == 'bool':
            return r.choice(['True', 'False'])
        if kind == 'list':
            return '[%s]' % ', '.join(self.expr('int', 0) for _ in range(r.randint(0, 4)))
        if kind == 'tuple':
            n = r.randint(0, 3)
            items = ', '.join(self.expr('int', 0) for _ in range(n))
            return '(%s%s)' % (items, ',' if n == 1 else '')
        if kind == 'dict':
            if r.random() < 0.3:
                return '{%s}' % ', '.join('%s: %s' % (self.logged(self.expr('int', 0)), self.logged(self.expr('int', 0)))
                                          for _ in range(r.randint(1, 3)))
            return '{%s}' % ', '.join('%s: %s' % (self.expr(r.choice(['int', 'str']), 0), self.expr('int', 0))
                                      for _ in range(r.randint(0, 3)))
        raise KeyError(kind)

    # ----------------------------------------------------------------- expressions
    def expr(self, kind, d):
        r = self.r
        v = self.pick_var(kind)
        if d <= 0 or r.random() < 0.25:
            if v and r.random() < 0.7:
                return v
            return self.lit(kind)
        m = getattr(self, 'e_' + kind)
        return m(d - 1)

    def small(self, d):
        """small non-negative int expression (for shifts, repeats, ranges)"""
        if self.r.random() < 0.6:
            self.in_comp += 1
            try:
                return '(%s & 7)' % self.expr('int', d)
            finally:
                self.in_comp -= 1
        return str(self.r.randint(0, 6))

    def e_int(self, d):
        r = self.r
        c = r.randint(0, 21)
        a = lambda: self.expr('int', d)
        if c <= 4:
            if r.random() < 0.12:
                return '(%s %s %s)' % (self.logged(a()), r.choice(['+', '-', '*', '&', '|', '^']), self.logged(a()))
            return '(%s %s %s)' % (a(), r.choice(['+', '-', '*', '&', '|', '^']), a())
        if c == 5:
            return '(%s %s %s)' % (a(), r.choice(['//', '%']), a())
        if c == 6:
            return '(%s %s %s)' % (a(), r.choice(['<<', '>>']), self.small(d))
        if c == 7:
            self.f('builtin_call')
            return 'len(%s)' % self.expr(r.choice(['list', 'str', 'dict', 'tuple']), d)
        if c == 8:
            self.f('condexpr')
            return '(%s if %s else %s)' % (a(), self.expr('bool', d), a())
        if c == 9:
            self.f('builtin_call')
            if r.random() < .25:
                return '(~%s)' % a()
            t = r.choice(['abs(%s)', 'int(%s)', '(-%s)', 'int(%s)'])
            # only int() gets a float operand: '(-1e10) & 15' is a compile-time error in Cython (C43's subject) and would hide the module
            return t % (a() if r.random() < .7 or not t.startswith('int') else self.expr('float', d))
        if c == 10:
            self.f('builtin_call')
            if r.random() < 0.3:
                return '%s(%s, %s)' % (r.choice(['min', 'max']), self.logged(a()), self.logged(a()))
            return '%s(%s, %s)' % (r.choice(['min', 'max']), a(), a())
        if c == 11:
            self.f('builtin_call')
            return 'sum(%s)' % self.expr('list', d)
        if c == 12 and self.in_comp == 0:
            self.f('walrus')
            nv = self.new('int')
            return '((%s := %s) + %s)' % (nv, a(), nv)
        if c == 13 and self.prior and self.loop == 0 and self.ncalls < 2:
            fn, pk, rk = r.choice(self.prior)
            if rk == 'int':
                self.ncalls += 1
                self.f('call_user')
                return '%s(%s)' % (fn, ', '.join(self.expr(k, d) for k in pk))
        if c == 14:
            self.f('subscript')
            l = self.expr('list', d)
            return '%s[%s]' % (l, r.choice(['0', '-1', '1', self.small(d)]))
        if c == 15:
            self.f('genexp')
            it = self.new('int')
            return 'sum(%s for %s in range(%s))' % (self.with_comp_var(it, 'int', lambda: self.expr('int', d)), it, self.small(d))
        if c == 16:
            self.f('lambda')
            return '(lambda p, q=%s: p * q + %s)(%s)' % (a(), a(), a())
        if c == 17:
            self.f('class_use')
            return '%s(%s).add(%s)' % (r.choice(['Acc', 'Sub', 'Sub.make']), a(), a())
        if c == 18:
            self.f('class_use')
            return r.choice(['Acc(%s).double', 'Sub(%s).double', 'Sub.twice(%s)', 'rec_sum(%s & 15)']) % a()
        if c == 19:
            self.f('builtin_call')
            return r.choice(['ord(%s[0])' % self.expr('str', d), 'int(%s)' % self.expr('bool', d),
                             'round(%s)' % self.expr('float', d), 'divmod(%s, %s)[1]' % (a(), a()),
                             'pow(%s, 2)' % a(), '(%s).bit_length()' % a()])
        if c == 20:
            self.f('dict_use')
            return '%s.get(%s, %s)' % (self.expr('dict', d), self.expr(r.choice(['int', 'str']), d), a())
        if c == 21:
            self.f('global_read')
            return r.choice(['G0', 'G1', 'len(GL)'])
        return self.expr('int', 0)

    def logged(self, e):
        """wrap an expression in log(): the harness logger records its value and returns it, which turns the
        evaluation order of sub-expressions into an observable side effect"""
        self.f('logged_operand')
        return 'log(%s)' % e

    in_comp = 0
    no_star = False
    no_divmod = False

    def with_comp_var(self, var, kind, fn):
        old = self.scope.get(var)
        self.scope[var] = kind
        self.in_comp += 1
        try:
            return fn()
        finally:
            self.in_comp -= 1
            if old is None:
                self.scope.pop(var, None)
            else:
                self.scope[var] = old

    def e_float(self, d):
        r = self.r
        c = r.randint(0, 6)
        if c <= 1:
            return '(%s %s %s)' % (self.expr('float', d), r.choice(['+', '-', '*']), self.expr(r.choice(['float', 'int']), d))
        if c == 2:
            return '(%s / %s)' % (self.expr(r.choice(['float', 'int']), d), self.expr(r.choice(['float', 'int']), d))
        if c == 3:
            self.f('builtin_call')
            return 'float(%s)' % self.expr(r.choice(['int', 'bool']), d)
        if c == 4:
            return '(%s %s %s)' % (self.expr('float', d), r.choice(['//', '%']), self.expr('float', d))
        if c == 5:
            self.f('builtin_call')
            return r.choice(['abs(%s)', '(-%s)', 'max(%s, 0.5)', 'round(%s, 2)']) % self.expr('float', d)
        return '(%s * 0.5)' % self.expr('int', d)

    def e_bool(self, d):
        r = self.r
        c = r.randint(0, 8)
        if c <= 2:
            k = r.choice(['int', 'int', 'float', 'str'])
            return '(%s %s %s)' % (self.expr(k, d), r.choice(['<', '<=', '==', '!=', '>', '>=']), self.expr(k, d))
        if c == 3:
            self.f('boolop')
            return '(%s %s %s)' % (self.expr('bool', d), r.choice(['and', 'or']), self.expr('bool', d))
        if c == 4:
            return '(not %s)' % self.expr('bool', d)
        if c == 5:
            self.f('membership')
            ck = r.choice(['list', 'tuple', 'dict'])
            cont = self.expr(ck, d)
            if cont[:1] in '[({':
                # membership in a *display* is compiled to an ==-chain without CPython's identity shortcut
                # (nan in [nan]); that is C19's recorded subject - here the container is always an object
                cont = '%s(%s)' % (ck, cont)
            return '(%s %s %s)' % (self.expr('int', d), r.choice(['in', 'not in']), cont)
        if c == 6:
            self.f('chained_cmp')
            return '(%s < %s <= %s)' % (self.expr('int', d), self.expr('int', d), self.expr('int', d))
        if c == 7:
            self.f('builtin_call')
            return r.choice(['bool(%s)' % self.expr(r.choice(['int', 'list', 'str']), d),
                             'isinstance(%s, int)' % self.expr(r.choice(['int', 'str', 'float', 'bool']), d),
                             'any(%s)' % self.expr('list', d), 'all(%s)' % self.expr('list', d),
                             '%s.startswith(%s)' % (self.expr('str', d), self.expr('str', d)),
                             '%s.isdigit()' % self.expr('str', d)])
        return '(%s in %s)' % (self.expr('str', d), self.expr('str', d))

    def e_str(self, d):
        r = self.r
        c = r.randint(0, 9)
        if c <= 1:
            return '(%s + %s)' % (self.expr('str', d), self.expr('str', d))
        if c == 2:
            self.f('builtin_call')
            return r.choice(['str(%s)', 'repr(%s)']) % self.expr(r.choice(['int', 'float', 'bool', 'list', 'tuple', 'str']), d)
        if c == 3:
            self.f('fstring')
            return "f'<{(%s)}|{(%s)!r}|{(%s):>5}>'" % (self.expr('int', d), self.expr('str', 0).replace("'", '"'), self.expr('int', 0))
        if c == 4:
            self.f('slice')
            return '%s[%s:%s]' % (self.expr('str', d), r.choice(['', '1', '-2', self.small(d)]), r.choice(['', '2', '-1', self.small(d)]))
        if c == 5:
            return '(%s * %s)' % (self.expr('str', d), self.small(d))
        if c == 6:
            self.f('builtin_call')
            return r.choice(['%s.upper()', '%s.strip()', '%s.lower()', '%s.title()', '%s[::-1]']) % self.expr('str', d)
        if c == 7:
            self.f('percent_format')
            return "('%%d-%%s' %% (%s, %s))" % (self.expr('int', d), self.expr('str', d))
        if c == 8:
            self.f('builtin_call')
            return "%s.join(str(x) for x in %s)" % (repr(r.choice([',', '', '-'])), self.expr('list', d))
        return "%s.replace('a', %s)" % (self.expr('str', d), self.expr('str', 0))

    def e_list(self, d):
        r = self.r
        c = r.randint(0, 10)
        if c <= 1:
            self.f('listcomp')
            it = self.new('int')
            cond = ''
            body = self.with_comp_var(it, 'int', lambda: (self.expr('int', d),
                                                           (' if ' + self.expr('bool', d)) if r.random() < .5 else ''))
            return '[%s for %s in range(%s)%s]' % (body[0], it, self.small(d), body[1])
        if c == 2:
            self.f('listcomp_nested')
            i, j = self.new('int'), self.new('int')
            body = self.with_comp_var(i, 'int', lambda: self.with_comp_var(j, 'int', lambda: self.expr('int', d)))
            return '[%s for %s in range(%s) for %s in range(%s)]' % (body, i, self.small(0), j, self.small(0))
        if c == 3:
            return '(%s + %s)' % (self.expr('list', d), self.expr('list', d))
        if c == 4:
            self.f('slice')
            return '%s[%s:%s]' % (self.expr('list', d), r.choice(['', '1', '-2']), r.choice(['', '2', '-1']))
        if c == 5:
            self.f('builtin_call')
            return r.choice(['sorted(%s)', 'list(reversed(%s))', 'list(%s)', 'sorted(set(%s))', 'list(map(abs, %s))',
                             '[x for x, _ in zip(%s, range(3))]', 'list(enumerate(%s))[:2] and %s' if False else 'list(%s)[:3]']) % self.expr('list', d)
        if c == 6:
            self.f('setcomp')
            it = self.new('int')
            body = self.with_comp_var(it, 'int', lambda: self.expr('int', d))
            return 'sorted({%s for %s in range(%s)})' % (body, it, self.small(d))
        if c == 7 and not self.no_star:
            self.f('starred')
            # a starred divmod() of C-typed operands is a C tuple that the compiler unpacks into pointer garbage
            # (recorded defect, DESIGN 12.5): never directly under a star
            prev, self.no_divmod = self.no_divmod, True
            try:
                return '[*%s, %s, *%s]' % (self.expr('list', d), self.expr('int', d), self.expr('tuple', d))
            finally:
                self.no_divmod = prev
        if c == 8:
            self.f('dict_use')
            return r.choice(['list(%s)', 'list(%s.values())', 'sorted(%s.keys(), key=repr)']) % self.expr('dict', d)
        if c == 9:
            return '(%s * %s)' % (self.expr('list', d), self.small(0))
        self.f('lambda')
        return 'list(map(lambda t: t + %s, %s))' % (self.expr('int', d), self.expr('list', d))

    def e_tuple(self, d):
        r = self.r
        c = r.randint(0, 4)
        if c == 0:
            return 'tuple(%s)' % self.expr('list', d)
        if c == 1:
            return '(%s, %s)' % (self.expr('int', d), self.expr(r.choice(['int', 'str', 'float']), d))
        if c == 2 and not self.no_divmod:
            # never two constants: '*divmod(7, 2)' inside a display is compiled into garbage or rejected (C43/C36 finding
            # 'starred constant divmod'); keep one operand a variable/parameter when there is one
            v = self.pick_var('int') or 'len(GL)'
            return 'divmod(%s, %s)' % (v, self.expr('int', d))
        if c == 3 and not self.no_star:
            self.f('starred')
            return '(*%s, %s)' % (self.expr('list', d), self.expr('int', d))
        return '(%s + %s)' % (self.expr('tuple', d), self.expr('tuple', d))

    def e_dict(self, d):
        r = self.r
        c = r.randint(0, 3)
        if c == 0:
            self.f('dictcomp')
            it = self.new('int')
            body = self.with_comp_var(it, 'int', lambda: (self.expr('int', d), self.expr('int', d)))
            if r.random() < 0.5:
                body = (self.logged(body[0]), self.logged(body[1]))   # key is evaluated before value
            return '{%s: %s for %s in range(%s)}' % (body[0], body[1], it, self.small(d))
        if c == 1:
            self.f('starred')
            return '{**%s, %s: %s}' % (self.expr('dict', d), self.expr('int', 0), self.expr('int', d))
        if c == 2:
            self.f('builtin_call')
            return 'dict(zip(%s, %s))' % (self.expr('list', d), self.expr('list', d))
        return self.lit('dict')

    # ----------------------------------------------------------------- statements
    CLAMP = {'int': '%s = %s & 0xFFFFFFFFFF', 'str': '%s = %s[:40]', 'list': '%s = %s[:8]', 'tuple': '%s = %s[:8]'}

    def clamp(self, v, kind):
        if (self.loop or self.in_nested) and kind in self.CLAMP:
            self.emit(self.CLAMP[kind] % (v, v))

    def assign(self, d):
        kind = self.r.choice(KINDS)
        e = self.expr(kind, d)
        v = self.pick_var(kind, True) if self.r.random() < 0.4 else None
        if v is None:
            v = self.new(kind)
        self.emit('%s = %s' % (v, e))
        self.scope[v] = kind
        self.clamp(v, kind)

    def stmt(self, d):
        r = self.r
        self.budget -= 1
        c = r.randint(0, 19)
        if self.budget <= 0 or d <= 0:
            c = r.choice([0, 1, 2])
        if c <= 1:
            self.assign(2)
        elif c == 2:
            self.emit('log(%s)' % self.expr(r.choice(KINDS), 2))
        elif c == 3:
            v = self.pick_var(r.choice(['int', 'float', 'str', 'list']), True)
            if v:
                self.f('augassign')
                k = self.scope[v]
                op = {'int': r.choice(['+', '-', '*', '|', '^', '&', '//', '%']), 'float': r.choice(['+', '-', '*', '/']),
                      'str': '+', 'list': '+'}[k]
                self.emit('%s %s= %s' % (v, op, self.expr(k, 2)))
                self.clamp(v, k)
            else:
                self.assign(2)
        elif c == 4:
            self.f('if')
            self.emit('if %s:' % self.expr('bool', 2))
            self.block(d - 1, r.randint(1, 3))
            if r.random() < 0.4:
                self.emit('elif %s:' % self.expr('bool', 1))
                self.block(d - 1, r.randint(1, 2))
            if r.random() < 0.6:
                self.emit('else:')
                self.block(d - 1, r.randint(1, 2))
        elif c == 5:
            self.f('for_range')
            it = self.new('int')
            args = r.choice(['%s' % self.small(1), '1, %s' % self.small(1), '%s, -1, -1' % self.small(1), '0, %s, 2' % self.small(1)])
            self.emit('for %s in range(%s):' % (it, args))
            self.scope[it] = 'int'
            self.loop += 1
            self.block(d - 1, r.randint(1, 3), loop=True)
            self.loop -= 1
            self.scope.pop(it, None)
            if r.random() < 0.3:
                self.f('for_else')
                self.emit('else:')
                self.block(d - 1, 1)
        elif c == 6:
            self.f('for_list')
            it = self.new('int')
            src = self.expr('list', 1)
            if r.random() < 0.4:
                self.f('builtin_call')
                idx = self.new('int')
                self.emit('for %s, %s in enumerate(%s):' % (idx, it, src))
                self.scope[idx] = 'int'
            else:
                self.emit('for %s in %s:' % (it, src))
            self.scope[it] = 'int'
            hidden = self.scope.pop(src, None)   # the iterated list must not be mutated in the body
            self.loop += 1
            self.block(d - 1, r.randint(1, 3), loop=True)
            self.loop -= 1
            if hidden is not None:
                self.scope[src] = hidden
            self.scope.pop(it, None)
            self.scope.pop(locals().get('idx'), None)
        elif c == 7:
            self.f('while')
            cv = self.new('int')
            self.emit('%s = 0' % cv)
            self.emit('while %s < %s:' % (cv, r.randint(1, 5)))
            self.ind += 1
            self.emit('%s += 1' % cv)
            self.ind -= 1
            self.loop += 1
            self.block(d - 1, r.randint(1, 2), loop=True)
            self.loop -= 1
        elif c == 8:
            self.f('try')
            self.emit('try:')
            self.block(d - 1, r.randint(1, 3))
            exc = r.choice(['ZeroDivisionError', '(IndexError, KeyError)', 'TypeError', 'Exception', 'ValueError', 'ArithmeticError'])
            if r.random() < 0.5:
                ev = self.new('exc')
                self.emit('except %s as %s:' % (exc, ev))
                self.ind += 1
                self.emit('log((type(%s).__name__, len(%s.args)))' % (ev, ev))   # message wording is compared only when it propagates
                self.ind -= 1
            else:
                self.emit('except %s:' % exc)
                self.block(d - 1, 1)
            if r.random() < 0.3:
                self.emit('else:')
                self.block(d - 1, 1)
            if r.random() < 0.4:
                self.f('finally')
                self.emit('finally:')
                self.ind += 1
                self.emit('log(%r)' % ('fin%d' % r.randint(0, 99)))
                self.ind -= 1
        elif c == 9:
            self.f('unpack')
            a, b = self.new('int'), self.new('int')
            if r.random() < 0.5:
                self.emit('%s, %s = %s, %s' % (a, b, self.expr('int', 2), self.expr('int', 2)))
                self.scope[a] = self.scope[b] = 'int'
            else:
                self.f('starred')
                c_ = self.new('list')
                # Cython rejects a starred display directly on the right of an unpacking assignment
                # ("starred expression is not allowed here") - that is C43's business, not generated here
                self.no_star = True
                rhs = self.expr(r.choice(['list', 'tuple']), 2)
                self.no_star = False
                # list()/tuple() hides the length from the compiler (a provably too short display is a
                # deliberate compile-time error in Cython)
                self.emit('%s, *%s, %s = %s(%s)' % (a, c_, b, r.choice(['list', 'tuple']), rhs))
                self.scope[a] = self.scope[b] = 'int'
                self.scope[c_] = 'list'
        elif c == 10:
            a, b = self.pick_var('int', True), self.pick_var('int', True)
            if a and b and a != b:
                self.f('swap')
                self.emit('%s, %s = %s, %s' % (a, b, b, a))
            else:
                self.assign(2)
        elif c == 11 and self.in_nested < 2:
            self.closure(d)
        elif c == 12:
            self.f('global')
            g = r.choice(['G0', 'G1'])
            if g not in self.globals_declared and self.in_nested == 0:
                self.globals_declared.add(g)
                self.lines.insert(self.first_line, '    global %s' % g)
            if g in self.globals_declared:
                self.emit('%s = (%s + %s) & 0xFFFF' % (g, g, self.expr('int', 1)))
            else:
                self.emit('GL.append(%s)' % self.expr('int', 1))
            if r.random() < 0.3:
                self.emit('del GL[:]')
        elif c == 13:
            l = self.pick_var('list')
            if l:
                self.f('subscript_assign')
                self.emit(r.choice(['%s.append(%s)' % (l, self.expr('int', 2)),
                                    '%s[%s:%s] = %s' % (l, r.choice(['', '0', '1']), r.choice(['', '1', '2']), self.expr('list', 1)),
                                    '%s[0] = %s' % (l, self.expr('int', 2)),
                                    '%s[-1] += %s' % (l, self.expr('int', 1)),
                                    'del %s[0]' % l,
                                    '%s.extend(%s)' % (l, self.expr('tuple', 1)),
                                    '%s.sort()' % l, '%s.reverse()' % l,
                                    'log(%s.pop())' % l]))
            else:
                self.assign(2)
        elif c == 14:
            dv = self.pick_var('dict')
            if dv:
                self.f('dict_use')
                self.emit(r.choice(['%s[%s] = %s' % (dv, self.expr(r.choice(['int', 'str']), 1), self.expr('int', 2)),
                                    '%s.setdefault(%s, %s)' % (dv, self.expr('int', 1), self.expr('int', 1)),
                                    '%s.update(%s)' % (dv, self.expr('dict', 1)),
                                    'log(%s.pop(%s, None))' % (dv, self.expr('int', 1)),
                                    'log(sorted(%s.items(), key=repr))' % dv]))
            else:
                self.assign(2)
        elif c == 15:
            self.f('class_use')
            o = self.new('obj')
            self.emit('%s = %s(%s)' % (o, r.choice(['Acc', 'Sub']), self.expr('int', 1)))
            self.emit('%s.add(%s)' % (o, self.expr('int', 1)))
            if r.random() < .5:
                self.emit('%s.v %s= %s' % (o, r.choice(['+', '*', '-']), self.expr('int', 1)))
                self.f('augassign')
            self.emit('log((repr(%s), %s.double))' % (o, o))
        elif c == 16 and self.loop and self.r.random() < 0.7:
            self.f('break_continue')
            self.emit('if %s:' % self.expr('bool', 1))
            self.ind += 1
            self.emit(r.choice(['break', 'continue']))
            self.ind -= 1
        elif c == 17:
            self.f('lambda')
            fv = self.new('fn')
            cap = self.pick_var('int')
            if cap and r.random() < 0.5:
                self.emit('%s = lambda z, %s=%s: z + %s' % (fv, cap, cap, cap))
            else:
                self.emit('%s = lambda z: %s' % (fv, self.with_comp_var('z', 'int', lambda: self.expr('int', 1))))
            self.emit('log(apply(%s, %s))' % (fv, self.expr('int', 1)))
        elif c == 18:
            self.f('late_binding')
            fs, i = self.new('fns'), self.new('int')
            self.emit('%s = [lambda: %s * 2 for %s in range(3)]' % (fs, i, i))
            self.emit('log([g() for g in %s])' % fs)
        elif c == 19 and self.r.random() < 0.5:
            self.f('early_return')
            # the condition always involves a parameter: a constant-true 'if ...: return' makes the rest of the function
            # unreachable, and a lambda/def in unreachable code crashes the compiler (C43 finding, not C01's subject)
            self.emit('if ((a0 is None) != %s):' % self.expr('bool', 1))
            self.ind += 1
            self.emit('return %s' % self.expr(self.ret_kind if self.in_nested == 0 else 'int', 2))
            self.ind -= 1
        else:
            self.assign(2)

    def global_blocked(self, g):
        # a global declaration must precede any use of the name in the function
        text = '\n'.join(self.lines[self.first_line:])
        return g in text

    def block(self, d, n, loop=False):
        self.ind += 1
        saved = dict(self.scope)
        for _ in range(max(1, n)):
            self.stmt(d)
        # variables first bound inside a conditional block are not reliably bound afterwards
        self.scope = {k: v for k, v in self.scope.items() if k in saved}
        self.ind -= 1

    def closure(self, d):
        r = self.r
        self.f('closure')
        fn = 'in%d' % (self.nvar + 1)
        self.nvar += 1
        outer_int = self.pick_var('int')
        self.emit('def %s(p, q=%s):' % (fn, self.expr('int', 1)))
        self.ind += 1
        saved_scope = dict(self.scope)
        saved_gl = self.globals_declared
        self.globals_declared = set()
        self.in_nested += 1
        saved_loop, self.loop = self.loop, 0
        saved_ro = self.readonly
        self.readonly = set(self.scope) | saved_ro
        self.scope['p'] = 'int'
        self.scope['q'] = 'int'
        if outer_int and r.random() < 0.6 and outer_int not in ('p', 'q'):
            self.f('nonlocal')
            self.readonly.discard(outer_int)
            self.emit('nonlocal %s' % outer_int)
            self.emit('%s = %s + p' % (outer_int, outer_int))
        for _ in range(r.randint(0, 2)):
            self.stmt(min(d, 1))
        self.emit('return %s' % self.expr('int', 2))
        self.in_nested -= 1
        self.loop = saved_loop
        self.readonly = saved_ro
        self.ind -= 1
        self.scope = saved_scope
        self.globals_declared = saved_gl
        res = self.new('int')
        self.emit('%s = %s(%s)' % (res, fn, self.expr('int', 1)))
        self.scope[res] = 'int'
        if r.random() < 0.4:
            self.emit('log(%s(%s, q=%s))' % (fn, self.expr('int', 1), self.expr('int', 1)))

    def function(self, nparams):
        r = self.r
        pk = [r.choice(['int', 'int', 'int', 'float', 'str', 'list', 'dict', 'bool', 'tuple']) for _ in range(nparams)]
        params = ['a%d' % i for i in range(nparams)]
        for p, k in zip(params, pk):
            self.scope[p] = k
        self.lines.append('def %s(%s):' % (self.name, ', '.join(params)))
        self.first_line = len(self.lines)
        rk = r.choice(['int', 'int', 'float', 'str', 'list', 'dict', 'bool', 'tuple', 'multi'])
        self.ret_kind = 'tuple' if rk == 'multi' else rk
        for _ in range(r.randint(3, 8)):
            self.stmt(3)
        if rk == 'multi':
            self.emit('return (%s)' % ', '.join(self.expr(r.choice(KINDS), 2) for _ in range(3)))
        else:
            self.emit('return %s' % self.expr(rk, 3))
        return pk, rk


ARG_POOL = {
    'int': ['0', '1', '-1', '2', '7', '-8', '100', '255', '2**15', '2**30-1', '2**30', '-2**31', '2**31', '2**62', '2**63-1',
            '2**63', '-2**63', '2**64+1', '10**20', '-10**25', '3'],
    'float': ['0.0', '-0.0', '1.5', '-2.5', '1e300', 'inf', '-inf', 'nan', '0.1', '3.0'],
    'str': ["''", "'a'", "'abc'", "'hello'", "'\\u00e9'", "'\\u4e2d\\u6587x'", "'1,2'", "'A b'", "'\\U0001f600q'"],
    'list': ['[]', '[1]', '[1, 2, 3]', '[0, -1, 5, 2**40]', '[3, 1, 2, 1]', 'L([1, 2])'],
    'dict': ['{}', '{1: 2}', "{'a': 1, 2: 3}", '{0: 0, 1: 1, 2: 4}', 'D({1: 1})'],
    'bool': ['True', 'False'],
    'tuple': ['()', '(1,)', '(1, 2)', '(3, 2, 1, 0)'],
}
HOSTILE = ['None', "'zz'", '2.5', '[1]', 'Obj(1)', '10**30', 'I(4)', 'F(1.5)', "b'ab'", '1+2j', 'True', '{}', 'Idx(2)']
# sequences never reach a parameter the generator multiplies as an int ('ab' * 2**30 would need gigabytes)
HOSTILE_FOR_INT = ['None', '2.5', 'Obj(1)', '10**30', 'I(4)', 'F(1.5)', '1+2j', 'True', '{}', 'Idx(2)', 'nan']


def gen_module(rng, nfuncs, start_index=0, feats=None):
    """Returns (source, funcs) where funcs = [{'name', 'param_kinds', 'ret'}]."""
    feats = feats if feats is not None else {}
    prior = []
    parts = ['# cython: language_level=3\n', HELPERS]
    funcs = []
    for i in range(nfuncs):
        name = 'fz%dz' % (start_index + i)
        g = FuncGen(rng, name, feats, prior)
        pk, rk = g.function(rng.randint(1, 3))
        parts.append('\n'.join(g.lines) + '\n\n')
        funcs.append({'name': name, 'param_kinds': pk, 'ret': rk})
        if rk == 'int' and len(prior) < 6 and rng.random() < 0.5:
            prior.append((name, pk, rk))
    return '\n'.join(parts), funcs


def gen_args(rng, pk, n, hostile_rate=0.12):
    out = []
    for _ in range(n):
        args = []
        for k in pk:
            if rng.random() < hostile_rate:
                args.append(rng.choice(HOSTILE_FOR_INT if k in ('int', 'bool', 'float') else HOSTILE))
            else:
                args.append(rng.choice(ARG_POOL[k]))
        out.append('(%s,)' % ', '.join(args))
    return out
