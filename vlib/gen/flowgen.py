"""flowgen: functions with random structured control flow over a few local variables (C21).

Every function takes one int `b`; each condition tests one bit of it, so calling the function with
all 2**nbits vectors enumerates the paths.  Leaves assign, delete and read (log) the variables, so
whether a read finds the variable bound depends on the path.
"""

HEADER = '''# cython: language_level=3
log = None


class CM:
    def __init__(self, sup=False):
        self.sup = sup

    def __enter__(self):
        return 7

    def __exit__(self, t, v, tb):
        return self.sup


def mk(x):
    return [x]

'''

VARS = ['x', 'y', 'z', 'w']


class FlowGen:
    def __init__(self, rng, name, nvars=3, max_depth=4, max_bits=8, profile=None):
        self.rng = rng
        self.name = name
        self.vars = VARS[:nvars]
        # kind profile per variable: 'int' / 'float' variables only ever get literals of that kind (so that the
        # compiler may infer a C type for them), 'obj' variables get anything
        self.profile = profile or {v: rng.choice(['int', 'int', 'float', 'obj', 'obj']) for v in self.vars}
        self.max_depth = max_depth
        self.max_bits = max_bits
        self.nbits = 0
        self.nid = 0
        self.feat = set()
        # variables that inner functions may use: Cython cannot delete those ("can not delete variable referenced in
        # nested scope", also for the implicit delete at the end of 'except ... as v'), so they are never deleted
        self.closure_ok = {v for v in self.vars if self.profile[v] == 'obj' and rng.random() < 0.55}
        self.closure_vars = set()
        self.nloop = 0
        self.stack = []
        # every fifth function or so concentrates on jumps that leave nested try/finally statements ('finprobe'); those
        # functions take at most 3 input bits: a mis-compiled probe crashes for half of the inputs, and every crash costs
        # the differential driver a process restart
        self.jump_focus = rng.random() < 0.2
        if self.jump_focus:
            self.max_bits = min(self.max_bits, 3)
            self.max_depth = min(self.max_depth, 2)
            self.vars = self.vars[:3]
            self.profile = {v: self.profile[v] for v in self.vars}

    # ---------------------------------------------------------------- helpers
    def bit(self):
        if self.nbits < self.max_bits and (self.nbits == 0 or self.rng.random() < 0.75):
            k = self.nbits
            self.nbits += 1
        else:
            k = self.rng.randrange(self.nbits)
        return '(b >> %d) & 1' % k

    def newid(self):
        self.nid += 1
        return self.nid

    def var(self):
        return self.rng.choice(self.vars)

    def value(self, v):
        rng = self.rng
        p = self.profile[v]
        if p == 'int':
            return rng.choice(['1', '2', '7', '100'])
        if p == 'float':
            return rng.choice(['1.5', '2.0', '0.25'])
        return rng.choice(['1', '2.5', "'s'", 'b', 'mk(3)', 'None', '(1, 2)'])

    # ---------------------------------------------------------------- statements
    def leaf(self, ind):
        rng = self.rng
        r = rng.random()
        v = self.var()
        if r < 0.36:
            self.feat.add('assign')
            return [ind + '%s = %s' % (v, self.value(v))]
        if r < 0.44 and v not in self.closure_ok:
            self.feat.add('del')
            # always guarded, so that an unguarded UnboundLocalError is known to come from a read
            return [ind + 'try:', ind + '    del %s' % v, ind + 'except NameError as e_:',
                    ind + "    log(('del', type(e_).__name__))"]
        if r < 0.48 and v not in self.closure_ok:
            # unguarded del followed by a read in the same basic block; the marker makes a raising del recognisable
            self.feat.add('del-then-read')
            return [ind + "log(('predel', '%s'))" % v, ind + 'del %s' % v, ind + 'try:', ind + '    log(%s)' % v,
                    ind + 'except NameError as e_:', ind + "    log(('unb', type(e_).__name__))"]
        if r < 0.54 and self.profile[v] == 'obj':
            u = self.var()
            self.feat.add('copy')
            return [ind + '%s = [%s]' % (v, u)]
        self.feat.add('read')
        if rng.random() < 0.25:
            return [ind + 'log(%s)' % v]
        # guarded read: the function goes on after an unbound read, so later reads are reached as well
        return [ind + 'try:', ind + '    log(%s)' % v, ind + 'except NameError as e_:', ind + "    log(('unb', type(e_).__name__))"]

    def block(self, ind, depth, nmin=1, nmax=3):
        out = []
        for _ in range(self.rng.randint(nmin, nmax)):
            out += self.stmt(ind, depth)
            if out[-1].strip() in ('break', 'continue') or out[-1].strip().startswith(('return', 'raise')):
                break
        return out

    def stmt(self, ind, depth):
        rng = self.rng
        i2 = ind + '    '
        if depth >= self.max_depth:
            return self.leaf(ind)
        kinds = [('leaf', 30), ('if', 20), ('for', 9), ('while', 5), ('try', 12), ('tryfin', 6), ('with', 5), ('match', 4),
                 ('comp', 3), ('inner', 9), ('exc_as', 4), ('forvar', 4), ('elseprobe', 6), ('finprobe', 7)]
        kinds = [(k_, (90 if self.jump_focus else 0) if k_ == 'finprobe' else w_) for k_, w_ in kinds]
        if 'loop' in self.stack:
            kinds.append(('brk', 8))
        tot = sum(w for _, w in kinds)
        r = rng.random() * tot
        for k, w in kinds:
            r -= w
            if r < 0:
                break
        if k == 'leaf':
            return self.leaf(ind)
        if k == 'if':
            self.feat.add('if')
            out = [ind + 'if %s:' % self.bit()] + self.block(i2, depth + 1)
            r = rng.random()
            if r < 0.25:
                self.feat.add('elif')
                out += [ind + 'elif %s:' % self.bit()] + self.block(i2, depth + 1)
            if r < 0.6:
                out += [ind + 'else:'] + self.block(i2, depth + 1)
            return out
        if k == 'for':
            self.feat.add('for')
            self.nloop += 1
            it = rng.choice(['range(%s)' % self.bit(), 'range(2)', 'range((%s) + 1)' % self.bit()])
            self.stack.append('loop')
            body = self.block(i2, depth + 1)
            self.stack.pop()
            out = [ind + 'for i%d in %s:' % (self.nloop, it)] + body
            if rng.random() < 0.4:
                self.feat.add('for-else')
                out += [ind + 'else:'] + self.block(i2, depth + 1, 1, 2)
            return out
        if k == 'elseprobe':
            # a variable bound only inside a loop body / try body and read in the else clause (which also runs after
            # zero iterations) or after the statement
            v = self.var()
            self.feat.add('else-probe')
            self.nloop += 1
            rd = [i2 + 'try:', i2 + '    log(%s)' % v, i2 + 'except NameError as e_:', i2 + "    log(('unb', type(e_).__name__))"]
            form = rng.choice(['for', 'while', 'try'])
            if form == 'for':
                return [ind + 'for i%d in range(%s):' % (self.nloop, self.bit()), i2 + '%s = %s' % (v, self.value(v)), ind + 'else:'] + rd
            if form == 'while':
                c = 'c%d' % self.nloop
                return [ind + '%s = 0' % c, ind + 'while %s < (%s):' % (c, self.bit()), i2 + '%s += 1' % c,
                        i2 + '%s = %s' % (v, self.value(v)), ind + 'else:'] + rd
            return [ind + 'try:', i2 + 'if %s:' % self.bit(), i2 + '    raise ValueError(%d)' % self.newid(),
                    i2 + '%s = %s' % (v, self.value(v)), ind + 'except ValueError:'] + rd
        if k == 'finprobe':
            return self.finprobe(ind)
        if k == 'forvar':
            # the loop target is one of the tracked variables: unbound after an empty loop
            v = self.var()
            if self.profile[v] == 'float':
                return self.leaf(ind)
            self.feat.add('for-target')
            self.stack.append('loop')
            body = self.block(i2, depth + 1, 1, 2)
            self.stack.pop()
            return [ind + 'for %s in range(%s):' % (v, self.bit())] + body
        if k == 'while':
            self.feat.add('while')
            self.nloop += 1
            c = 'c%d' % self.nloop
            self.stack.append('loop')
            body = self.block(i2, depth + 1)
            self.stack.pop()
            out = [ind + '%s = 0' % c, ind + 'while %s < (%s) + 1:' % (c, self.bit()), i2 + '%s += 1' % c] + body
            if rng.random() < 0.3:
                self.feat.add('while-else')
                out += [ind + 'else:'] + self.block(i2, depth + 1, 1, 2)
            return out
        if k == 'brk':
            w = rng.choice(['break', 'continue'])
            self.feat.add(w)
            return [ind + 'if %s:' % self.bit(), i2 + w]
        if k == 'try':
            self.feat.add('try-except')
            body = self.block(i2, depth + 1)
            pos = rng.choice([0, len(body)])
            body[pos:pos] = [i2 + 'if %s:' % self.bit(), i2 + "    raise ValueError(%d)" % self.newid()]
            out = [ind + 'try:'] + body + [ind + 'except ValueError:'] + self.block(i2, depth + 1, 1, 2)
            if rng.random() < 0.35:
                self.feat.add('try-else')
                out += [ind + 'else:'] + self.block(i2, depth + 1, 1, 2)
            if rng.random() < 0.3:
                self.feat.add('try-except-finally')
                out += [ind + 'finally:'] + self.block(i2, depth + 1, 1, 2)
            return out
        if k == 'tryfin':
            self.feat.add('try-finally')
            body = self.block(i2, depth + 1)
            pos = rng.choice([0, len(body)])
            body[pos:pos] = [i2 + 'if %s:' % self.bit(), i2 + "    raise KeyError(%d)" % self.newid()]
            inner = [i2 + 'try:'] + ['    ' + ln for ln in body] + [i2 + 'finally:'] + \
                self.block(i2 + '    ', depth + 1, 1, 2)
            # an outer handler keeps the function going so that later reads are reached
            return [ind + 'try:'] + inner + [ind + 'except KeyError:', i2 + "log('k%d')" % self.newid()]
        if k == 'with':
            self.feat.add('with')
            v = self.var()
            target = ''
            if self.profile[v] == 'obj' and rng.random() < 0.5:
                target = ' as %s' % v
                self.feat.add('with-as')
            sup = rng.random() < 0.5
            body = self.block(i2, depth + 1)
            if sup:
                pos = rng.choice([0, len(body)])
                body[pos:pos] = [i2 + 'if %s:' % self.bit(), i2 + "    raise ValueError(%d)" % self.newid()]
            return [ind + 'with CM(%s)%s:' % ('True' if sup else '', target)] + body
        if k == 'match':
            self.feat.add('match')
            v = self.var()
            self.stack.append('match')
            out = [ind + 'match %s:' % self.bit(), i2 + 'case 0:'] + self.block(i2 + '    ', depth + 1, 1, 2)
            if self.profile[v] == 'obj' and v not in self.closure_ok and rng.random() < 0.5:
                self.feat.add('match-capture')
                out += [i2 + 'case %s:' % v] + self.block(i2 + '    ', depth + 1, 1, 2)
            else:
                out += [i2 + 'case _:'] + self.block(i2 + '    ', depth + 1, 1, 2)
            self.stack.pop()
            return out
        if k == 'comp':
            self.feat.add('comprehension')
            v = self.var()
            return [ind + 'log([(%s, j_) for j_ in range(2)])' % v]
        if k == 'inner':
            v = self.var()
            # (no inner functions inside 'match' blocks: the compiler emits C that does not build for those - C43's domain)
            if v not in self.closure_ok or 'match' in self.stack:
                return self.leaf(ind)
            self.closure_vars.add(v)
            n = self.newid()
            if rng.random() < 0.5:
                self.feat.add('closure-read')
                return [ind + 'def rd%d():' % n, i2 + 'return %s' % v, ind + 'log(rd%d())' % n]
            self.feat.add('nonlocal-write')
            op = rng.choice(['%s = 5' % v, '%s = None' % v])
            return [ind + 'def wr%d():' % n, i2 + 'nonlocal %s' % v, i2 + op, ind + 'wr%d()' % n]
        if k == 'exc_as':
            v = self.var()
            if self.profile[v] != 'obj' or v in self.closure_ok:
                return self.leaf(ind)
            self.feat.add('except-as')
            return [ind + 'try:', i2 + 'if %s:' % self.bit(), i2 + '    raise ValueError(%d)' % self.newid(),
                    ind + 'except ValueError as %s:' % v, i2 + "log('h%d')" % self.newid()]
        raise AssertionError(k)

    def finprobe(self, ind):
        """a jump (break / continue / return / raise) that leaves 1-3 *nested* try/finally statements of one loop; every
        `finally` clause may unbind, rebind or read the probed variable, the code between two levels (which the jump
        skips) may rebind it, and it is read after the loop.  Whether the read finds the variable bound depends on
        which `finally` clauses the jump runs, and in which order."""
        rng = self.rng
        cands = [u for u in self.vars if u not in self.closure_ok]
        if not cands:
            return self.leaf(ind)
        v = rng.choice(cands)
        levels = rng.choice([1, 2, 2, 2, 3, 3])
        jump = rng.choice(['break', 'break', 'break', 'continue', 'continue', 'return', 'raise'])
        self.feat.add('jump-finally-probe')
        self.feat.add('jump-finally:%s:%d' % (jump, levels))
        self.nloop += 1
        n = self.nloop
        i2 = ind + '    '

        def rd(i):
            return [i + 'try:', i + '    log(%s)' % v, i + 'except NameError as e_:', i + "    log(('unb', type(e_).__name__))"]

        def action(i, innermost):
            # the innermost clause mostly changes what is bound; outer clauses do so less often, so that many probes
            # depend on one particular clause being run
            r = rng.random()
            p_del, p_set, p_rd = (0.5, 0.65, 0.85) if innermost else (0.18, 0.30, 0.50)
            if r < p_del:
                return [i + 'try:', i + '    del %s' % v, i + 'except NameError as e_:', i + "    log(('del', type(e_).__name__))"]
            if r < p_set:
                return [i + '%s = %s' % (v, self.value(v))]
            if r < p_rd:
                return rd(i)
            return []

        jstmt = {'break': 'break', 'continue': 'continue', 'return': "return 'r%d'" % n,
                 'raise': 'raise KeyError(%d)' % n}[jump]

        def level(j, i):
            i3 = i + '    '
            if j == levels:
                body = [i3 + 'if %s:' % self.bit(), i3 + '    ' + jstmt]
                if rng.random() < 0.3:
                    body += [i3 + '%s = %s' % (v, self.value(v))]
            else:
                body = level(j + 1, i3)
                r = rng.random()
                if r < 0.5:         # only runs when the jump is not taken
                    body += [i3 + '%s = %s' % (v, self.value(v))]
                elif r < 0.7:
                    body += rd(i3)
            return [i + 'try:'] + body + [i + 'finally:', i3 + "log('f%d_%d')" % (n, j)] + action(i3, j == levels)

        out = []
        if rng.random() < 0.65:
            out.append(ind + '%s = %s' % (v, self.value(v)))
        if rng.random() < 0.65:
            out.append(ind + 'for i%d in %s:' % (n, rng.choice(['range(2)', 'range((%s) + 1)' % self.bit()])))
        else:
            out += [ind + 'c%d = 0' % n, ind + 'while c%d < 2:' % n, i2 + 'c%d += 1' % n]
        out += level(1, i2)
        if rng.random() < 0.4:
            out.append(i2 + '%s = %s' % (v, self.value(v)))
        if rng.random() < 0.25:
            out += [ind + 'else:'] + rd(i2)
        if jump == 'raise':
            out = [ind + 'try:'] + ['    ' + ln for ln in out] + [ind + 'except KeyError:', i2 + "log('k%d')" % self.newid()]
        return out + rd(ind)

    def function(self):
        init = ['    %s = %s' % (v, self.value(v)) for v in self.vars if self.rng.random() < 0.72]
        body = init + self.block('    ', 0, 3, 6)
        tail = []
        for v in self.vars:
            if self.rng.random() < 0.7:
                tail += ['    try:', '        log(%s)' % v, '    except NameError as e_:', "        log(('unb', type(e_).__name__))"]
        tail.append('    return %s' % self.rng.choice(self.vars))
        if self.nbits == 0:
            body = ['    if %s:' % self.bit(), '        %s = %s' % (self.vars[0], self.value(self.vars[0]))] + body
        # a name that is never bound anywhere in the function would be a global, not a local
        import re
        text = '\n'.join(body + tail)
        for v in self.vars:
            bound = re.search(r'(^|\n)\s*(%s = |for %s in |case %s:|nonlocal %s)' % (v, v, v, v), text) or \
                re.search(r' as %s:' % v, text)
            if not bound:
                body = body + ['    if %s:' % self.bit(), '        %s = %s' % (v, self.value(v))]
        return 'def %s(b):\n%s\n' % (self.name, '\n'.join(body + tail))


def gen_function(rng, name):
    for _ in range(30):
        fg = FlowGen(rng, name, nvars=rng.randint(2, 4), max_depth=rng.randint(2, 4))
        src = fg.function()
        if len(src.splitlines()) > (130 if fg.jump_focus else 80):
            continue
        try:
            compile(src, name, 'exec')
        except SyntaxError:
            continue
        return {'name': name, 'src': src, 'nbits': fg.nbits, 'feat': sorted(fg.feat), 'profile': fg.profile,
                'closure_vars': sorted(fg.closure_vars)}
    raise RuntimeError('flowgen could not produce a valid function')


def gen_module(rng, n, start=0):
    funcs = [gen_function(rng, 'fz%dz' % (start + i)) for i in range(n)]
    return funcs


def module_source(funcs):
    return HEADER + '\n\n'.join(f['src'] for f in funcs)
