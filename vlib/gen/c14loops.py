"""Loop templates for C14 (optimised loops iterate exactly like Python loops).

Every template is a small function in Cython syntax (`.pyx`) plus the same function as plain Python (the
reference model: `cdef` declarations dropped / turned into assignments, typed parameters untyped).  All loop
bodies carry a step budget (`n > BUDGET` raises BufferError('budget')) so that a wrongly translated loop cannot
hang or exhaust memory.  Function names are `fz<N>z` (see vlib.creach)."""
import re

BUDGET = 40

CTYPES = {
    'signed char': (-2 ** 7, 2 ** 7 - 1),
    'unsigned char': (0, 2 ** 8 - 1),
    'short': (-2 ** 15, 2 ** 15 - 1),
    'int': (-2 ** 31, 2 ** 31 - 1),
    'unsigned int': (0, 2 ** 32 - 1),
    'long': (-2 ** 63, 2 ** 63 - 1),
    'Py_ssize_t': (-2 ** 63, 2 ** 63 - 1),
    'size_t': (0, 2 ** 64 - 1),
}
TSHORT = {'signed char': 'schar', 'unsigned char': 'uchar', 'short': 'short', 'int': 'int', 'unsigned int': 'uint',
          'long': 'long', 'Py_ssize_t': 'ssize', 'size_t': 'size'}

HEADER = 'log = None\n'


def to_ref(src):
    """Plain-Python reference text of a template written in the restricted Cython syntax used here."""
    out = []
    for line in src.splitlines():
        m = re.match(r'^(\s*)cdef\s+[\w ]+?[\s\*]+(\w+)\s*=\s*(.*)$', line)
        if m:
            out.append('%s%s = %s' % (m.group(1), m.group(2), m.group(3)))
            continue
        if re.match(r'^\s*cdef\s', line):
            out.append(re.match(r'^(\s*)', line).group(1) + 'pass')
            continue
        m = re.match(r'^(\s*def\s+\w+)\((.*)\):\s*$', line)
        if m:
            ps = []
            for p in m.group(2).split(','):
                p = p.strip()
                if not p:
                    continue
                name, eq, default = p.partition('=')
                name = name.strip().split()[-1]
                ps.append(name + ('=' + default.strip() if eq else ''))
            out.append('%s(%s):' % (m.group(1), ', '.join(ps)))
            continue
        out.append(line)
    return '\n'.join(out) + '\n'


class Fn:
    __slots__ = ('name', 'kind', 'typing', 'shape', 'src', 'ref', 'cases', 'marker', 'info', 'expect_opt')

    def __init__(self, name, kind, typing, shape, src, cases, marker, info=None, ref=None, expect_opt=True):
        self.name, self.kind, self.typing, self.shape = name, kind, typing, shape
        self.src = src
        self.ref = ref if ref is not None else to_ref(src)
        self.cases = cases          # list of (args expr, info dict)
        self.marker = marker        # name of the static-reach rule (see C14.REACH)
        self.info = info or {}
        self.expect_opt = expect_opt


class Gen:
    def __init__(self):
        self.fns = []
        self.n = 0

    def name(self):
        self.n += 1
        return 'fz%dz' % self.n

    def add(self, name, kind, typing, shape, src, *a, **k):
        # the harness counters (step n, break/continue/mutation steps) are C ints: keeps the generated C small and
        # makes sure the only Python-level iteration in a template is the loop under observation
        head, nl, rest = src.partition('\n')
        head = re.sub(r'\b(mk|mu|bk|ct)\b', r'int \1', head)
        cases = a[0]
        if 'o.append(' in rest and not re.search(r'^\s*o = \[\]', rest, re.M) and 'list o' not in head:
            # observations are appended to a list argument: its final state is compared (post_args) even when the
            # call ends in an exception
            head = head.replace('(', '(list o, ', 1)
            cases = [('([], ' + c[0][1:], c[1]) for c in cases]
            if k.get('ref') is not None:
                rh, rnl, rrest = k['ref'].partition('\n')
                k['ref'] = rh.replace('(', '(o, ', 1) + '\n' + rrest
        a = (cases,) + tuple(a[1:])
        src = head + '\n    cdef int n\n' + rest
        f = Fn(name, kind, typing, shape, src, *a, **k)
        self.fns.append(f)
        return f


def body(target, iterexpr, logexpr, shape, mut=None, rebind=None, indent='    ', rec='app', budget='raise'):
    """loop text (without def line); uses n, bk, ct, mu.  rec='log': observations go through the harness log();
    rec='app': they are appended to the local list `o` (much smaller generated C)"""
    L = []
    w = L.append
    R = (lambda x: 'log(%s)' % x) if rec == 'log' else (lambda x: 'o.append(%s)' % x)
    w('n = 0')
    w('for %s in %s:' % (target, iterexpr))
    w('    n += 1')
    if budget == 'raise':
        w("    if n > %d: raise BufferError('budget')" % BUDGET)
    else:
        w('    if n > %d:' % BUDGET)
        w('        ' + R("'budget'"))
        w('        break')
    if isinstance(mut, dict) and not any(mut.values()):
        mut = None
    if isinstance(mut, dict):
        w('    if n == mu or (mu < 0 and n >= -mu):')
        first = True
        for idx, (mname, stmts) in enumerate(mut.items()):
            if not stmts:
                continue
            w('        %s mk == %d:' % ('if' if first else 'elif', idx))
            first = False
            for m in stmts:
                w('            ' + m)
    elif mut:
        w('    if n == mu or (mu < 0 and n >= -mu):')
        for m in mut:
            w('        ' + m)
    if shape in ('full', 'noelse', 'rebind'):
        w('    if n == bk:')
        w('        ' + R("'brk'"))
        w('        break')
        w('    if n == ct:')
        w('        ' + R("'cnt'"))
        w('        continue')
    w('    ' + R(logexpr))
    if rebind:
        for r in rebind:
            w('    ' + (r if not r.startswith('log(') or rec == 'log' else 'o.append(' + r[4:]))
    if shape in ('full', 'rebind'):
        w('else:')
        w('    ' + R("'else'"))
    return '\n'.join(indent + x for x in L)


def decl_target(typing, var='i'):
    """(declaration lines, final expression) for a range target typing"""
    if typing == 'untyped':
        return [], "(%s if n else 'empty')" % var
    if typing == 'objinit':
        return ['%s = None' % var], var
    if typing == 'cinit':
        return ['%s = 77' % var], var
    if typing == 'object':
        return ['cdef object %s = None' % var], var
    return ['cdef %s %s = 77' % (typing, var)], var


def fits(typing, v):
    if typing in CTYPES:
        lo, hi = CTYPES[typing]
        return lo <= v <= hi
    return True


def range_case_info(typing, a, b, c):
    """FA rule + structural features of a concrete range triple for a target typing.
    admissible: start fits, all produced values fit, stop fits (a negative stop is allowed for unsigned
    descending ranges as long as the values fit: Cython documents support for `range(n, -1, -1)`)."""
    info = {'admissible': True}
    if c == 0:
        info['feat'] = 'step0'
        return info
    r = range(a, b, c)
    n = len(r)
    if n > BUDGET:
        info['admissible'] = False
        return info
    if typing in CTYPES:
        lo, hi = CTYPES[typing]
        vals_fit = n == 0 or (lo <= r[0] <= hi and lo <= r[-1] <= hi)
        stop_ok = lo <= b <= hi or (lo == 0 and c < 0 and b < 0)
        if not (lo <= a <= hi and vals_fit and stop_ok):
            info['admissible'] = False
            return info
        exitv = a + n * c
        info['exit_fits'] = lo <= exitv <= hi
        info['neg_stop_unsigned'] = lo == 0 and b < 0
    info['feat'] = ('empty' if n == 0 else 'nonempty') + (':neg' if c < 0 else ':pos') + ('' if abs(c) == 1 else ':stepN')
    return info


BKCT = [(0, 0), (1, 0), (2, 1), (0, 2), (3, 0)]


def lit(v):
    return '(%d)' % v if v < 0 else str(v)


# ------------------------------------------------------------------------------------------------ range, literal

def reset_target(typing, var='i'):
    if typing in ('untyped',):
        return None
    if typing == 'objinit' or typing == 'object':
        return '%s = None' % var
    return '%s = 77' % var


def final_expr(typing, var='i'):
    return "(%s if n else 'empty')" % var if typing == 'untyped' else var


def packed(g, kind, typing, loops):
    """one function holding several literal range loops run one after the other; returns [(observations, final i), ...]
    loops: list of (range expression, info)"""
    decls, _ = decl_target(typing)
    nm = g.name()
    L = ['def %s(bk, ct):' % nm] + ['    ' + d for d in decls] + ['    res = []']
    for rx, info in loops:
        rs = reset_target(typing)
        if rs:
            L.append('    ' + rs)
        L.append('    o = []')
        L.append(body('i', rx, 'i', 'full', rec='app', budget='break'))
        L.append('    res.append((o, %s))' % final_expr(typing))
    L.append('    return res')
    infos = [i for _, i in loops]
    cases = [('(%d, %d)' % bc, {'packed': infos}) for bc in BKCT]
    g.add(nm, kind, typing, 'full', '\n'.join(L) + '\n', cases, 'cfor', {'nloops': len(loops)})


def range_text(form, a, b, c, rev):
    if form == 'r3':
        rx = 'range(%s, %s, %s)' % (lit(a), lit(b), lit(c))
    elif form == 'r2':
        rx = 'range(%s, %s)' % (lit(a), lit(b))
    else:
        rx = 'range(%s)' % lit(b)
    return 'reversed(%s)' % rx if rev else rx


def gen_range_literal(g, R, typings, rng, rev=False, sample=None):
    """all literal (start, stop, step) in [-R, R]^3 (+ 2-arg and 1-arg forms) for the given target typings, packed by
    (start, step): one function runs the loops for every stop.  Step 0 (ValueError at run time) gets its own function."""
    vals = list(range(-R, R + 1))
    groups = [('r3', [(a, b, c) for b in vals]) for a in vals for c in vals if c != 0]
    groups += [('r2', [(a, b, 1) for b in vals]) for a in vals]
    groups += [('r1', [(0, b, 1) for b in vals])]
    for typing in typings:
        gs = groups
        if sample:
            gs = rng.sample(groups, min(sample, len(groups)))
        for form, trips in gs:
            loops = []
            for a, b, c in trips:
                info = range_case_info(typing if typing in CTYPES else None, a, b, c)
                if info['admissible']:
                    loops.append((range_text(form, a, b, c, rev), dict(info, triple=[a, b, c], form=form, rev=rev)))
            if loops:
                packed(g, 'revrange-lit' if rev else 'range-lit', typing, loops)
        # step 0: a plain range() call must remain (ValueError)
        for a, b in ((0, 3), (-2, 2), (3, 3))[:1 if sample else 3]:
            decls, final = decl_target(typing)
            nm = g.name()
            rx = range_text('r3', a, b, 0, rev)
            src = 'def %s(bk, ct):\n%s\n%s\n    return %s\n' % (
                nm, '\n'.join('    ' + d for d in decls) or '    pass', body('i', rx, 'i', 'full'), final)
            info = {'admissible': True, 'feat': 'step0', 'triple': [a, b, 0], 'rev': rev}
            g.add(nm, ('revrange-lit' if rev else 'range-lit') + '-step0', typing, 'full', src, [('(0, 0)', info)], 'py-range', info,
                  expect_opt=False)


def gen_range_typebounds(g, types, rng, cap, pack=8):
    """literal ranges at the bounds of each C target type"""
    for typing in types:
        lo, hi = CTYPES[typing]
        trip = set()
        steps = [1, -1, 2, -2, 3, hi, -hi, hi // 2 + 1, -(hi // 2 + 1)]
        for side in ((hi - 2, hi - 1, hi), (lo, lo + 1, lo + 2)):
            for a in side:
                for b in side:
                    for c in steps:
                        trip.add((a, b, c))
        for c in (hi, -hi, hi // 2 + 1, -(hi // 2 + 1), hi // 3, -(hi // 3)):
            for a, b in ((lo, hi), (hi, lo), (0, hi), (hi, 0), (lo, 0), (0, lo), (lo + 1, hi - 1), (hi - 1, lo + 1)):
                trip.add((a, b, c))
        if lo == 0:
            for a in (0, 1, 2, 3):
                for b in (-1, -2, -3):
                    for c in (-1, -2, -3):
                        trip.add((a, b, c))
        out = []
        for (a, b, c) in sorted(trip):
            info = range_case_info(typing, a, b, c)
            if info['admissible']:
                out.append((a, b, c, info))
        rng.shuffle(out)
        out = out[:cap]
        for rev in (False, True):
            for i in range(0, len(out), pack):
                loops = [(range_text('r3', a, b, c, rev), dict(info, triple=[a, b, c], form='r3', rev=rev, bound=True))
                         for a, b, c, info in out[i:i + pack]]
                packed(g, 'revrange-bound' if rev else 'range-bound', typing, loops)


# ------------------------------------------------------------------------------------------------ range, runtime bounds

HOSTILE_BOUNDS = ['I(3)', 'Idx(2)', 'True', '2.0', 'None', "'a'", 'IdxRaises()', 'IntOnly(2)', 'IdxBad()']


def gen_range_args(g, typings, steps, bkinds, shapes, R, rng, ncase_extra, rev=False):
    """range(a, b[, STEP]) with runtime bounds: cvar (C-typed parameters), obj (object parameters),
    expr (object parameters evaluated through log())"""
    vals = list(range(-R, R + 1))
    for typing in typings:
        for step in steps:
            for bk in bkinds:
                for shape in shapes:
                    if shape != 'full' and (step not in (1, -2, 'n2') or bk == 'expr'):
                        continue
                    ptype = typing if typing in CTYPES else 'long'
                    if bk == 'cvar':
                        params = '%s a, %s b' % (ptype, ptype)
                        ea, eb = 'a', 'b'
                    elif bk == 'obj':
                        params = 'a, b'
                        ea, eb = 'a', 'b'
                    else:
                        params = 'a, b'
                        ea, eb = 'log(a)', 'log(b)'
                    if step == 'n1':
                        rx, c = 'range(%s)' % eb, 1
                    elif step == 'n2':
                        rx, c = 'range(%s, %s)' % (ea, eb), 1
                    else:
                        rx, c = 'range(%s, %s, %s)' % (ea, eb, lit(step)), step
                    if rev:
                        rx = 'reversed(%s)' % rx
                    decls, final = decl_target(typing)
                    rec = 'log' if bk == 'expr' else 'app'
                    RR = (lambda x: 'log(%s)' % x) if rec == 'log' else (lambda x: 'o.append(%s)' % x)
                    rebind = None
                    if shape == 'rebind':
                        rebind = ['i = i + 3', 'log(i)', 'b = b - 1', 'a = a + 1']
                    if shape == 'nested':
                        inner = 'range(i, %s, %s)' % (eb if bk != 'expr' else 'b', lit(c))
                        decls = decls + decl_target(typing, 'j')[0]
                        btxt = '\n'.join([
                            '    n = 0',
                            '    for i in %s:' % rx,
                            '        for j in %s:' % inner,
                            '            n += 1',
                            "            if n > %d: raise BufferError('budget')" % BUDGET,
                            '            if n == bk:',
                            '                ' + RR("'brk'"),
                            '                break',
                            '            if n == ct:',
                            '                ' + RR("'cnt'"),
                            '                continue',
                            '            ' + RR('(i, j)'),
                            '        else:',
                            '            ' + RR("'ielse'"),
                            '            continue',
                            '        ' + RR("'obrk'"),
                            '        break',
                            '    else:',
                            '        ' + RR("'oelse'")])
                    else:
                        btxt = body('i', rx, 'i', shape, rebind=rebind, rec=rec)
                    nm = g.name()
                    src = 'def %s(%s, bk, ct):\n%s\n    o = []\n%s\n    return (o, %s)\n' % (
                        nm, params, '\n'.join('    ' + d for d in decls) or '    pass', btxt, final)
                    cases = []
                    pairs = [(a, b) for a in vals for b in vals] if step != 'n1' else [(0, b) for b in vals]
                    if shape not in ('full', 'plain'):
                        pass    # bodies that compute with the loop variable stay away from the type bounds
                    elif typing in CTYPES:
                        lo, hi = CTYPES[typing]
                        for side in ((hi - 2, hi - 1, hi), (lo, lo + 1, lo + 2)):
                            pairs += [(a, b) for a in side for b in side] if step != 'n1' else []
                    elif bk == 'cvar':
                        lo, hi = CTYPES['long']
                        for side in ((hi - 2, hi - 1, hi), (lo, lo + 1, lo + 2)):
                            pairs += [(a, b) for a in side for b in side] if step != 'n1' else []
                    good = []
                    for a, b in pairs:
                        info = range_case_info(typing if typing in CTYPES else ('long' if bk == 'cvar' else None), a, b, c)
                        if bk == 'cvar' and not (fits(ptype, a) and fits(ptype, b)):
                            continue
                        if info['admissible']:
                            good.append((a, b, info))
                    for a, b, info in good:
                        info = dict(info, triple=[a, b, c], form=str(step), rev=rev, bkind=bk)
                        cases.append(('(%d, %d, 0, 0)' % (a, b), info))
                    for _ in range(ncase_extra):
                        a, b, info = rng.choice(good)
                        info = dict(info, triple=[a, b, c], form=str(step), rev=rev, bkind=bk)
                        cases.append(('(%d, %d, %d, %d)' % ((a, b) + rng.choice(BKCT[1:])), info))
                    if bk != 'cvar':
                        for h in HOSTILE_BOUNDS:
                            hinfo = {'admissible': True, 'feat': 'hostile-bound', 'hostile': h, 'rev': rev, 'bkind': bk}
                            cases.append(('(%s, 4, 0, 0)' % h, hinfo))
                            cases.append(('(1, %s, 0, 0)' % h, hinfo))
                    # static expectation: object targets are only optimised for literal or C-typed bounds
                    expect = step != 0 and (typing in CTYPES or (typing == 'untyped' and bk == 'cvar' and shape != 'rebind'))
                    g.add(nm, ('revrange-' if rev else 'range-') + bk, typing, shape, src, cases, 'cfor',
                          {'step': step, 'bkind': bk, 'rev': rev}, expect_opt=expect)


def gen_range_dynstep(g):
    """step not known at compile time: must stay a Python range() iteration"""
    for typing in ('untyped', 'long', 'object'):
        decls, final = decl_target(typing)
        nm = g.name()
        src = 'def %s(a, b, c, bk, ct):\n%s\n%s\n    return %s\n' % (
            nm, '\n'.join('    ' + d for d in decls) or '    pass', body('i', 'range(a, b, c)', 'i', 'full'), final)
        cases = []
        for a, b, c in [(0, 5, 1), (5, 0, -1), (0, 5, 0), (-3, 3, 2), (3, -3, -2), (0, 0, 1), (2, 10, 3)]:
            info = dict(range_case_info(typing if typing in CTYPES else None, a, b, c), triple=[a, b, c], form='dyn')
            cases.append(('(%d, %d, %d, 0, 0)' % (a, b, c), info))
            cases.append(('(%d, %d, %d, 2, 1)' % (a, b, c), info))
        g.add(nm, 'range-dynstep', typing, 'full', src, cases, 'cfor', {}, expect_opt=False)


# ------------------------------------------------------------------------------------------------ containers

DICT_MUT = {
    'none': None,
    'add': ["d[('new', n)] = n"],
    'del': ['del d[next(iter(d))]'],
    'replace': ['del d[next(iter(d))]', "d[('new', n)] = n"],
    'readd': ['kk = next(iter(d))', 'vv = d.pop(kk)', 'd[kk] = vv'],
    'setval': ["d[next(iter(d))] = 'changed'"],
    'clear': ['d.clear()'],
    'popitem': ['d.popitem()'],
}
SET_MUT = {
    'none': None,
    'add': ["s.add(('new', n))"],
    'discard': ['s.discard(next(iter(s)))'],
    'replace': ['s.discard(next(iter(s)))', "s.add(('new', n))"],
    'clear': ['s.clear()'],
    'pop': ['s.pop()'],
}
LIST_MUT = {
    'none': None,
    'append': ["l.append(('new', n))"],
    'pop': ['l.pop()'],
    'insert0': ["l.insert(0, ('new', n))"],
    'del0': ['del l[0]'],
    'clear': ['l.clear()'],
    'rebind': ['l = [7, 8, 9]'],
}
BA_MUT = {
    'none': None,
    'append': ['ba.append(n)'],
    'pop': ['ba.pop()'],
    'clear': ['ba.clear()'],
    'del0': ['del ba[0]'],
    'rebind': ["ba = bytearray(b'zz')"],
}

DICT_VALUES = ['{}', '{1: 1}', "{1: 'a', 2: 'b', 3: 'c'}", "{'x': 1, 'y': 2, 'z': 3, 'w': 4, 'v': 5}",
               '{i: i * i for i in range(8)}', "{1: 1, 'a': 2, (1, 2): 3, None: 4}",
               "{'\\xe9': 1, '\\u20ac': 2, '\\U0001f600': 3}", '{i: (i, i + 1) for i in range(4)}', 'None']
DICT_OBJECTS = ["D({1: 'a', 2: 'b', 3: 'c'})", "DGet({1: 'a', 2: 'b'})", "DMissing({1: 'a', 2: 'b', 3: 'c', 4: 'd'})",
                "OD([(3, 'c'), (1, 'a'), (2, 'b')])", 'Obj(1)', '[1, 2]', "KeysList({1: 'a', 2: 'b', 3: 'c'})",
                "KeysGen({1: 'a', 2: 'b', 3: 'c'})", "KeysTuple({1: 'a', 2: 'b', 3: 'c'})", 'KeysBad()',
                "MP({1: 'a', 2: 'b'})", "DIterRaises({1: 'a', 2: 'b', 3: 'c'})"]
SET_VALUES = ['set()', '{1}', '{1, 2, 3}', "{'x', 'y', 'z', 'w', 'v'}", 'set(range(8))', "{1, 'a', (1, 2), None}",
              "{'\\xe9', '\\u20ac', '\\U0001f600'}", 'None', '{8, 16, 24, 32, 40, 0}']
LIST_VALUES = ['[]', '[1]', '[1, 2, 3]', "['a', None, 2.5, (1, 2)]", 'list(range(8))', 'None', "[[1], [2], [3], [4]]"]
STR_VALUES = ["''", "'a'", "'abc'", "'a\\xe9b'", "'\\u20acx\\u0100'", "'x\\U0001f600y\\U00010000'", "'\\ud800a'",
              "'\\x00\\x7f\\x80\\xff'", 'None', "'hello world'"]
BYTES_VALUES = ["b''", "b'a'", "b'abc'", "b'\\x00\\x01\\x7f'", "b'\\x80\\xff\\xfe a'", 'None', "b'hello world'"]
BYTES_VALUES_7BIT = ["b''", "b'a'", "b'abc'", "b'\\x00\\x01\\x7f'", 'None', "b'hello world'"]

SETUP = r'''
from collections import OrderedDict as OD
from types import MappingProxyType as MP
class KeysList:
    def __init__(self, d): self.d = d
    def keys(self): return list(self.d)
    def values(self): return list(self.d.values())
    def items(self): return list(self.d.items())
    def __iter__(self): return iter(self.d)
    def __vsig__(self): return ('KeysList', self.d)
class KeysTuple(KeysList):
    def keys(self): return tuple(self.d)
    def values(self): return tuple(self.d.values())
    def items(self): return tuple(self.d.items())
    def __vsig__(self): return ('KeysTuple', self.d)
class KeysGen(KeysList):
    def keys(self): return (k for k in self.d)
    def values(self): return (v for v in self.d.values())
    def items(self): return ((k, v) for k, v in self.d.items())
    def __vsig__(self): return ('KeysGen', self.d)
class KeysBad:
    def keys(self): return 5
    def values(self): raise KeyError('values')
    def items(self): return [(1, 2, 3)]
    def __vsig__(self): return 'KeysBad'
class DIterRaises(dict):
    def keys(self): return IterRaises(2)
    def values(self): return IterRaises(1)
    def items(self): return [(1, 2), (3,)]
    def __iter__(self): return iter(IterRaises(1))
'''


MU_COMBOS = [(1, 0, 0), (2, 0, 0), (3, 0, 0), (-1, 0, 0), (-2, 0, 0), (1, 1, 0), (2, 2, 0), (2, 3, 0), (1, 0, 2),
             (2, 0, 2), (4, 0, 0), (-3, 0, 3), (5, 0, 0), (8, 0, 0)]
PLAIN_COMBOS = [(0, 0, 0), (0, 2, 1), (0, 1, 0), (0, 0, 1), (0, 3, 2)]


def mucases(values, rng, nper, mutates):
    """(container expr, mu, bk, ct) tuples for templates without a mutation selector"""
    out = []
    for v in values:
        out.append((v, 0, 0, 0))
        if v == 'None':
            out.append((v, 1, 2, 0))
            continue
        for c in PLAIN_COMBOS[1:]:
            out.append((v,) + c)
        if mutates:
            for c in rng.sample(MU_COMBOS, min(nper, len(MU_COMBOS))):
                out.append((v,) + c)
    return out


def mkcases(values, muts, rng, nper):
    """[(args-without-parens text, info)] for templates with the runtime mutation selector mk:
    (container, mk, mu, bk, ct)"""
    out = []
    names = list(muts)
    for v in values:
        for c in (PLAIN_COMBOS if v != 'None' else PLAIN_COMBOS[:2]):
            out.append(('%s, 0, %d, %d, %d' % ((v,) + c), {'feat': 'mu0', 'container': v, 'mut': 'none'}))
        if v == 'None':
            continue
        for idx, mname in enumerate(names):
            if not muts[mname]:
                continue
            for c in rng.sample(MU_COMBOS, min(nper, len(MU_COMBOS))):
                out.append(('%s, %d, %d, %d, %d' % ((v, idx) + c),
                            {'feat': 'murep' if c[0] < 0 else 'mu1', 'container': v, 'mut': mname}))
    return out


def gen_dict(g, rng, nper, muts):
    forms = [('iter', 'k', 'd', 'k'), ('keys', 'k', 'd.keys()', 'k'), ('values', 'v', 'd.values()', 'v'),
             ('items', 'k, v', 'd.items()', '(k, v)'), ('items1', 'kv', 'd.items()', 'kv')]
    for typing in ('dict', 'untyped'):
        for form, target, it, logx in forms:
            params = ('dict d' if typing == 'dict' else 'd') + ', mk, mu, bk, ct'
            nm = g.name()
            pre = '    k = v = kv = None'
            src = 'def %s(%s):\n%s\n%s\n    return (k, v, kv, n)\n' % (nm, params, pre, body(target, it, logx, 'full', mut=DICT_MUT))
            vals = DICT_VALUES + (DICT_OBJECTS if typing == 'untyped' else [])
            cases = [('(%s)' % t, i) for t, i in mkcases(vals, DICT_MUT, rng, nper)]
            expect = not (typing == 'untyped' and form == 'iter')
            g.add(nm, 'dict-' + form, typing, 'full', src, cases, 'dict', {}, expect_opt=expect)
    # typed targets and nested unpacking, literal dicts, dict comprehension sources
    extra = [
        ('dict-items-ctarget', 'dict', 'def %s(dict d, mu, bk, ct):\n    cdef long k = 77\n    cdef long v = 78\n%s\n    return (k, v, n)\n',
         ('k, v', 'd.items()', '(k, v)'), ['{}', '{1: 2, 3: 4, -5: 6}', '{i: -i for i in range(6)}', 'None'], 'dict', None),
        ('dict-items-nested', 'dict', 'def %s(dict d, mu, bk, ct):\n    k = v1 = v2 = None\n%s\n    return (k, v1, v2, n)\n',
         ('k, (v1, v2)', 'd.items()', '(k, v1, v2)'), ['{}', '{1: (2, 3), 4: (5, 6)}', '{1: (2, 3), 4: (5,)}', '{1: 5}', 'None'], 'dict', None),
        ('dict-literal', 'literal', 'def %s(x, mu, bk, ct):\n    k = None\n%s\n    return (k, n)\n',
         ('k', "{1: 'a', x: 'b', 'z': 'c'}", 'k'), ['2', '1', "'z'", 'None', '[]'], 'dict', None),
        ('dict-literal-items', 'literal', 'def %s(x, mu, bk, ct):\n    k = v = None\n%s\n    return (k, v, n)\n',
         ('k, v', "{1: 'a', x: 'b', 'z': 'c'}.items()", '(k, v)'), ['2', '1', "'z'", 'None', '[]'], 'dict', None),
        ('dict-comp-values', 'literal', 'def %s(x, mu, bk, ct):\n    v = None\n%s\n    return (v, n)\n',
         ('v', '{j: j * x for j in range(4)}.values()', 'v'), ['2', "'ab'", 'None'], 'dict', None),
        ('dict-call-keys', 'literal', 'def %s(x, mu, bk, ct):\n    k = None\n%s\n    return (k, n)\n',
         ('k', 'dict(x).keys()', 'k'), ['{1: 2, 3: 4}', '[(1, 2), (3, 4)]', 'D({5: 6})', 'None', '5'], 'dict', None),
    ]
    for kind, typing, tmpl, (target, it, logx), vals, marker, _ in extra:
        nm = g.name()
        src = tmpl % (nm, body(target, it, logx, 'full'))
        cases = [('(%s, %d, %d, %d)' % c, {'feat': 'mu0', 'container': c[0]}) for c in mucases(vals, rng, nper, False)]
        g.add(nm, kind, typing, 'full', src, cases, marker, {'mut': 'none'})
    # mutation of a typed dict while iterating with a typed loop (add during keys(), delete during values() ...) in a nested loop
    nm = g.name()
    src = ('def %s(dict d, set s, mu, bk, ct):\n    k = x = None\n    n = 0\n    for k in d:\n        for x in s:\n            n += 1\n'
           "            if n > %d: raise BufferError('budget')\n            if n == mu:\n                d[('new', n)] = n\n"
           "            if n == bk:\n                s.add(('new', n))\n            if n == ct:\n                log('cnt')\n                continue\n"
           "            log((k, x))\n        else:\n            log('ielse')\n    else:\n        log('oelse')\n    return (k, x, n)\n") % (nm, BUDGET)
    cases = []
    for d in ('{}', '{1: 1, 2: 2}', "{'a': 1, 'b': 2, 'c': 3}"):
        for s in ('set()', '{1, 2}', "{'p', 'q', 'r'}"):
            for mu, bk, ct in ((0, 0, 0), (1, 0, 0), (0, 1, 0), (3, 0, 2), (0, 4, 0), (2, 2, 0), (5, 0, 0), (0, 0, 1)):
                cases.append(('(%s, %s, %d, %d, %d)' % (d, s, mu, bk, ct), {'feat': 'nested', 'container': d}))
    g.add(nm, 'dict-set-nested', 'dict', 'nested', src, cases, 'dict', {'mut': 'add'})


def gen_set(g, rng, nper, muts):
    for typing, decl in (('set', 'set s'), ('frozenset', 'frozenset s'), ('untyped', 's')):
        nm = g.name()
        M = SET_MUT if typing != 'frozenset' else {'none': None}
        src = 'def %s(%s, mk, mu, bk, ct):\n    x = None\n%s\n    return (x, n)\n' % (nm, decl, body('x', 's', 'x', 'full', mut=M))
        vals = SET_VALUES if typing != 'frozenset' else [('frozenset(%s)' % v if v != 'None' else v) for v in SET_VALUES]
        if typing == 'untyped':
            vals = SET_VALUES[:4] + ['St({1, 2, 3})', 'frozenset({4, 5})']
        cases = [('(%s)' % t, i) for t, i in mkcases(vals, M, rng, nper)]
        g.add(nm, 'set-iter', typing, 'full', src, cases, 'set', {}, expect_opt=typing != 'untyped')
    extra = [
        ('set-literal', 'def %s(y, mu, bk, ct):\n    x = None\n%s\n    return (x, n)\n', ('x', "{1, y, 'z'}", 'x'),
         ['2', '1', "'z'", 'None', '[]', '(1, 2)']),
        ('set-comp', 'def %s(y, mu, bk, ct):\n    x = None\n%s\n    return (x, n)\n', ('x', '{j * y for j in range(5)}', 'x'),
         ['2', '0', "'a'", 'None']),
        ('set-call', 'def %s(y, mu, bk, ct):\n    x = None\n%s\n    return (x, n)\n', ('x', 'set(y)', 'x'),
         ['[3, 1, 2, 1]', "'hello'", 'None', '5', '{1: 2}']),
        ('frozenset-call', 'def %s(y, mu, bk, ct):\n    x = None\n%s\n    return (x, n)\n', ('x', 'frozenset(y)', 'x'),
         ['[3, 1, 2, 1]', "'hello'", 'None', '5']),
        ('set-ctarget', 'def %s(set s, mu, bk, ct):\n    cdef long x = 77\n%s\n    return (x, n)\n', ('x', 's', 'x'),
         ['set()', '{1, 2, 3}', '{-5, 100, 2 ** 40}', 'None']),
    ]
    for kind, tmpl, (target, it, logx), vals in extra:
        nm = g.name()
        src = tmpl % (nm, body(target, it, logx, 'full'))
        cases = [('(%s, %d, %d, %d)' % c, {'feat': 'mu0', 'container': c[0]}) for c in mucases(vals, rng, nper, False)]
        g.add(nm, kind, 'literal', 'full', src, cases, 'set', {'mut': 'none'})


def gen_list(g, rng, nper, muts):
    forms = [('plain', 'x', 'l', 'x'), ('reversed', 'x', 'reversed(l)', 'x'), ('enumerate', 'j, x', 'enumerate(l)', '(j, x)'),
             ('enumerate-start', 'j, x', 'enumerate(l, 5)', '(j, x)'), ('enumerate-rev', 'j, x', 'enumerate(reversed(l))', '(j, x)')]
    for typing, decl in (('list', 'list l'), ('untyped', 'l')):
        for form, target, it, logx in forms:
            nm = g.name()
            src = 'def %s(%s, mk, mu, bk, ct):\n    x = j = None\n%s\n    return (j, x, n)\n' % (
                nm, decl, body(target, it, logx, 'full', mut=LIST_MUT))
            vals = LIST_VALUES + (['L([1, 2, 3])', 'LGet([1, 2])', '(1, 2, 3)', "'ab'", 'gen_list(3)', 'IterRaises(2)', '5']
                                  if typing == 'untyped' else [])
            cases = [('(%s)' % t, i) for t, i in mkcases(vals, LIST_MUT, rng, nper)]
            expect = typing == 'list' or form.startswith('enumerate')
            marker = 'list' if typing == 'list' else ('enum' if form.startswith('enumerate') else 'list')
            g.add(nm, 'list-' + form, typing, 'full', src, cases, marker, {}, expect_opt=expect)
    # tuple
    for form, target, it, logx in forms:
        nm = g.name()
        src = 'def %s(tuple l, mu, bk, ct):\n    x = j = None\n%s\n    return (j, x, n)\n' % (
            nm, body(target, it, logx, 'full', mut=['l = (7, 8)']))
        vals = ['()', '(1,)', '(1, 2, 3)', "('a', None, 2.5)", 'tuple(range(8))', 'None']
        cases = [('(%s, %d, %d, %d)' % c, {'feat': 'mu0' if c[1] == 0 else 'rebind', 'container': c[0]})
                 for c in mucases(vals, rng, nper, True)]
        g.add(nm, 'tuple-' + form, 'tuple', 'full', src, cases, 'list', {'mut': 'rebind'})


ENUM_STARTS = ['0', '1', '-3', '2 ** 31 - 1', '2 ** 63 - 2', '2 ** 63 - 1', '2 ** 64', '-2 ** 63', 'True', 'I(5)', 'Idx(5)',
               '1.5', "'a'", 'None', 'IntOnly(2)', 'IdxRaises()']


def gen_enumerate(g, rng):
    """enumerate with runtime start, typed counters, side-effect order"""
    specs = [
        ('enum-objstart', 'def %s(l, st, bk, ct):\n    j = x = None\n%s\n    return (j, x, n)\n', 'j, x', 'enumerate(l, st)', ENUM_STARTS, 'untyped'),
        ('enum-objstart-list', 'def %s(list l, st, bk, ct):\n    j = x = None\n%s\n    return (j, x, n)\n', 'j, x', 'enumerate(l, st)', ENUM_STARTS, 'list'),
        ('enum-kwstart', 'def %s(l, st, bk, ct):\n    j = x = None\n%s\n    return (j, x, n)\n', 'j, x', 'enumerate(l, start=st)', ENUM_STARTS, 'untyped'),
        ('enum-logorder', 'def %s(l, st, bk, ct):\n    j = x = None\n%s\n    return (j, x, n)\n', 'j, x', 'enumerate(log(l), log(st))', ENUM_STARTS, 'untyped'),
        ('enum-ccounter', 'def %s(l, long st, bk, ct):\n    cdef long j = 77\n    x = None\n%s\n    return (j, x, n)\n', 'j, x', 'enumerate(l, st)',
         ['0', '1', '-3', '2 ** 31 - 1', '2 ** 62'], 'long'),
        ('enum-ccounter-int', 'def %s(l, bk, ct):\n    cdef int j = 77\n    x = None\n%s\n    return (j, x, n)\n', 'j, x', 'enumerate(l)', None, 'int'),
        ('enum-single-target', 'def %s(l, st, bk, ct):\n    jx = None\n%s\n    return (jx, n)\n', 'jx', 'enumerate(l, st)', ENUM_STARTS[:6], 'untyped'),
        ('enum-range', 'def %s(long a, st, bk, ct):\n    j = x = None\n%s\n    return (j, x, n)\n', 'j, x', 'enumerate(range(a), st)', ['0', '7', 'I(5)'], 'range'),
        ('enum-dict', 'def %s(dict l, st, bk, ct):\n    j = x = None\n%s\n    return (j, x, n)\n', 'j, x', 'enumerate(l, st)', ['0', '7'], 'dict'),
        ('enum-str', 'def %s(str l, st, bk, ct):\n    j = x = None\n%s\n    return (j, x, n)\n', 'j, x', 'enumerate(l, st)', ['0', '7'], 'str'),
        ('enum-nested-target', 'def %s(l, st, bk, ct):\n    j = x = y = None\n%s\n    return (j, x, y, n)\n', 'j, (x, y)', 'enumerate(l, st)', ['0', '3'], 'pairs'),
    ]
    seqs = {'untyped': ['[]', '[1, 2, 3]', "'ab'", '(4, 5)', 'gen_list(3)', 'None', '5'],
            'list': ['[]', '[1, 2, 3]', 'None'],
            'long': ['[]', '[1, 2, 3]', "'ab'"], 'int': ['[]', '[1, 2, 3]', "'ab'", 'None'],
            'range': ['0', '3', '-2'], 'dict': ['{}', "{1: 'a', 2: 'b'}", 'None'], 'str': ["''", "'a\\u20acb'", 'None'],
            'pairs': ['[]', '[(1, 2), (3, 4)]', '[(1, 2, 3)]', '[5]']}
    for kind, tmpl, target, it, starts, sk in specs:
        nm = g.name()
        logx = '(' + target.replace('(', '').replace(')', '') + ')' if ',' in target else target
        src = tmpl % (nm, body(target, it, logx, 'full'))
        cases = []
        for s in seqs[sk]:
            for st in ((starts or [None]) if s != 'None' else (starts or [None])[:2]):
                for bk, ct in (((0, 0), (2, 1)) if s != 'None' else ((0, 0),)):
                    args = '(%s, %s, %d, %d)' % (s, st, bk, ct) if st is not None else '(%s, %d, %d)' % (s, bk, ct)
                    plain_int = st is None or re.match(r'^-?[\d \*\-]+$', st) is not None
                    cases.append((args, {'feat': 'start-int' if plain_int else 'start-hostile', 'start': st, 'container': s}))
        g.add(nm, kind, sk, 'full', src, cases, 'enum', {'mut': 'none'}, expect_opt=kind not in ('enum-single-target', 'enum-kwstart'))


def gen_str_bytes(g, rng, nper):
    forms = [('plain', 'c', '%s', 'c'), ('reversed', 'c', 'reversed(%s)', 'c'), ('enumerate', 'j, c', 'enumerate(%s)', '(j, c)'),
             ('slice', 'c', '%s[1:3]', 'c'), ('enumerate-rev', 'j, c', 'enumerate(reversed(%s), 2)', '(j, c)')]
    # str
    for ttyping, tdecl in (('untyped', '    c = None'), ('Py_UCS4', "    cdef Py_UCS4 c = u'A'")):
        for form, target, it, logx in forms:
            nm = g.name()
            src = 'def %s(str s, mu, bk, ct):\n%s\n    j = None\n%s\n    return (c, j, n)\n' % (
                nm, tdecl, body(target, it % 's', logx, 'full', mut=["s = 'zz'"]))
            cases = [('(%s, %d, %d, %d)' % c, {'feat': 'mu0' if c[1] == 0 else 'rebind', 'container': c[0]})
                     for c in mucases(STR_VALUES, rng, nper, True)]
            g.add(nm, 'str-' + form, ttyping, 'full', src, cases, 'str', {'mut': 'rebind'})
    for nmk, litx in (('str-literal-latin1', "'ab\\xe9'"), ('str-literal-ucs2', "'a\\u20acb'"), ('str-literal-ucs4', "'a\\U0001f600'"),
                      ('str-literal-empty', "''")):
        for rev in (False, True):
            nm = g.name()
            it = 'reversed(%s)' % litx if rev else litx
            src = 'def %s(mu, bk, ct):\n    c = None\n%s\n    return (c, n)\n' % (nm, body('c', it, 'c', 'full'))
            cases = [('(0, %d, %d)' % bc, {'feat': 'mu0', 'container': litx}) for bc in BKCT]
            g.add(nm, nmk + ('-rev' if rev else ''), 'literal', 'full', src, cases, 'carray', {'mut': 'none'})
    # untyped str: stays generic
    nm = g.name()
    src = 'def %s(s, mu, bk, ct):\n    c = None\n%s\n    return (c, n)\n' % (nm, body('c', 's', 'c', 'full'))
    cases = [('(%s, %d, %d, %d)' % c, {'feat': 'mu0', 'container': c[0]}) for c in mucases(STR_VALUES + ["S('sub')"], rng, nper, False)]
    g.add(nm, 'str-plain', 'untyped-obj', 'full', src, cases, 'str', {'mut': 'none'}, expect_opt=False)
    # bytes
    for ttyping, tdecl, vals in (('untyped', '', BYTES_VALUES), ('int', '    cdef int c = 77', BYTES_VALUES),
                                 ('unsigned char', '    cdef unsigned char c = 77', BYTES_VALUES),
                                 ('signed char', '    cdef signed char c = 77', BYTES_VALUES_7BIT),
                                 ('char', '    cdef char c = 77', BYTES_VALUES_7BIT),
                                 ('long', '    cdef long c = 77', BYTES_VALUES),
                                 ('object', '    cdef object c = None', BYTES_VALUES)):
        for form, target, it, logx in forms:
            if ttyping not in ('untyped', 'int', 'unsigned char') and form not in ('plain', 'reversed'):
                continue
            nm = g.name()
            fin = "(c if n else 'empty')" if ttyping == 'untyped' else 'c'
            src = 'def %s(bytes s, mu, bk, ct):\n%s\n    j = None\n%s\n    return (%s, j, n)\n' % (
                nm, tdecl or '    pass', body(target, it % 's', logx, 'full', mut=["s = b'zz'"]), fin)
            cases = [('(%s, %d, %d, %d)' % c, {'feat': 'mu0' if c[1] == 0 else 'rebind', 'container': c[0],
                                                'highbyte': bool(re.search(r'\\x[89a-f]', c[0]))})
                     for c in mucases(vals, rng, nper, True)]
            g.add(nm, 'bytes-' + form, ttyping, 'full', src, cases, 'bytes', {'mut': 'rebind'},
                  expect_opt=ttyping != 'object' and not (ttyping == 'untyped' and form not in ('plain', 'slice')))
    for nmk, litx in (('bytes-literal', "b'ab\\xe9\\x00z'"), ('bytes-literal-empty', "b''")):
        for rev in (False, True):
            nm = g.name()
            it = 'reversed(%s)' % litx if rev else litx
            src = "def %s(mu, bk, ct):\n%s\n    return ((c if n else 'empty'), n)\n" % (nm, body('c', it, 'c', 'full'))
            cases = [('(0, %d, %d)' % bc, {'feat': 'mu0', 'container': litx}) for bc in BKCT]
            g.add(nm, nmk + ('-rev' if rev else ''), 'literal', 'full', src, cases, 'carray', {'mut': 'none'})
    for rev in (False, True):
        nm = g.name()
        it = "reversed(b'ab\\xe9\\x00z')" if rev else "b'ab\\xe9\\x00z'"
        src = "def %s(mu, bk, ct):\n    c = None\n%s\n    return (c, n)\n" % (nm, body('c', it, 'c', 'full'))
        cases = [('(0, %d, %d)' % bc, {'feat': 'mu0', 'container': 'literal'}) for bc in BKCT]
        g.add(nm, 'bytes-literal-objtarget' + ('-rev' if rev else ''), 'literal', 'full', src, cases, 'carray', {'mut': 'none'})
    # bytearray
    for form, target, it, logx in forms:
        nm = g.name()
        src = 'def %s(bytearray ba, mk, mu, bk, ct):\n    c = j = None\n%s\n    return (c, j, n)\n' % (
            nm, body(target, it % 'ba', logx, 'full', mut=BA_MUT))
        vals = ["bytearray(b'')", "bytearray(b'a')", "bytearray(b'abc')", "bytearray(b'\\x00\\x80\\xff')",
                "bytearray(b'hello wo')", 'None']
        cases = [('(%s)' % t, i) for t, i in mkcases(vals, BA_MUT, rng, nper)]
        g.add(nm, 'bytearray-' + form, 'bytearray', 'full', src, cases, 'bytearray', {})


def gen_carray(g, rng):
    """C arrays, pointer slices and C-typed sequence literals (.pyx only); explicit reference text"""
    N = 8
    fill = ('    cdef int[%d] arr\n    cdef int* p = arr\n    q = 0\n    for q in range(%d):\n        arr[q] = vals[q]\n' % (N, N))
    fill_ref = '    arr = list(vals)\n    p = arr\n'
    forms = [
        ('full', 'arr', 'arr', False), ('slice-ab', 'arr[a:b]', 'arr[a:b]', True), ('slice-b', 'arr[:b]', 'arr[:b]', True),
        ('slice-step2', 'arr[a:b:2]', 'arr[a:b:2]', True),
        ('slice-step3', 'arr[a:b:3]', 'arr[a:b:3]', True), ('slice-neg1', 'arr[a:b:-1]', 'arr[a:b:-1]', True),
        ('slice-neg2', 'arr[a:b:-2]', 'arr[a:b:-2]', True), ('ptr-b', 'p[:b]', 'p[:b]', True), ('ptr-ab', 'p[a:b]', 'p[a:b]', True),
        ('rev-full', 'reversed(arr)', 'reversed(arr)', False), ('enum-full', 'enumerate(arr)', 'enumerate(arr)', False),
        ('lit-consts', '(3, 1, 2)', '(3, 1, 2)', False), ('lit-cvars', '[a, b, a + b]', '[a, b, a + b]', True),
        ('rev-lit-cvars', 'reversed([a, b, a + b])', 'reversed([a, b, a + b])', True),
    ]
    for ttyping, tdecl in (('int', '    cdef int x = 77'), ('untyped', '    x = None'), ('long', '    cdef long x = 77')):
        for form, it, itref, useab in forms:
            if ttyping == 'long' and form not in ('full', 'slice-ab', 'rev-full'):
                continue
            target = 'j, x' if form.startswith('enum') else 'x'
            logx = '(j, x)' if form.startswith('enum') else 'x'
            nm = g.name()
            sig = 'def %s(vals, Py_ssize_t a, Py_ssize_t b, bk, ct):\n' % nm
            src = sig + fill + tdecl + '\n    j = None\n' + body(target, it, logx, 'full') + '\n    return (x, j, n)\n'
            ref = ('def %s(vals, a, b, bk, ct):\n' % nm + fill_ref + '    x = %s\n    j = None\n' % ('77' if ttyping != 'untyped' else 'None')
                   + body(target, itref, logx, 'full') + '\n    return (x, j, n)\n')
            cases = []
            vals = '[5, -3, 0, 7, 2 ** 31 - 1, -2 ** 31, 1, 9]'
            if form.startswith('lit') or form.startswith('rev-lit'):
                pairs = [(0, 0), (1, 2), (-3, 4), (100, -100)]
            elif useab:
                pairs = [(a, b) for a in range(0, N + 1) for b in range(0, N + 1)]
                if 'neg' in form:
                    # C semantics: no clamping; keep start inside the array and stop >= -1
                    pairs = [(a, b) for a in range(0, N) for b in range(-1, N)]
                if form == 'slice-a':
                    pairs = [(a, 0) for a in range(0, N + 1)]
                if form in ('slice-b', 'ptr-b'):
                    pairs = [(0, b) for b in range(0, N + 1)]
            else:
                pairs = [(0, 0)]
            for a, b in pairs:
                cases.append(('(%s, %d, %d, 0, 0)' % (vals, a, b), {'feat': 'carray', 'container': form}))
            for a, b in rng.sample(pairs, min(6, len(pairs))):
                cases.append(('(%s, %d, %d, 2, 1)' % (vals, a, b), {'feat': 'carray', 'container': form}))
            if 'neg' in form:
                # python slice semantics for a negative stop differ from C pointer arithmetic by design:
                # the reference expresses the C meaning (stop index b exclusive, counting down)
                ref = ref.replace('arr[a:b:-1]', '[arr[q] for q in range(a, b, -1)]').replace('arr[a:b:-2]', '[arr[q] for q in range(a, b, -2)]')
            g.add(nm, 'carray-' + form, ttyping, 'full', src, cases, 'carray', {'mut': 'none'}, ref=ref)
