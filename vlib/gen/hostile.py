"""Hostile typed workload for the sanitizer checks: operations that CPython rejects (or answers) and that
generated C must answer without an invalid access or UB under the default safety directives."""

PYX = r'''
# cython: language_level=3
cimport cython

def log(*xs):
    return None

# ---- typed sequence indexing / slicing
def li_get(list l, Py_ssize_t i): return l[i]
def li_get_obj(list l, i): return l[i]
def li_set(list l, Py_ssize_t i, v):
    l[i] = v
    return l
def li_del(list l, Py_ssize_t i):
    del l[i]
    return l
def li_slice(list l, Py_ssize_t a, Py_ssize_t b): return l[a:b]
def li_slice_o(list l, a, b): return l[a:b]
def li_slice_set(list l, Py_ssize_t a, Py_ssize_t b, v):
    l[a:b] = v
    return l
def tu_get(tuple t, Py_ssize_t i): return t[i]
def tu_get_int(tuple t, int i): return t[i]
def tu_get_uint(tuple t, unsigned int i): return t[i]
def tu_slice(tuple t, Py_ssize_t a, Py_ssize_t b): return t[a:b]
def st_get(str s, Py_ssize_t i): return s[i]
def st_get_ucs4(str s, Py_ssize_t i):
    cdef Py_UCS4 c = s[i]
    return c
def st_slice(str s, Py_ssize_t a, Py_ssize_t b): return s[a:b]
def st_slice_start(str s, Py_ssize_t a): return s[a:]
def st_slice_stop(str s, Py_ssize_t b): return s[:b]
def by_get(bytes s, Py_ssize_t i): return s[i]
def by_get_c(bytes s, Py_ssize_t i):
    cdef char c = s[i]
    return c
def by_slice(bytes s, Py_ssize_t a, Py_ssize_t b): return s[a:b]
def ba_get(bytearray s, Py_ssize_t i): return s[i]
def ba_set(bytearray s, Py_ssize_t i, int v):
    s[i] = v
    return s
def ba_slice(bytearray s, Py_ssize_t a, Py_ssize_t b): return s[a:b]
def ob_get(o, Py_ssize_t i): return o[i]
def ob_get_ll(o, long long i): return o[i]
def ob_get_ull(o, unsigned long long i): return o[i]
def ob_set(o, Py_ssize_t i, v):
    o[i] = v
    return o
def ob_del(o, Py_ssize_t i):
    del o[i]
    return o
def ob_slice(o, Py_ssize_t a, Py_ssize_t b): return o[a:b]
def cp_slice(bytes s, Py_ssize_t a, Py_ssize_t b):
    cdef char* p = s
    return p[a:b] if 0 <= a <= b <= len(s) else None
def by_decode(bytes s, Py_ssize_t a, Py_ssize_t b): return s[a:b].decode('latin-1')
def st_count(str s, str sub, Py_ssize_t a, Py_ssize_t b): return s.count(sub, a, b)
def st_find(str s, str sub, Py_ssize_t a, Py_ssize_t b): return s.find(sub, a, b)
def st_sw(str s, str p, Py_ssize_t a, Py_ssize_t b): return s.startswith(p, a, b)
def st_ew(str s, p, Py_ssize_t a, Py_ssize_t b): return s.endswith(p, a, b)
def li_pop(list l, Py_ssize_t i): return l.pop(i), l
def li_pop_o(list l, i): return l.pop(i), l
def li_insert(list l, Py_ssize_t i, v):
    l.insert(i, v)
    return l
def st_mul(str s, Py_ssize_t n): return s * n if -5 < n < 50 else None
def li_mul(list l, Py_ssize_t n): return l * n if -5 < n < 50 else None
def chr_i(int i): return chr(i)
def chr_ll(long long i): return chr(i)
def ord_o(o): return ord(o)
def ucs4_in(Py_UCS4 c, str s): return c in s
def ucs4_methods(Py_UCS4 c): return c.isalpha(), c.isdigit(), c.lower(), c.upper(), c.isspace()

# ---- shifts / arithmetic on objects with constants
def sh_l63(x): return x << 63
def sh_l1(x): return x << 1
def sh_l32(x): return x << 32
def sh_r63(x): return x >> 63
def sh_r1(x): return x >> 1
def one_shl(x): return (1 << x) if isinstance(x, int) and x < 300 else None
def neg_shl(x): return x << -1
def neg_shr(x): return x >> -1
def mul_c(x): return x * 1073741823
def add_c(x): return x + 1073741824
def sub_c(x): return 1073741824 - x
def fdiv_c(x): return x // -1
def mod_c(x): return x % -7
def div_c(x): return x / 3
def pw2(x): return 2 ** x if isinstance(x, int) and -5 < x < 300 else None
def neg(x): return -x
def inv(x): return ~x
def abs_(x): return abs(x)

# ---- C integer division (Python semantics are the default)
def c_div_int(int a, int b): return a // b
def c_mod_int(int a, int b): return a % b
def c_div_long(long a, long b): return a // b
def c_mod_long(long a, long b): return a % b
def c_div_ll(long long a, long long b): return a // b
def c_divmod_ss(Py_ssize_t a, Py_ssize_t b): return divmod(a, b)
def c_abs_int(int a): return abs(a)
def c_abs_long(long a): return abs(a)
def c_abs_ll(long long a): return abs(a)
def c_neg_long(long a): return -(<object>a)

# ---- conversions
def to_char(signed char x): return x
def to_uchar(unsigned char x): return x
def to_short(short x): return x
def to_ushort(unsigned short x): return x
def to_int(int x): return x
def to_uint(unsigned int x): return x
def to_long(long x): return x
def to_ulong(unsigned long x): return x
def to_ll(long long x): return x
def to_ull(unsigned long long x): return x
def to_ss(Py_ssize_t x): return x
def to_st(size_t x): return x
def to_bint(bint x): return x
def to_double(double x): return x
def to_float(float x): return x
def to_ucs4(Py_UCS4 x): return x
def to_cplx(double complex x): return x
def dbl_to_int(double x):
    return int(x)
def dbl_round(double x): return round(x)
def obj_to_dbl(x): return float(x)
def str_to_dbl(str x): return float(x)
def byt_to_dbl(bytes x): return float(x)
def obj_to_int(x): return int(x)
def str_to_int(str x): return int(x)

# ---- integer power helpers (only fitting results requested by callers)
def ipow_long(long b, unsigned int e): return b ** e
def ipow_int(int b, unsigned int e): return b ** e
def ipow_c39(long b): return b ** 39
def ipow_c19(int b): return b ** 19
def ipow_ull(unsigned long long b, unsigned int e): return b ** e

# ---- formatting of C values
def fmt_ll(long long x): return f"{x}|{x:d}|{x:5}|{x:05}|{x:x}|{x:X}|{x:o}"
def fmt_ull(unsigned long long x): return f"{x}|{x:20}|{x:x}"
def fmt_int(int x): return f"{x}|{x:>12}|{x:012}"
def fmt_dbl(double x): return f"{x}|{x:.3f}|{x:10.2e}|{x!r}"
def fmt_schar(signed char x): return f"{x}|{x:4}"
def str_ll(long long x): return str(x), repr(x), "%d" % x
def fmt_ucs4(Py_UCS4 c): return f"{c}|{c:>3}"

# ---- memoryviews (None / uninitialised / bounds)
def mv_none_len(int[:] m): return m.shape[0]
def mv_get(int[:] m, Py_ssize_t i): return m[i]
def mv_set(int[:] m, Py_ssize_t i, int v):
    m[i] = v
    return m[i]
def mv_slice(int[:] m, Py_ssize_t a, Py_ssize_t b, Py_ssize_t c):
    cdef int[:] s = m[a:b:c]
    return [s[i] for i in range(s.shape[0])]
def mv_uninit(Py_ssize_t i):
    cdef int[:] m
    return m[i]
def mv2_get(int[:, :] m, Py_ssize_t i, Py_ssize_t j): return m[i, j]
def mv_copy(int[:] m):
    cdef int[:] c = m.copy()
    return [c[i] for i in range(c.shape[0])]
def mv_bytes(const unsigned char[:] m, Py_ssize_t i): return m[i]

# ---- unpacking / calls
def unpack2(o):
    a, b = o
    return a, b
def unpack_star(o):
    a, *b, c = o
    return a, b, c
def many_args(*args, **kw): return len(args), len(kw)
def call_many(n):
    return many_args(*list(range(n)), **{'k%d' % i: i for i in range(n)}) if 0 <= n < 600 else None
def recurse(n): return 0 if n <= 0 else 1 + recurse(n - 1)
def dict_iter_mut(dict d, int when):
    out = []
    i = 0
    for k in d:
        out.append(k)
        if i == when:
            d['new%d' % i] = i
        i += 1
    return out
def set_iter_mut(set s, int when):
    out = 0
    i = 0
    for k in s:
        out += 1
        if i == when:
            s.add(1000 + i)
        i += 1
    return out
def list_iter_mut(list l, int when):
    out = []
    i = 0
    for x in l:
        out.append(x)
        if i == when:
            del l[:]
        i += 1
    return out
def join_mut(list l):
    return ','.join(l)
def enum_rev(list l): return [(i, x) for i, x in enumerate(reversed(l))]
'''

IDX = ['0', '1', '-1', '2', '-2', '5', '-5', '6', '-6', '7', '-7', '100', '-100', '2**31-1', '-2**31', '2**31', '2**62',
       '2**63-1', '-2**63']
IDX_OVER = ['2**63', '-2**63-1', '2**64', '10**30', 'None', "'a'", '1.5', 'Idx(1)', 'Idx(2**70)', 'I(1)']
LISTS = ['[]', '[1]', '[1, 2, 3, 4, 5, 6]', 'L([1, 2, 3])']
TUPLES = ['()', '(1,)', '(1, 2, 3, 4, 5, 6)']
STRS = ["''", "'a'", "'abcdef'", "'\\u00e9t\\u00e9'", "'\\u4e2d\\u6587xyz'", "'q\\U0001f600rs'"]
BYTES = ["b''", "b'a'", "b'abcdef'", "b'\\x00\\xff\\x80'"]
INTS = ['0', '1', '-1', '127', '128', '-128', '-129', '255', '256', '32767', '32768', '-32768', '-32769', '65535', '65536',
        '2**31-1', '2**31', '-2**31', '-2**31-1', '2**32-1', '2**32', '2**63-1', '2**63', '-2**63', '-2**63-1', '2**64-1',
        '2**64', '-2**64', '10**40', '-10**40', '2**30', '2**60', '-2**60', '2**15', '2**45']
NONINT = ['None', "'1'", '1.5', '-0.0', 'inf', 'nan', 'True', 'Idx(5)', 'Idx(2**80)', 'IntOnly(5)', 'IdxRaises()', 'IdxBad()',
          'I(7)', 'F(2.0)', '[1]', '1+2j', "b'1'"]


def cases(rng, scale=1):
    C = []

    def add(f, *argsets, t=None):
        import itertools
        for combo in itertools.product(*argsets):
            C.append({'f': f, 'a': '(%s,)' % ', '.join(combo), 't': t or f})

    I = IDX + IDX_OVER
    add('li_get', LISTS, IDX + ['None', '1.5', 'Idx(1)'])
    add('li_get_obj', LISTS, I)
    add('li_set', LISTS, IDX, ['9'])
    add('li_del', LISTS, IDX)
    add('li_slice', LISTS, IDX, IDX[:12])
    add('li_slice_o', LISTS, I, ['None', '2', '-1', '2**63', '-2**64'])
    add('li_slice_set', LISTS, IDX[:12], IDX[:8], ['[7, 8]', '()', "'ab'", 'None', '5'])
    add('tu_get', TUPLES, IDX)
    add('tu_get_int', TUPLES, IDX[:16] + ['2**31', '-2**31-1'])
    add('tu_get_uint', TUPLES, ['0', '1', '5', '6', '2**32-1', '2**32', '-1'])
    add('tu_slice', TUPLES, IDX, IDX[:12])
    add('st_get', STRS, IDX)
    add('st_get_ucs4', STRS, IDX)
    add('st_slice', STRS, IDX, IDX[:14])
    add('st_slice_start', STRS, IDX)
    add('st_slice_stop', STRS, IDX)
    add('by_get', BYTES, IDX)
    add('by_get_c', BYTES, IDX)
    add('by_slice', BYTES, IDX, IDX[:14])
    add('by_decode', BYTES, IDX, IDX[:14])
    add('ba_get', ['bytearray(b"abc")', 'bytearray()'], IDX)
    add('ba_set', ['bytearray(b"abc")', 'bytearray()'], IDX[:12], ['0', '255', '256', '-1', '2**31'])
    add('ba_slice', ['bytearray(b"abcdef")'], IDX, IDX[:12])
    OBJ = LISTS + TUPLES[:2] + STRS[:3] + BYTES[:2] + ['{1: 2}', 'None', 'D({0: 1})', 'LGet([1])', 'Obj(1)', 'range(5)', 'bytearray(b"xy")']
    add('ob_get', OBJ, IDX)
    add('ob_get_ll', OBJ[:6], IDX)
    add('ob_get_ull', OBJ[:6], ['0', '1', '5', '2**63', '2**64-1', '2**64', '-1'])
    add('ob_set', ['[1, 2, 3]', '{1: 2}', '(1, 2)', 'bytearray(b"ab")', 'None', 'Obj(1)'], IDX, ['9'])
    add('ob_del', ['[1, 2, 3]', '{1: 2}', '(1, 2)', 'bytearray(b"ab")', 'None'], IDX)
    add('ob_slice', OBJ, IDX[:14], IDX[:10])
    add('cp_slice', BYTES, IDX[:12], IDX[:12])
    add('st_count', STRS, ["'a'", "''", "'\\u6587'"], IDX[:14], IDX[:10])
    add('st_find', STRS, ["'b'", "''"], IDX[:14], IDX[:10])
    add('st_sw', STRS, ["'a'", "''", "'abcdefg'"], IDX, IDX[:12])
    add('st_ew', STRS, ["'f'", "('a', 'f')", "()", '5'], IDX[:14], IDX[:10])
    add('li_pop', LISTS, IDX)
    add('li_pop_o', LISTS, I)
    add('li_insert', LISTS, IDX, ['9'])
    add('st_mul', STRS[:3], IDX)
    add('li_mul', LISTS[:3], IDX)
    add('chr_i', ['0', '65', '-1', '1114111', '1114112', '55296', '2**31-1', '-2**31', '2**31'])
    add('chr_ll', ['0', '65', '-1', '1114111', '1114112', '2**32', '2**63-1', '-2**63', '2**63'])
    add('ord_o', ["'a'", "''", "'ab'", "b'a'", "b''", "b'ab'", '5', 'None', "'\\U0001f600'", 'bytearray(b"a")', 'S("z")'])
    add('ucs4_in', ["'a'", "'\\u6587'", "'\\U0001f600'", "''", "'ab'", '97', '1114111', '1114112', '-1'], STRS)
    add('ucs4_methods', ["'a'", "'1'", "' '", "'\\u00df'", "'\\U0001f600'", '304', '1114111'])
    add('mul_c', INTS + [e for e in NONINT if e[0] not in "'[b"])
    for f in ('sh_l63', 'sh_l1', 'sh_l32', 'sh_r63', 'sh_r1', 'neg_shl', 'neg_shr', 'add_c', 'sub_c', 'fdiv_c', 'mod_c',
              'div_c', 'neg', 'inv', 'abs_'):
        add(f, INTS + NONINT)
    add('one_shl', ['0', '1', '29', '30', '31', '32', '59', '60', '61', '62', '63', '64', '65', '127', '128', '-1', '-2**63', 'True', '1.5', 'None'])
    add('pw2', ['0', '1', '29', '30', '31', '62', '63', '64', '65', '127', '-1', '-2', 'True', '2.5', 'None'])
    B = ['0', '1', '-1', '2', '-2', '7', '-7', '2**31-1', '-2**31', '-2**31+1', '2**30']
    add('c_div_int', B, B)
    add('c_mod_int', B, B)
    BL = ['0', '1', '-1', '2', '-3', '2**63-1', '-2**63', '-2**63+1', '2**62', '2**31', '-2**31']
    add('c_div_long', BL, BL)
    add('c_mod_long', BL, BL)
    add('c_div_ll', BL, BL)
    add('c_divmod_ss', BL, BL)
    # abs(MIN) does not fit the C type by construction (user-requested C arithmetic): not generated
    add('c_abs_int', [b for b in B if b != '-2**31'])
    add('c_abs_long', [b for b in BL if b != '-2**63'])
    add('c_abs_ll', [b for b in BL if b != '-2**63'])
    add('c_neg_long', BL)
    for f in ('to_char', 'to_uchar', 'to_short', 'to_ushort', 'to_int', 'to_uint', 'to_long', 'to_ulong', 'to_ll', 'to_ull', 'to_ss',
              'to_st', 'to_bint', 'to_double', 'to_float', 'to_ucs4', 'to_cplx', 'obj_to_dbl', 'obj_to_int'):
        add(f, INTS + NONINT + ["'a'", "'ab'", "''"])
    D = ['0.0', '-0.0', '0.5', '-0.5', '1.5', '2.5', '1e18', '9.3e18', '-9.3e18', '1e19', '1e300', 'inf', '-inf', 'nan', '2**63', '2**53+1', '1e-320']
    add('dbl_to_int', D)
    add('dbl_round', D)
    FS = ["'1'", "'1.5'", "' 1e5 '", "'1_000.5'", "'1__0'", "'_1'", "'1_'", "'inf'", "'-Infinity'", "'nan'", "'0x10'", "''", "' '", "'1e'",
          "'1' * 45", "'1.' + '0' * 60", "'\\u0661\\u0662'", "'1\\x00'", "'\\xa0' + '1' * 39", "'\\xa0' + '1' * 2007", "'1e400'", "'+.5'", "'.'",
          "'1' + ' ' * 50", "'\\u2003' * 45 + '7'", "'-' * 41", "'1_' * 25 + '1'", "'٣.١٤'", 'None', '5']
    add('str_to_dbl', FS)
    add('byt_to_dbl', ["b'1'", "b'1.5'", "b' 1e5 '", "b'1_000.5'", "b'1__0'", "b'_1'", "b'inf'", "b'nan'", "b''", "b'1\\x00'", "b'1' * 45",
                       "b'1.' + b'0' * 60", "b'\\xff'", "b'1_' * 25 + b'1'", "b' ' * 45 + b'7'", 'None'])
    add('str_to_int', ["'1'", "' 12 '", "'1_0'", "'1__0'", "'0x10'", "''", "'9' * 30", "'-' + '9' * 100", "'\\u0661'", "'1\\x00'", "'+'", 'None'])
    POW = [('3', '39'), ('2', '62'), ('-2', '63'), ('-3', '39'), ('7', '22'), ('10', '18'), ('0', '0'),
           ('0', '5'), ('1', '2**31'), ('-1', '2**31+1'), ('2', '0'), ('2', '1'), ('2', '2'), ('2', '3'),
           ('3037000499', '2'), ('2097151', '3'), ('55108', '4')]
    for b, e in POW:
        C.append({'f': 'ipow_long', 'a': '(%s, %s,)' % (b, e), 't': 'ipow_long'})
    for b, e in [('3', '19'), ('2', '30'), ('-2', '31'), ('46340', '2'), ('1290', '3'), ('7', '11'), ('0', '0'), ('-1', '2**30+1')]:
        C.append({'f': 'ipow_int', 'a': '(%s, %s,)' % (b, e), 't': 'ipow_int'})
    add('ipow_c39', ['3', '-3', '2', '1', '0', '-1'])
    add('ipow_c19', ['3', '-3', '2', '1', '0', '-1'])
    for b, e in [('3', '40'), ('2', '63'), ('2', '64'), ('4294967295', '2'), ('0', '0'), ('10', '19')]:
        C.append({'f': 'ipow_ull', 'a': '(%s, %s,)' % (b, e), 't': 'ipow_ull'})
    LL = ['0', '1', '-1', '2**63-1', '-2**63', '10**18', '-10**18', '255', '-256', '2**31', '12345']
    add('fmt_ll', LL)
    add('str_ll', LL)
    add('fmt_ull', ['0', '1', '2**64-1', '2**63', '10**19'])
    add('fmt_int', ['0', '-1', '2**31-1', '-2**31', '12345'])
    add('fmt_dbl', D)
    add('fmt_schar', ['0', '-128', '127', '-1'])
    add('fmt_ucs4', ["'a'", "'\\U0001f600'", "'\\u00e9'"])
    ARR = ["array.array('i', [1, 2, 3, 4, 5])", "array.array('i')", "numpy.arange(6, dtype='i')[::2]", "numpy.arange(6, dtype='i')[::-1]"]
    add('mv_none_len', ['None'] + ARR)
    add('mv_get', ['None'] + ARR, IDX[:14])
    add('mv_set', ARR, IDX[:12], ['7'])
    add('mv_slice', ARR, IDX[:10] , IDX[:10], ['1', '-1', '2', '-3', '0', '2**62', '-2**63'])
    add('mv_uninit', ['0', '1', '-1'])
    add('mv2_get', ["numpy.arange(6, dtype='i').reshape(2, 3)", "numpy.arange(6, dtype='i').reshape(2, 3).T", 'None'], IDX[:10], IDX[:10])
    add('mv_copy', ARR)
    add('mv_bytes', ["b'abc'", "bytearray(b'xy')", "b''", 'None', "memoryview(b'abcd')[::2]"], IDX[:12])
    U = ['()', '(1,)', '(1, 2)', '(1, 2, 3)', '[1, 2]', "'ab'", "'a'", 'None', '5', '{1: 2, 3: 4}', 'gen_list(2)', 'gen_list(3)', 'IterRaises(1)',
         'IterRaises(2)', 'L([1, 2])', 'T((1, 2))', 'range(2)', "b'ab'"]
    add('unpack2', U)
    add('unpack_star', U)
    add('call_many', ['0', '1', '5', '254', '255', '256', '300', '500'])
    add('recurse', ['0', '10', '300', '5000'])
    add('dict_iter_mut', ["{'a': 1, 'b': 2, 'c': 3}", '{}', "D({'x': 1, 'y': 2})"], ['0', '1', '2', '99'])
    add('set_iter_mut', ['{1, 2, 3}', 'set()', 'St({1, 2})'], ['0', '1', '2', '99'])
    add('list_iter_mut', ['[1, 2, 3, 4]', '[]'], ['0', '1', '3', '99'])
    add('join_mut', ["['a', 'b']", "['a', 5]", "[]", "['a', S('b')]", "['\\u4e2d', 'a', '\\U0001f600']", 'None'])
    add('enum_rev', LISTS)
    return C


SETUP = 'import array\nimport numpy\n'
