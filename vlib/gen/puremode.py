"""C38 workload generator: pure-Python-mode modules (`import cython`) whose typed variables provably stay inside
their declared C ranges.  Every expression node carries (C type by the usual arithmetic conversions, interval); a
node whose interval leaves the range of its C type is never emitted, and every variable has a fixed working range
that every assignment respects (so the invariant holds on all control-flow paths and loop iterations)."""
import math

INT_RANGES = {
    'short': (-2 ** 15, 2 ** 15 - 1), 'int': (-2 ** 31, 2 ** 31 - 1), 'long': (-2 ** 63, 2 ** 63 - 1),
    'longlong': (-2 ** 63, 2 ** 63 - 1), 'uint': (0, 2 ** 32 - 1), 'ulonglong': (0, 2 ** 64 - 1),
}
RANK = {'short': 1, 'int': 2, 'uint': 2, 'long': 3, 'longlong': 4, 'ulonglong': 4}
CY = {'short': 'cython.short', 'int': 'cython.int', 'long': 'cython.long', 'longlong': 'cython.longlong',
      'uint': 'cython.uint', 'ulonglong': 'cython.ulonglong', 'double': 'cython.double', 'bint': 'cython.bint'}
SIGNED = ('short', 'int', 'long', 'longlong')
UNSIGNED = ('uint', 'ulonglong')
DBL_LIMIT = 1e12


class E:
    """expression: text, C type ('double' or an int type), interval"""
    __slots__ = ('t', 'ty', 'lo', 'hi')

    def __init__(self, t, ty, lo, hi):
        self.t, self.ty, self.lo, self.hi = t, ty, lo, hi

    def ok(self):
        if self.ty == 'double':
            return -DBL_LIMIT <= self.lo <= self.hi <= DBL_LIMIT
        r = INT_RANGES[self.ty]
        return r[0] <= self.lo <= self.hi <= r[1]


def promote(a, b):
    """usual arithmetic conversions restricted to the families we generate (never mixed signedness)"""
    if 'double' in (a, b):
        return 'double'
    if a in UNSIGNED or b in UNSIGNED:
        return a if RANK[a] >= RANK[b] and a in UNSIGNED else (b if b in UNSIGNED else a)
    w = a if RANK[a] >= RANK[b] else b
    return 'int' if RANK[w] < 2 else w


class Var:
    def __init__(self, name, ty, lo, hi, nonzero=False):
        self.name, self.ty, self.lo, self.hi, self.nonzero = name, ty, lo, hi, nonzero


class FuncGen:
    def __init__(self, rng, name, helpers, family):
        self.rng = rng
        self.name = name
        self.helpers = helpers          # list of helper descriptors usable in expressions
        self.family = family            # 'signed' | 'unsigned'
        self.vars = {}
        self.features = set()

    # ------------------------------------------------------------------ literals / leaves
    def int_lit(self, lo=-50, hi=50):
        if self.family == 'unsigned':
            lo = max(lo, 0)
        v = self.rng.randint(lo, hi)
        return E(str(v) if v >= 0 else '(%d)' % v, self.lit_type(), v, v)

    def lit_type(self):
        # in the unsigned family literals are modelled as unsigned so that an expression such as (3 - 5), which C
        # would convert to a huge unsigned value when it meets an unsigned operand, is never emitted
        return 'uint' if self.family == 'unsigned' else 'int'

    def dbl_lit(self):
        v = self.rng.choice([0.5, 1.5, 2.0, -0.25, 3.75, 10.0, -7.5, 0.1, 1e-3, 123.456, -2.5e3])
        return E(repr(v) if v >= 0 else '(%r)' % v, 'double', v, v)

    def int_vars(self):
        return [v for v in self.vars.values() if v.ty in INT_RANGES]

    def dbl_vars(self):
        return [v for v in self.vars.values() if v.ty == 'double']

    def leaf_int(self):
        vs = self.int_vars()
        if vs and self.rng.random() < 0.85:
            v = self.rng.choice(vs)
            return E(v.name, v.ty, v.lo, v.hi)
        return self.int_lit()

    def leaf_dbl(self):
        vs = self.dbl_vars()
        if vs and self.rng.random() < 0.7:
            v = self.rng.choice(vs)
            return E(v.name, 'double', v.lo, v.hi)
        return self.dbl_lit()

    def nonzero_int(self, depth):
        """an int expression whose interval excludes 0"""
        r = self.rng.random()
        cands = [v for v in self.int_vars() if v.lo > 0 or v.hi < 0]
        if cands and r < 0.4:
            v = self.rng.choice(cands)
            return E(v.name, v.ty, v.lo, v.hi)
        if r < 0.75 or depth <= 0:
            v = self.rng.choice([1, 2, 3, 5, 7, 10, 16, 100, 255, 1000] + ([] if self.family == 'unsigned'
                                                                          else [-1, -2, -3, -7, -10, -128]))
            return E(str(v) if v > 0 else '(%d)' % v, self.lit_type(), v, v)
        e = self.int_expr(depth - 1)
        if self.family == 'unsigned':
            c = E('(%s + 1)' % e.t, promote(e.ty, 'int'), e.lo + 1, e.hi + 1)
        else:
            c = E('(%s * 2 + 1)' % e.t, promote(e.ty, 'int'), e.lo * 2 + 1, e.hi * 2 + 1)
            if e.lo * 2 + 1 <= 0 <= e.hi * 2 + 1:
                pass    # odd numbers are never 0; interval is only an envelope
        return c if c.ok() else E('3', self.lit_type(), 3, 3)

    # ------------------------------------------------------------------ integer expressions
    def int_expr(self, depth):
        for _ in range(8):
            e = self._int_expr(depth)
            if e is not None and e.ok():
                return e
        return self.leaf_int()

    def _int_expr(self, depth):
        rng = self.rng
        if depth <= 0:
            return self.leaf_int()
        op = rng.choice(['+', '-', '*', '//', '%', 'cdiv', 'cmod', '&', '|', '^', '<<', '>>', 'neg', 'cond', 'cast',
                         'call', 'leaf', '+', '-', '*', 'cdiv', 'cmod', 'castint'])
        a = self.int_expr(depth - 1)
        if op == 'leaf':
            return a
        if op in ('+', '-', '*'):
            b = self.int_expr(depth - 1)
            ty = promote(a.ty, b.ty)
            if op == '+':
                lo, hi = a.lo + b.lo, a.hi + b.hi
            elif op == '-':
                lo, hi = a.lo - b.hi, a.hi - b.lo
            else:
                ps = [a.lo * b.lo, a.lo * b.hi, a.hi * b.lo, a.hi * b.hi]
                lo, hi = min(ps), max(ps)
            self.features.add('arith')
            return E('(%s %s %s)' % (a.t, op, b.t), ty, lo, hi)
        if op in ('//', '%', 'cdiv', 'cmod'):
            b = self.nonzero_int(depth - 1)
            ty = promote(a.ty, b.ty)
            if b.lo <= -1 <= b.hi and a.lo <= INT_RANGES[ty][0]:
                return None         # TYPE_MIN / -1 and TYPE_MIN % -1 are undefined in C: outside the statement
            m = max(abs(a.lo), abs(a.hi))
            bm = max(abs(b.lo), abs(b.hi))
            if self.family == 'unsigned':
                lo, hi = (0, m) if op in ('//', 'cdiv') else (0, bm - 1)
            elif op in ('//',):
                lo, hi = -m - 1, m + 1
            elif op == 'cdiv':
                lo, hi = -m, m
            else:
                lo, hi = -(bm - 1), bm - 1
            # the operands themselves must be representable in the promoted type (they are: a.ok(), b.ok())
            if op in ('//', '%'):
                self.features.add('pydiv')
                return E('(%s %s %s)' % (a.t, op, b.t), ty, lo, hi)
            self.features.add(op)
            return E('cython.%s(%s, %s)' % (op, a.t, b.t), ty, lo, hi)
        if op in ('&', '|', '^'):
            b = self.int_expr(depth - 1)
            ty = promote(a.ty, b.ty)
            m = max(abs(a.lo), abs(a.hi) + 1, abs(b.lo), abs(b.hi) + 1, 1)
            k = m.bit_length()
            lo, hi = (0 if self.family == 'unsigned' else -(1 << k)), (1 << k) - 1
            self.features.add('bitop')
            return E('(%s %s %s)' % (a.t, op, b.t), ty, lo, hi)
        if op in ('<<', '>>'):
            if a.lo < 0:
                return None         # shifts of negative values are not C-portable: not generated
            s = rng.randint(1, 6)
            ty = promote(a.ty, 'int')
            self.features.add('shift')
            if op == '<<':
                return E('(%s << %d)' % (a.t, s), ty, a.lo << s, a.hi << s)
            return E('(%s >> %d)' % (a.t, s), ty, a.lo >> s, a.hi >> s)
        if op == 'neg':
            if self.family == 'unsigned':
                return None
            return E('(-%s)' % a.t, promote(a.ty, 'int'), -a.hi, -a.lo)
        if op == 'cond':
            b = self.int_expr(depth - 1)
            c = self.cond(depth - 1)
            self.features.add('condexpr')
            return E('(%s if %s else %s)' % (a.t, c, b.t), promote(a.ty, b.ty), min(a.lo, b.lo), max(a.hi, b.hi))
        if op == 'cast':
            # double -> C int truncation; the double must be well inside the target range
            d = self.dbl_expr(depth - 1)
            tgt = rng.choice(['int', 'long', 'short']) if self.family == 'signed' else 'uint'
            r = INT_RANGES[tgt]
            if self.family == 'unsigned' and d.lo < 0:
                return None
            if not (r[0] + 2 <= d.lo and d.hi <= r[1] - 2):
                return None
            self.features.add('cast_double_to_int')
            return E('cython.cast(%s, %s)' % (CY[tgt], d.t), tgt, math.trunc(d.lo) - 1, math.trunc(d.hi) + 1)
        if op == 'castint':
            tgt = rng.choice(list(SIGNED)) if self.family == 'signed' else rng.choice(list(UNSIGNED))
            r = INT_RANGES[tgt]
            if not (r[0] <= a.lo and a.hi <= r[1]):
                return None
            self.features.add('cast_int_to_int')
            return E('cython.cast(%s, %s)' % (CY[tgt], a.t), tgt, a.lo, a.hi)
        if op == 'call':
            hs = [h for h in self.helpers if h['family'] == self.family and h['ret'] in INT_RANGES]
            if not hs:
                return None
            h = rng.choice(hs)
            args = []
            for (pty, plo, phi) in h['params']:
                x = self.int_expr(depth - 1) if pty != 'double' else self.dbl_expr(depth - 1)
                if not (plo <= x.lo and x.hi <= phi):
                    if pty == 'double':
                        return None
                    m = min(phi, 1000) + 1
                    x = E('(%s %% %d)' % (x.t, m), promote(x.ty, 'int'), 0, m - 1)
                args.append(x.t)
            self.features.add('call_' + h['kind'])
            return E('%s(%s)' % (h['name'], ', '.join(args)), h['ret'], h['lo'], h['hi'])
        return None

    # ------------------------------------------------------------------ double expressions
    def dbl_expr(self, depth):
        for _ in range(8):
            e = self._dbl_expr(depth)
            if e is not None and e.ok():
                return e
        return self.leaf_dbl()

    def _dbl_expr(self, depth):
        rng = self.rng
        if depth <= 0:
            return self.leaf_dbl()
        op = rng.choice(['+', '-', '*', '/', 'idiv', 'cast', 'neg', 'leaf', 'mixed', 'cond'])
        a = self.dbl_expr(depth - 1)
        if op == 'leaf':
            return a
        if op in ('+', '-', '*'):
            b = self.dbl_expr(depth - 1)
            if op == '+':
                lo, hi = a.lo + b.lo, a.hi + b.hi
            elif op == '-':
                lo, hi = a.lo - b.hi, a.hi - b.lo
            else:
                ps = [a.lo * b.lo, a.lo * b.hi, a.hi * b.lo, a.hi * b.hi]
                lo, hi = min(ps), max(ps)
            pad = 1e-6 * max(abs(lo), abs(hi), 1.0)
            self.features.add('dbl_arith')
            return E('(%s %s %s)' % (a.t, op, b.t), 'double', lo - pad, hi + pad)
        if op == '/':
            b = self.dbl_expr(depth - 1)
            # divisor b*b + 1.0 >= 1.0
            m = max(abs(a.lo), abs(a.hi))
            self.features.add('dbl_div')
            return E('(%s / (%s * %s + 1.0))' % (a.t, b.t, b.t), 'double', -m - 1e-6, m + 1e-6)
        if op == 'idiv':
            # true division of two C integers gives a double in both modes (language_level 3)
            x = self.int_expr(depth - 1)
            y = self.nonzero_int(depth - 1)
            if max(abs(x.lo), abs(x.hi), abs(y.lo), abs(y.hi)) >= 2 ** 52:
                return None
            m = max(abs(x.lo), abs(x.hi))
            self.features.add('int_truediv')
            return E('(%s / %s)' % (x.t, y.t), 'double', -float(m) - 1, float(m) + 1)
        if op == 'cast':
            x = self.int_expr(depth - 1)
            if max(abs(x.lo), abs(x.hi)) >= 2 ** 52:
                return None
            self.features.add('cast_int_to_double')
            return E('cython.cast(cython.double, %s)' % x.t, 'double', float(x.lo), float(x.hi))
        if op == 'mixed':
            x = self.int_expr(depth - 1)
            if max(abs(x.lo), abs(x.hi)) >= 2 ** 52:
                return None
            o = rng.choice(['+', '*', '-'])
            if o == '+':
                lo, hi = a.lo + x.lo, a.hi + x.hi
            elif o == '-':
                lo, hi = a.lo - x.hi, a.hi - x.lo
            else:
                ps = [a.lo * x.lo, a.lo * x.hi, a.hi * x.lo, a.hi * x.hi]
                lo, hi = min(ps), max(ps)
            pad = 1e-6 * max(abs(lo), abs(hi), 1.0)
            self.features.add('mixed_arith')
            return E('(%s %s %s)' % (a.t, o, x.t), 'double', lo - pad, hi + pad)
        if op == 'neg':
            return E('(-%s)' % a.t, 'double', -a.hi, -a.lo)
        if op == 'cond':
            b = self.dbl_expr(depth - 1)
            return E('(%s if %s else %s)' % (a.t, self.cond(depth - 1), b.t), 'double', min(a.lo, b.lo), max(a.hi, b.hi))
        return None

    def cond(self, depth):
        rng = self.rng
        k = rng.random()
        bv = [v for v in self.vars.values() if v.ty == 'bint']
        if bv and k < 0.15:
            return rng.choice(bv).name
        if k < 0.7:
            a, b = self.int_expr(max(depth, 0)), self.int_expr(max(depth - 1, 0))
        else:
            a, b = self.dbl_expr(max(depth, 0)), self.dbl_expr(max(depth - 1, 0))
        c = '(%s %s %s)' % (a.t, rng.choice(['<', '<=', '>', '>=', '==', '!=']), b.t)
        if rng.random() < 0.2 and depth > 0:
            c = '(%s %s %s)' % (c, rng.choice(['and', 'or']), self.cond(depth - 1))
        if rng.random() < 0.1:
            c = '(not %s)' % c
        return c

    # ------------------------------------------------------------------ statements
    def assign(self, v, depth, ind):
        """assignment to variable v that keeps it inside its working range"""
        if v.ty == 'bint':
            return [ind + '%s = %s' % (v.name, self.cond(depth))]
        if v.ty == 'double':
            for _ in range(6):
                e = self.dbl_expr(depth)
                if v.lo <= e.lo and e.hi <= v.hi:
                    return [ind + '%s = %s' % (v.name, e.t)]
            e = self.dbl_lit()
            return [ind + '%s = %s' % (v.name, e.t)]
        e = self.int_expr(depth)
        if not (v.lo <= e.lo and e.hi <= v.hi):
            m = min(v.hi, 99991) + 1 if v.hi < 2 ** 40 else 1000003
            if v.nonzero:
                e = E('(%s %% %d + 1)' % (e.t, m - 1), promote(e.ty, 'int'), 1, m - 1)
            else:
                e = E('(%s %% %d)' % (e.t, m), promote(e.ty, 'int'), 0, m - 1)
            self.features.add('wrap_mod')
        elif v.nonzero:
            return []
        return [ind + '%s = %s' % (v.name, e.t)]

    def block(self, targets, depth, ind, nest):
        rng = self.rng
        out = []
        for _ in range(rng.randint(1, 3)):
            k = rng.random()
            assignable = [v for v in targets if not v.nonzero]
            if not assignable:
                break
            if k < 0.5 or nest <= 0:
                out += self.assign(rng.choice(assignable), depth, ind)
            elif k < 0.7:
                out += [ind + 'if %s:' % self.cond(depth)] + self.block(targets, depth, ind + '    ', nest - 1)
                if rng.random() < 0.6:
                    out += [ind + 'else:'] + self.block(targets, depth, ind + '    ', nest - 1)
                self.features.add('if')
            elif k < 0.9:
                lv = self.loopvar
                if lv is None or lv.name in self.busy:
                    out += self.assign(rng.choice(assignable), depth, ind)
                    continue
                self.busy.add(lv.name)
                form = rng.random()
                if form < 0.5 and self.nvar is not None:
                    hdr = 'for %s in range(%s):' % (lv.name, self.nvar.name)
                elif form < 0.8:
                    a0, a1 = rng.randint(0, 5), rng.randint(5, 12)
                    hdr = 'for %s in range(%d, %d, %d):' % (lv.name, a0, a1, rng.choice([1, 2, 3]))
                else:
                    a1, a0 = rng.randint(0, 5), rng.randint(5, 12)
                    hdr = 'for %s in range(%d, %d, -%d):' % (lv.name, a0, a1, rng.choice([1, 2]))
                out += [ind + hdr] + self.block([t for t in targets if t.name != lv.name], depth, ind + '    ', nest - 1)
                self.busy.discard(lv.name)
                self.features.add('for')
            else:
                cv = self.countvar
                if cv is None or cv.name in self.busy:
                    out += self.assign(rng.choice(assignable), depth, ind)
                    continue
                self.busy.add(cv.name)
                out += [ind + '%s = 0' % cv.name, ind + 'while %s < %d:' % (cv.name, rng.randint(2, 7))]
                out += self.block([t for t in targets if t.name != cv.name], depth, ind + '    ', nest - 1)
                out += [ind + '    %s += 1' % cv.name]
                self.busy.discard(cv.name)
                self.features.add('while')
        return out


ARG_POOLS = {
    # (type, lo, hi): working ranges of arguments; a few are full-width so boundary values are exercised
    'signed': [('int', -1000, 1000), ('int', -2 ** 31, 2 ** 31 - 1), ('long', -10 ** 6, 10 ** 6), ('short', -300, 300),
               ('short', -2 ** 15, 2 ** 15 - 1), ('long', -2 ** 63, 2 ** 63 - 1), ('longlong', -10 ** 9, 10 ** 9),
               ('int', -50, 50), ('int', 0, 10 ** 5)],
    'unsigned': [('uint', 0, 1000), ('uint', 0, 2 ** 32 - 1), ('ulonglong', 0, 10 ** 9), ('ulonglong', 0, 2 ** 64 - 1),
                 ('uint', 0, 65535)],
}
LOCAL_POOLS = {
    'signed': [('int', -10 ** 4, 10 ** 4), ('long', -10 ** 9, 10 ** 9), ('short', -1000, 1000), ('longlong', -10 ** 12, 10 ** 12),
               ('int', -10 ** 5, 10 ** 5)],
    'unsigned': [('uint', 0, 10 ** 5), ('ulonglong', 0, 10 ** 12), ('uint', 0, 1000)],
}


def decl_text(style, v, init):
    if style == 'annot':
        return '%s: %s = %s' % (v.name, CY[v.ty], init)
    if style == 'declare':
        return '%s = cython.declare(%s, %s)' % (v.name, CY[v.ty], init)
    return '%s = %s' % (v.name, init)


def gen_helper(rng, name, family, kind):
    """small typed helper: cfunc / ccall / inline cfunc / cfunc with exceptval that raises for a sentinel argument"""
    g = FuncGen(rng, name, [], family)
    params = []
    for i in range(rng.randint(1, 2)):
        ty, lo, hi = rng.choice([p for p in ARG_POOLS[family] if p[2] <= 10 ** 6])
        v = Var('p%d' % i, ty, lo, hi)
        g.vars[v.name] = v
        params.append(v)
    e = g.int_expr(2)
    rty = 'long' if family == 'signed' else 'ulonglong'
    if INT_RANGES['int'][0] <= e.lo and e.hi <= INT_RANGES['int'][1] and family == 'signed' and rng.random() < 0.6:
        rty = 'int'
    deco = {'cfunc': ['@cython.cfunc'], 'ccall': ['@cython.ccall'], 'inline': ['@cython.cfunc', '@cython.inline'],
            'exceptval': ['@cython.cfunc', '@cython.exceptval(-1, check=True)']}[kind]
    style = rng.choice(['returns', 'arrow'])
    L = list(deco)
    if style == 'returns':
        L.append('@cython.returns(%s)' % CY[rty])
        L.append('@cython.locals(%s)' % ', '.join('%s=%s' % (p.name, CY[p.ty]) for p in params))
        L.append('def %s(%s):' % (name, ', '.join(p.name for p in params)))
    else:
        L.append('def %s(%s) -> %s:' % (name, ', '.join('%s: %s' % (p.name, CY[p.ty]) for p in params), CY[rty]))
    raises = None
    if kind == 'exceptval':
        p = params[0]
        raises = 2
        L.append('    if %s %% 5 == %d:' % (p.name, raises))
        L.append("        raise ValueError('helper')")
    L.append('    return %s' % e.t)
    return {'name': name, 'family': family, 'kind': kind, 'ret': rty, 'lo': e.lo, 'hi': e.hi,
            'params': [(p.ty, p.lo, p.hi) for p in params], 'src': '\n'.join(L) + '\n', 'raises': raises,
            'features': g.features | {'helper_' + kind, 'ret_' + style}}


def gen_function(rng, name, helpers, idx):
    family = 'unsigned' if rng.random() < 0.15 else 'signed'
    g = FuncGen(rng, name, helpers, family)
    style = ['annot', 'locals', 'declare'][idx % 3]
    kind = 'ccall' if idx % 5 == 4 else 'def'
    args = []
    for i in range(rng.randint(1, 3)):
        ty, lo, hi = rng.choice(ARG_POOLS[family])
        args.append(Var('a%d' % i, ty, lo, hi))
    if rng.random() < 0.6:
        args.append(Var('x0', 'double', -1000.0, 1000.0))
    g.nvar = None
    if rng.random() < 0.6:
        g.nvar = Var('n', 'int' if family == 'signed' else 'uint', 0, 12)
        args.append(g.nvar)
    if rng.random() < 0.3:
        args.append(Var('d0', 'int' if family == 'signed' else 'uint', 1, 50, nonzero=True))
    for a in args:
        g.vars[a.name] = a
    locs = []
    for i in range(rng.randint(1, 3)):
        ty, lo, hi = rng.choice(LOCAL_POOLS[family])
        locs.append(Var('v%d' % i, ty, lo, hi))
    if rng.random() < 0.6:
        locs.append(Var('y0', 'double', -1e9, 1e9))
    if rng.random() < 0.3:
        locs.append(Var('b0', 'bint', 0, 1))
    g.loopvar = Var('i', 'int' if family == 'signed' else 'uint', 0, 12)
    g.countvar = Var('c', 'int' if family == 'signed' else 'uint', 0, 8)
    g.busy = set()
    allloc = locs + [g.loopvar, g.countvar]
    body = []
    for v in allloc:
        init = '0.0' if v.ty == 'double' else ('False' if v.ty == 'bint' else '0')
        body.append('    ' + decl_text(style, v, init))
        g.vars[v.name] = v
    body += g.block(locs, 2, '    ', 2)
    rets = [v.name for v in locs] + [g.loopvar.name]
    e = g.int_expr(2) if rng.random() < 0.7 else g.dbl_expr(2)
    body.append('    return (%s, %s)' % (', '.join(rets), e.t))
    hdr = []
    if kind == 'ccall':
        hdr.append('@cython.ccall')
    if style == 'locals':
        hdr.append('@cython.locals(%s)' % ', '.join('%s=%s' % (v.name, CY[v.ty]) for v in args + allloc))
        hdr.append('def %s(%s):' % (name, ', '.join(a.name for a in args)))
    else:
        hdr.append('def %s(%s):' % (name, ', '.join('%s: %s' % (a.name, CY[a.ty]) for a in args)))
    g.features |= {'style_' + style, 'kind_' + kind, 'family_' + family}
    return {'name': name, 'src': '\n'.join(hdr + body) + '\n', 'args': [(a.name, a.ty, a.lo, a.hi) for a in args],
            'features': sorted(g.features), 'family': family}


CCLASS = '''
@cython.cclass
class Acc:
    total: cython.long
    scale: cython.double
    count: cython.int

    def __init__(self, scale: cython.double):
        self.total = 0
        self.scale = scale
        self.count = 0

    @cython.cfunc
    def add(self, v: cython.int) -> cython.long:
        self.total = (self.total * 31 + v) % 1000003
        self.count += 1
        return self.total

    @cython.ccall
    def scaled(self) -> cython.double:
        return self.total * self.scale

    def run(self, n: cython.int, step: cython.int):
        i: cython.int
        last: cython.long = 0
        for i in range(n):
            last = self.add(cython.cdiv(i * step, 3))
        return (last, self.count, self.scaled(), cython.cmod(self.total, 7))


def use_acc(n: cython.int, step: cython.int, scale: cython.double):
    a: Acc = Acc(scale)
    r = a.run(n, step)
    return (r, a.total, a.count)


def is_compiled():
    return cython.compiled
'''


def input_values(rng, ty, lo, hi, nrandom):
    if ty == 'double':
        vals = [lo, hi, 0.0, -0.0, 1.0, -1.5, 0.1, 123.456, 1e-9]
        vals = [v for v in vals if lo <= v <= hi]
        vals += [rng.uniform(lo, hi) for _ in range(nrandom)]
        return [repr(float(v)) for v in vals]
    vals = {lo, hi, lo + 1, hi - 1, 0, 1, -1, 2, -2, 7, (lo + hi) // 2}
    vals = [v for v in vals if lo <= v <= hi]
    vals += [rng.randint(lo, hi) for _ in range(nrandom)]
    return [repr(v) for v in vals]


def gen_module(rng, nfuncs, name_prefix='p'):
    """returns (source text, [function descriptors], [helper descriptors])"""
    helpers = []
    kinds = ['cfunc', 'ccall', 'inline', 'exceptval', 'cfunc', 'ccall']
    for i, k in enumerate(kinds):
        for fam in ('signed', 'unsigned') if i < 2 else ('signed',):
            helpers.append(gen_helper(rng, 'h%s%d%s' % (name_prefix, i, fam[0]), fam, k))
    funcs = [gen_function(rng, 'f%s%d' % (name_prefix, i), [h for h in helpers if h['kind'] != 'exceptval' or True], i)
             for i in range(nfuncs)]
    src = '# cython: language_level=3\nimport cython\n\n' + '\n'.join(h['src'] for h in helpers) + '\n' + \
        '\n'.join(f['src'] for f in funcs) + CCLASS
    return src, funcs, helpers
