"""Generator of string / bytes literal source texts (C10).  Every literal is built from pieces that each carry one
*feature* name (escape kind, code point class, ...), so that a discrepancy can be keyed by the features of the literal.
Only forms CPython accepts are produced (the caller still re-checks with ast.literal_eval)."""
import ast
import re
import warnings

SIMPLE_ESC = ['\\n', '\\\\', "\\'", '\\"', '\\a', '\\b', '\\f', '\\r', '\\t', '\\v']
UNKNOWN_ESC = ['\\d', '\\ ', '\\%', '\\8', '\\9', '\\z', '\\.', '\\(', '\\A', '\\X', '\\o', '\\c', '\\e', '\\-']
NAMES = ['LATIN SMALL LETTER A', 'latin small letter e with acute', 'GREEK SMALL LETTER ALPHA', 'EURO SIGN',
         'GRINNING FACE', 'NULL', 'LINE FEED', 'LF', 'NO-BREAK SPACE', 'CJK UNIFIED IDEOGRAPH-4E2D', 'SNOWMAN',
         'HANGUL SYLLABLE GA', 'BYTE ORDER MARK', 'LATIN CAPITAL LETTER A WITH GRAVE', 'DELETE', 'QUOTATION MARK',
         'APOSTROPHE', 'REVERSE SOLIDUS', 'MUSICAL SYMBOL G CLEF', 'TAG LATIN SMALL LETTER A']
LATIN1 = 'éÿ¡ß×÷\xa0\xad'
BMP = '€Āя中 ﻿￿�Ā߿ࠀ'
ASTRAL = '\U0001F600\U00010000\U0010FFFF\U0001D11E\U000E0061'
ASCII_RUN = 'abcxyzABC019 _-+=/.,:;!?#$&*()[]{}<>|~^`@'

# forms the tree under observation rejects outright (decided by the check with a pre-flight translation; such
# rejections are C43's matter): 'octal-over-377' (in unprefixed str / bytes literals), 'name-with-digit'
EXCLUDE = set()


def piece(rng, kind, raw, triple, quote, allow_nonascii, encoding):
    """(source fragment, feature)"""
    r = rng.random()
    if r < 0.30:
        n = rng.choice([1, 1, 2, 3, 5, 8])
        return ''.join(rng.choice(ASCII_RUN) for _ in range(n)), 'ascii'
    if r < 0.36:
        return rng.choice(['%', '%s', '%%', '{', '}', '{0}', '{{', '$', '\t']), 'ascii-special'
    if r < 0.40:
        other = '"' if quote == "'" else "'"
        return other, 'other-quote'
    if r < 0.43 and triple:
        return rng.choice(['\n', quote, quote * 2 + 'x', '\n\n', ' \n']), 'triple-body'
    if r < 0.50 and allow_nonascii and kind == 'str':
        pool = LATIN1 if encoding == 'latin-1' else rng.choice([LATIN1, BMP, ASTRAL])
        ch = rng.choice(pool)
        return ch, 'literal-' + ('latin1' if ord(ch) < 256 else 'bmp' if ord(ch) < 0x10000 else 'astral')
    if r < 0.58:
        return rng.choice(SIMPLE_ESC), 'esc-simple' if not raw else 'raw-backslash'
    if r < 0.66:
        v = rng.choice([0, 0, 1, 7, 8, 10, 0o12, 0o101, 0o177, 0o200, 0o377, 0o400, 0o777, 0o47, 0o42, 0o134])
        form = rng.choice(['%o', '%o', '%03o']) % v
        nxt = rng.choice(['', '', '8', '1', 'a'])
        if len(form) < 3 and nxt and nxt in '01234567':
            nxt = '9'
        return '\\' + form + nxt, ('esc-octal' if v < 0o400 else 'esc-octal-over-377') + ('-nul' if v == 0 else '')
    if r < 0.74:
        v = rng.choice([0, 0x0a, 0x22, 0x27, 0x5c, 0x41, 0x7f, 0x80, 0xa0, 0xe9, 0xff, rng.randrange(256)])
        h = rng.choice(['%02x', '%02X']) % v
        return '\\x' + h + rng.choice(['', '', 'f', '0', 'g']), 'esc-hex' + ('-nul' if v == 0 else '-high' if v > 127 else '')
    if r < 0.79:
        names = [n for n in NAMES if not any(c.isdigit() for c in n)] if 'name-with-digit' in EXCLUDE else NAMES
        nm = rng.choice(names)
        f = 'esc-name' + ('-with-digit' if any(c.isdigit() for c in nm) else '')
        return '\\N{%s}' % nm, f if kind == 'str' and not raw else 'backslash-N-not-escape'
    if r < 0.87:
        v = rng.choice([0, 0x41, 0xe9, 0xff, 0x100, 0x7ff, 0x800, 0x20ac, 0xd7ff, 0xd800, 0xdbff, 0xdc00, 0xdfff, 0xe000,
                        0xfeff, 0xfffe, 0xffff, rng.randrange(0x10000)])
        f = 'esc-u4' + ('-surrogate' if 0xd800 <= v <= 0xdfff else '-nul' if v == 0 else '')
        return '\\u%04x' % v + rng.choice(['', '', '0', 'f']), f if kind == 'str' and not raw else 'backslash-u-not-escape'
    if r < 0.93:
        v = rng.choice([0, 0x41, 0xffff, 0x10000, 0x1f600, 0x10ffff, 0xd800, 0xdfff, rng.randrange(0x110000)])
        f = 'esc-U8' + ('-surrogate' if 0xd800 <= v <= 0xdfff else '-astral' if v > 0xffff else '-nul' if v == 0 else '')
        return '\\U%08x' % v + rng.choice(['', '', '0']), f if kind == 'str' and not raw else 'backslash-U-not-escape'
    if r < 0.96:
        return '\\\n', 'line-continuation' if not raw else 'raw-backslash-newline'
    return rng.choice(UNKNOWN_ESC), 'esc-unknown' if not raw else 'raw-backslash'


def one_literal(rng, kind, encoding='utf-8', npieces=None, allow_nonascii=True):
    """a single-token literal: (source, features)"""
    raw = rng.random() < 0.2
    if kind == 'bytes':
        prefix = rng.choice(['br', 'rb', 'Rb', 'bR', 'BR', 'rB']) if raw else rng.choice(['b', 'B'])
    else:
        prefix = rng.choice(['r', 'R']) if raw else rng.choice(['', '', '', 'u', 'U'])
    triple = rng.random() < 0.2
    q = rng.choice(["'", '"'])
    quote = q * 3 if triple else q
    feats = {'prefix-' + prefix.lower() if prefix else 'prefix-none', 'triple' if triple else 'single'}
    n = npieces if npieces is not None else rng.choice([0, 1, 1, 2, 2, 3, 4, 6, 10])
    body = ''
    for _ in range(n):
        for _try in range(10):
            frag, feat = piece(rng, kind, raw, triple, q, allow_nonascii, encoding)
            if not triple and ('\n' in frag and not frag.startswith('\\')):
                continue
            cand = body + frag
            # an unescaped closing quote must not appear in the body
            if not triple and _has_unescaped(frag, q, raw):
                continue
            if triple and (q * 3 in cand or cand.endswith(q)):
                continue
            if triple and not raw and frag.startswith(q):
                pass
            if feat.startswith('esc-octal-over-377') and 'octal-over-377' in EXCLUDE and prefix.lower() != 'u':
                continue
            if re.search(r'\\[0-7]{1,2}$', body) and frag[:1] in tuple('01234567'):
                continue        # would silently extend the previous octal escape (and change its feature)
            if kind == 'bytes' and re.search(r'\\[uU](0000)?[dD][89a-fA-F]', frag):
                # surrogate-looking \u text in a bytes literal: together with the str literal of the same spelling in one
                # module the compiler of this tree asserts ("this is not a unicode string") - a C43 matter, not drawn
                continue
            body = cand
            feats.add(feat)
            break
    if raw and _odd_trailing_backslashes(body):
        body += 'x'
    if not raw and _odd_trailing_backslashes(body):
        body += '\\'
    if triple and body.endswith(q):
        body += ' '
    return prefix + quote + body + quote, feats


def _odd_trailing_backslashes(s):
    n = 0
    while s.endswith('\\' * (n + 1)):
        n += 1
    return n % 2 == 1


def _has_unescaped(frag, q, raw):
    i = 0
    while i < len(frag):
        if frag[i] == '\\':
            i += 2
            continue
        if frag[i] == q:
            return True
        i += 1
    return False


def long_literal(rng, kind, length, encoding='utf-8'):
    """a literal of about `length` characters: numbered ASCII blocks with escapes / non-ASCII at block boundaries"""
    prefix = 'b' if kind == 'bytes' else ''
    feats = {'long', 'prefix-' + (prefix or 'none'), 'single'}
    parts = []
    total = 0
    i = 0
    specials = ['\\n', '\\x00', '\\\\', "\\'", '\\t', '\\xff', '\\0'] if kind == 'bytes' else \
        ['\\n', '\\x00', '\\\\', "\\'", '\\t', '\\xe9', '\\u20ac', '\\U0001f600', '\\0',
         'é' if True else '', '€' if encoding == 'utf-8' else 'ÿ', '\U0001F600' if encoding == 'utf-8' else '×']
    use_special = rng.random() < 0.7
    while total < length:
        block = 'blk%07d|' % i
        if use_special and i % 97 == 5:
            block += rng.choice(specials)
            feats.add('long-with-specials')
        parts.append(block)
        total += 11
        i += 1
    body = ''.join(parts)
    # trim to the requested length in source characters without cutting an escape
    while len(body) > length and not body[:length].endswith('\\') and '\\' not in body[length - 10:length + 1]:
        body = body[:length]
        break
    return prefix + "'" + body + "'", feats


def concat_literal(rng, kind, encoding='utf-8'):
    n = rng.choice([2, 2, 3, 4])
    toks, feats = [], {'implicit-concat'}
    for _ in range(n):
        t, f = one_literal(rng, kind, encoding, npieces=rng.choice([0, 1, 2, 3]))
        toks.append(t)
        feats |= f
    sep = rng.choice([' ', '  ', ' \\\n    ', ''])
    if sep == '':
        # adjacent tokens without a blank are legal unless the next starts with a prefix letter glued to a quote char
        sep = ' '
    return '(' + sep.join(toks) + ')', feats


# ---------------------------------------------------------------------------------------------- repeat geometry
# Literals whose value contains one substring twice at a chosen byte distance.  The string-table compressors encode the
# second occurrence as a back reference (distance, length); the compact forms of such references have width limits, so
# the workload enumerates gaps (bytes between the end of the first and the start of the second occurrence) and repeat
# lengths at and around every power-of-two / field-width boundary, plus random geometries.  The repeated text starts
# with a trigram (alphabet REP_KEY) that is unique in the module and continues in an alphabet (REP_BODY) that occurs
# nowhere else, the filler uses a third alphabet - so the intended repeat is the only (hence the longest) candidate.
REP_KEY = '!#$&()*+,-./:;<='
REP_BODY = '>?@[]^_{|}~` '
REP_FILL = 'abcdefghijklmnopqrstuvwxyzABCDEFGHIJKLMNOPQRSTUVWXYZ0123456789'
REP_GAP_BOUNDS = [0, 0x80] + [0x80 + (1 << k) for k in range(7, 15)]     # 0, 128, 256, 384(=0x80+0x100), 640, 1152, ...
REP_GAP_BOUNDS_EXTRA = [0x80 + 0x180]           # 2+7 bit field: both high bits set
REP_LEN_BOUNDS = [3, 3 + 32, 3 + 128, 3 + 256]   # minimum, 5 bit field, 7 bit, 8 bit field


def rep_gaps(small, quick=False):
    """gap values at/around the boundaries: small = below 2 000 bytes; quick: -1, 0, +1 around each boundary and of the
    large boundaries only the first and the last (window size)"""
    out = set()
    for b in REP_GAP_BOUNDS + REP_GAP_BOUNDS_EXTRA:
        if quick and 2500 < b < 16000:
            continue
        for d in ((-1, 0, 1) if quick else (-2, -1, 0, 1, 2)):
            if b + d >= 0:
                out.add(b + d)
    return sorted(g for g in out if (g < 2000) == small)


def rep_lengths(rng, quick=False):
    out = {3, 4, 6} if quick else {3, 4, 5, 6}
    for b in REP_LEN_BOUNDS[1:]:
        out.update((b - 1, b) if quick and b == 3 + 128 else (b - 2, b - 1, b, b + 1))
    out.update((rng.randrange(7, 33), rng.randrange(261, 700)))
    if not quick:
        out.update((rng.randrange(37, 130), rng.randrange(133, 257)))
    return sorted(out)


def rep_gap_label(gap):
    b = min(REP_GAP_BOUNDS + REP_GAP_BOUNDS_EXTRA, key=lambda x: (abs(gap - x), x))
    if abs(gap - b) <= 2:
        return 'gap@%d%+d' % (b, gap - b)
    return 'gap-in-' + ('0..127' if gap < 0x80 else '128..639' if gap < 0x280 else '640..16511' if gap < 0x4080
                        else '16512..')


def rep_len_label(n):
    return 'replen-' + ('3..34' if n < 35 else '35..258' if n <= 258 else '259..')


def repeat_literal(rng, kind, gap, rlen, serial, wide=False):
    """(source, features): value = head + R + filler(gap bytes in the string table) + R + tail, len(R) == rlen >= 3"""
    assert rlen >= 3 and 0 <= serial < len(REP_KEY) ** 3
    key = REP_KEY[serial % 16] + REP_KEY[serial // 16 % 16] + REP_KEY[serial // 256]
    rep = key + ''.join(rng.choice(REP_BODY) for _ in range(rlen - 3))
    head = ''.join(rng.choice(REP_FILL) for _ in range(rng.randrange(4, 40)))
    tail = ''.join(rng.choice(REP_FILL) for _ in range(rng.randrange(4, 40)))
    # filler items: (source text, bytes it takes in the string table)
    if kind == 'bytes':
        wides = [('\\x00', 1), ('\\xff', 1), ('\\x80', 1), ('\\n', 1), ('\\\\', 1)]
    else:
        wides = [('é', 2), ('\\xe9', 2), ('€', 3), ('\\u20ac', 3), ('\U0001F600', 4), ('\\U0001f600', 4), ('\\x00', 1),
                 ('\\n', 1), ('\\N{SNOWMAN}', 3)]
    items, left = [], gap
    if wide and gap >= 8:
        for _ in range(rng.randrange(1, 2 + min(gap // 8, 12))):
            w = rng.choice(wides)
            if w[1] <= left - 2:
                items.append(w)
                left -= w[1]
    fill = [(rng.choice(REP_FILL), 1) for _ in range(left)]
    if fill:
        # the characters next to the two occurrences must differ, or the repeat would be one longer (and the gap shorter)
        while fill[-1][0] == head[-1]:
            fill[-1] = (rng.choice(REP_FILL), 1)
        while fill[0][0] == tail[0]:
            fill[0] = (rng.choice(REP_FILL), 1)
    if items:
        mid = fill[1:-1] + items
        rng.shuffle(mid)
        fill = fill[:1] + mid + fill[-1:]
    body = ''.join(s for s, _ in fill)
    feats = {'repeat', rep_gap_label(gap), rep_len_label(rlen), 'prefix-' + ('b' if kind == 'bytes' else 'none'), 'single'}
    if items:
        feats.add('repeat-filler-with-escapes-or-non-ascii')
    return ('b' if kind == 'bytes' else '') + "'" + head + rep + body + rep + tail + "'", feats


def repeat_value_gap(value, rlen_key=3):
    """measured geometry of a generated repeat literal value: (gap in table bytes, repeat length) or None"""
    b = value.encode('utf-8', 'surrogatepass') if isinstance(value, str) else bytes(value)
    keyset = REP_KEY.encode()
    i = next((k for k, c in enumerate(b) if c in keyset), None)
    if i is None:
        return None
    j = b.find(b[i:i + 3], i + 3)
    if j < 0:
        return None
    n = 0
    while j + n < len(b) and i + n < j and b[i + n] == b[j + n]:
        n += 1
    return j - (i + n), n


def evaluate(src):
    """value CPython gives the literal (warnings about unknown escapes are fine), or (False, None)"""
    with warnings.catch_warnings():
        warnings.simplefilter('ignore')
        try:
            return True, ast.literal_eval(src)
        except (SyntaxError, ValueError, MemoryError):
            return False, None


LONG_LENGTHS = [1990, 1999, 2000, 2001, 2010, 4000, 4095, 4096, 16380, 16384, 32766, 32767, 32768, 65530, 65535, 65536,
                65537, 65540, 70000]


def generate(rng, n, encoding='utf-8', long_share=0.02, lengths=None):
    """n literal records {src, kind, feats, value}"""
    out = []
    tries = 0
    while len(out) < n and tries < n * 10:
        tries += 1
        kind = rng.choice(['str', 'str', 'bytes'])
        r = rng.random()
        if r < long_share:
            src, feats = long_literal(rng, kind, rng.choice(lengths or LONG_LENGTHS), encoding)
        elif r < long_share + 0.12:
            src, feats = concat_literal(rng, kind, encoding)
        else:
            src, feats = one_literal(rng, kind, encoding)
        ok, val = evaluate(src)
        if not ok:
            continue
        if encoding == 'latin-1':
            try:
                src.encode('latin-1')
            except UnicodeEncodeError:
                continue
        out.append({'src': src, 'kind': kind, 'feats': sorted(feats), 'value': val})
    return out


# ---------------------------------------------------------------------------------------------- reach: observed stream
def lzss_tokens_of_c(ctext, plain_size):
    """back references actually present in the lzss variant of the string table of a generated C file:
    list of (form, offset, length) or None if the variant is absent / not decodable.  Evidence only (format as
    documented in Cython/LZSS.py and StringTools.c of the pinned tree); never used to raise an alarm."""
    m = re.search(r'/\* compression: lzss \((\d+) bytes\) \*/(.*?)__Pyx_DecompressString_LZSS\(', ctext, re.S)
    if not m or not plain_size:
        return None
    size = int(m.group(1))
    lit = None
    for line in m.group(2).splitlines():
        mm = re.match(r'\s*static const char cstring\[\] = "(.*)";\s*$', line)
        if mm:
            lit = mm.group(1)
    if lit is None:
        return None
    simple = {'n': 10, 'r': 13, 't': 9, 'a': 7, 'b': 8, 'f': 12, 'v': 11, '\\': 92, '"': 34, "'": 39, '?': 63}
    out = bytearray()
    i, n = 0, len(lit)
    while i < n:
        c = lit[i]
        if c == '"' and lit[i:i + 2] == '""':
            i += 2
        elif c == '\\':
            mm = re.compile(r'[0-7]{1,3}').match(lit, i + 1)
            if mm:
                out.append(int(mm.group(0), 8) & 0xFF)
                i = mm.end()
            elif lit[i + 1:i + 2] in simple:
                out.append(simple[lit[i + 1]])
                i += 2
            else:
                return None
        else:
            out.append(ord(c) & 0xFF)
            i += 1
    if len(out) != size:
        return None
    toks = []
    pos = produced = 0
    try:
        while produced < plain_size:
            flags = out[pos] | 0xFF00
            pos += 1
            while flags & 0x100 and produced < plain_size:
                if flags & 1:
                    pos += 1
                    produced += 1
                else:
                    lo, hi = out[pos], out[pos + 1]
                    pos += 2
                    if not lo & 0x80:
                        form, off, ln = '7bit', lo, hi
                    elif not hi & 0x80:
                        form, off, ln = '2+7bit', 0x80 + (((hi << 2) & 0x180) | (lo & 0x7F)), hi & 0x1F
                    else:
                        form, off, ln = '7+7bit', 0x80 + ((hi & 0x7F) << 7 | (lo & 0x7F)), out[pos]
                        pos += 1
                    toks.append((form, off, ln + 3))
                    produced += ln + 3
                flags >>= 1
    except IndexError:
        return None
    return toks
