"""Generator of string / bytes literal source texts (C10).  Every literal is built from pieces that each carry one
*feature* name (escape kind, code point class, ...), so that a discrepancy can be keyed by the features of the literal.
Only forms CPython accepts are produced (the caller still re-checks with ast.literal_eval)."""
import ast
import re
import warnings

SIMPLE_ESC = ['\\n', '\\\\', "\\'", '\\"', '\\a', '\\b', '\\f', '\\r', '\\t', '\\v']
UNKNOWN_ESC = ['\\d', '\\ ', '\\%', '\\8', '\\9', '\\z', '\\.', '\\(', '\\A', '\\X', '\\o', '\\c', '\\e', '\\-']
NAMES = ['LATIN SMALL LETTER A', 'latin small letter e with acute', 'GREEK SMALL LETTER ALPHA', 'EURO SIGN',
         'GRINNING FACE', 'NULL', 'LINE FEED', 'LF', 'NO-BREAK SPACE', 'CJK UNIFIED IDEOGRAPH-4E2D', 'SNOWMAN',
         'HANGUL SYLLABLE GA', 'BYTE ORDER MARK', 'LATIN CAPITAL LETTER A WITH GRAVE', 'DELETE', 'QUOTATION MARK',
         'APOSTROPHE', 'REVERSE SOLIDUS', 'MUSICAL SYMBOL G CLEF', 'TAG LATIN SMALL LETTER A']
LATIN1 = 'éÿ¡ß×÷\xa0\xad'
BMP = '€Āя中 ﻿￿�Ā߿ࠀ'
ASTRAL = '\U0001F600\U00010000\U0010FFFF\U0001D11E\U000E0061'
ASCII_RUN = 'abcxyzABC019 _-+=/.,:;!?#$&*()[]{}<>|~^`@'

# forms the tree under observation rejects outright (decided by the check with a pre-flight translation; such
# rejections are C43's matter): 'octal-over-377' (in unprefixed str / bytes literals), 'name-with-digit'
EXCLUDE = set()


def piece(rng, kind, raw, triple, quote, allow_nonascii, encoding):
    """(source fragment, feature)"""
    r = rng.random()
    if r < 0.30:
        n = rng.choice([1, 1, 2, 3, 5, 8])
        return ''.join(rng.choice(ASCII_RUN) for _ in range(n)), 'ascii'
    if r < 0.36:
        return rng.choice(['%', '%s', '%%', '{', '}', '{0}', '{{', '$', '\t']), 'ascii-special'
    if r < 0.40:
        other = '"' if quote == "'" else "'"
        return other, 'other-quote'
    if r < 0.43 and triple:
        return rng.choice(['\n', quote, quote * 2 + 'x', '\n\n', ' \n']), 'triple-body'
    if r < 0.50 and allow_nonascii and kind == 'str':
        pool = LATIN1 if encoding == 'latin-1' else rng.choice([LATIN1, BMP, ASTRAL])
        ch = rng.choice(pool)
        return ch, 'literal-' + ('latin1' if ord(ch) < 256 else 'bmp' if ord(ch) < 0x10000 else 'astral')
    if r < 0.58:
        return rng.choice(SIMPLE_ESC), 'esc-simple' if not raw else 'raw-backslash'
    if r < 0.66:
        v = rng.choice([0, 0, 1, 7, 8, 10, 0o12, 0o101, 0o177, 0o200, 0o377, 0o400, 0o777, 0o47, 0o42, 0o134])
        form = rng.choice(['%o', '%o', '%03o']) % v
        nxt = rng.choice(['', '', '8', '1', 'a'])
        if len(form) < 3 and nxt and nxt in '01234567':
            nxt = '9'
        return '\\' + form + nxt, ('esc-octal' if v < 0o400 else 'esc-octal-over-377') + ('-nul' if v == 0 else '')
    if r < 0.74:
        v = rng.choice([0, 0x0a, 0x22, 0x27, 0x5c, 0x41, 0x7f, 0x80, 0xa0, 0xe9, 0xff, rng.randrange(256)])
        h = rng.choice(['%02x', '%02X']) % v
        return '\\x' + h + rng.choice(['', '', 'f', '0', 'g']), 'esc-hex' + ('-nul' if v == 0 else '-high' if v > 127 else '')
    if r < 0.79:
        names = [n for n in NAMES if not any(c.isdigit() for c in n)] if 'name-with-digit' in EXCLUDE else NAMES
        nm = rng.choice(names)
        f = 'esc-name' + ('-with-digit' if any(c.isdigit() for c in nm) else '')
        return '\\N{%s}' % nm, f if kind == 'str' and not raw else 'backslash-N-not-escape'
    if r < 0.87:
        v = rng.choice([0, 0x41, 0xe9, 0xff, 0x100, 0x7ff, 0x800, 0x20ac, 0xd7ff, 0xd800, 0xdbff, 0xdc00, 0xdfff, 0xe000,
                        0xfeff, 0xfffe, 0xffff, rng.randrange(0x10000)])
        f = 'esc-u4' + ('-surrogate' if 0xd800 <= v <= 0xdfff else '-nul' if v == 0 else '')
        return '\\u%04x' % v + rng.choice(['', '', '0', 'f']), f if kind == 'str' and not raw else 'backslash-u-not-escape'
    if r < 0.93:
        v = rng.choice([0, 0x41, 0xffff, 0x10000, 0x1f600, 0x10ffff, 0xd800, 0xdfff, rng.randrange(0x110000)])
        f = 'esc-U8' + ('-surrogate' if 0xd800 <= v <= 0xdfff else '-astral' if v > 0xffff else '-nul' if v == 0 else '')
        return '\\U%08x' % v + rng.choice(['', '', '0']), f if kind == 'str' and not raw else 'backslash-U-not-escape'
    if r < 0.96:
        return '\\\n', 'line-continuation' if not raw else 'raw-backslash-newline'
    return rng.choice(UNKNOWN_ESC), 'esc-unknown' if not raw else 'raw-backslash'


def one_literal(rng, kind, encoding='utf-8', npieces=None, allow_nonascii=True):
    """a single-token literal: (source, features)"""
    raw = rng.random() < 0.2
    if kind == 'bytes':
        prefix = rng.choice(['br', 'rb', 'Rb', 'bR', 'BR', 'rB']) if raw else rng.choice(['b', 'B'])
    else:
        prefix = rng.choice(['r', 'R']) if raw else rng.choice(['', '', '', 'u', 'U'])
    triple = rng.random() < 0.2
    q = rng.choice(["'", '"'])
    quote = q * 3 if triple else q
    feats = {'prefix-' + prefix.lower() if prefix else 'prefix-none', 'triple' if triple else 'single'}
    n = npieces if npieces is not None else rng.choice([0, 1, 1, 2, 2, 3, 4, 6, 10])
    body = ''
    for _ in range(n):
        for _try in range(10):
            frag, feat = piece(rng, kind, raw, triple, q, allow_nonascii, encoding)
            if not triple and ('\n' in frag and not frag.startswith('\\')):
                continue
            cand = body + frag
            # an unescaped closing quote must not appear in the body
            if not triple and _has_unescaped(frag, q, raw):
                continue
            if triple and (q * 3 in cand or cand.endswith(q)):
                continue
            if triple and not raw and frag.startswith(q):
                pass
            if feat.startswith('esc-octal-over-377') and 'octal-over-377' in EXCLUDE and prefix.lower() != 'u':
                continue
            if re.search(r'\\[0-7]{1,2}$', body) and frag[:1] in tuple('01234567'):
                continue        # would silently extend the previous octal escape (and change its feature)
            if kind == 'bytes' and re.search(r'\\[uU](0000)?[dD][89a-fA-F]', frag):
                # surrogate-looking \u text in a bytes literal: together with the str literal of the same spelling in one
                # module the compiler of this tree asserts ("this is not a unicode string") - a C43 matter, not drawn
                continue
            body = cand
            feats.add(feat)
            break
    if raw and _odd_trailing_backslashes(body):
        body += 'x'
    if not raw and _odd_trailing_backslashes(body):
        body += '\\'
    if triple and body.endswith(q):
        body += ' '
    return prefix + quote + body + quote, feats


def _odd_trailing_backslashes(s):
    n = 0
    while s.endswith('\\' * (n + 1)):
        n += 1
    return n % 2 == 1


def _has_unescaped(frag, q, raw):
    i = 0
    while i < len(frag):
        if frag[i] == '\\':
            i += 2
            continue
        if frag[i] == q:
            return True
        i += 1
    return False


def long_literal(rng, kind, length, encoding='utf-8'):
    """a literal of about `length` characters: numbered ASCII blocks with escapes / non-ASCII at block boundaries"""
    prefix = 'b' if kind == 'bytes' else ''
    feats = {'long', 'prefix-' + (prefix or 'none'), 'single'}
    parts = []
    total = 0
    i = 0
    specials = ['\\n', '\\x00', '\\\\', "\\'", '\\t', '\\xff', '\\0'] if kind == 'bytes' else \
        ['\\n', '\\x00', '\\\\', "\\'", '\\t', '\\xe9', '\\u20ac', '\\U0001f600', '\\0',
         'é' if True else '', '€' if encoding == 'utf-8' else 'ÿ', '\U0001F600' if encoding == 'utf-8' else '×']
    use_special = rng.random() < 0.7
    while total < length:
        block = 'blk%07d|' % i
        if use_special and i % 97 == 5:
            block += rng.choice(specials)
            feats.add('long-with-specials')
        parts.append(block)
        total += 11
        i += 1
    body = ''.join(parts)
    # trim to the requested length in source characters without cutting an escape
    while len(body) > length and not body[:length].endswith('\\') and '\\' not in body[length - 10:length + 1]:
        body = body[:length]
        break
    return prefix + "'" + body + "'", feats


def concat_literal(rng, kind, encoding='utf-8'):
    n = rng.choice([2, 2, 3, 4])
    toks, feats = [], {'implicit-concat'}
    for _ in range(n):
        t, f = one_literal(rng, kind, encoding, npieces=rng.choice([0, 1, 2, 3]))
        toks.append(t)
        feats |= f
    sep = rng.choice([' ', '  ', ' \\\n    ', ''])
    if sep == '':
        # adjacent tokens without a blank are legal unless the next starts with a prefix letter glued to a quote char
        sep = ' '
    return '(' + sep.join(toks) + ')', feats


def evaluate(src):
    """value CPython gives the literal (warnings about unknown escapes are fine), or (False, None)"""
    with warnings.catch_warnings():
        warnings.simplefilter('ignore')
        try:
            return True, ast.literal_eval(src)
        except (SyntaxError, ValueError, MemoryError):
            return False, None


LONG_LENGTHS = [1990, 1999, 2000, 2001, 2010, 4000, 4095, 4096, 16380, 16384, 32766, 32767, 32768, 65530, 65535, 65536,
                65537, 65540, 70000]


def generate(rng, n, encoding='utf-8', long_share=0.02, lengths=None):
    """n literal records {src, kind, feats, value}"""
    out = []
    tries = 0
    while len(out) < n and tries < n * 10:
        tries += 1
        kind = rng.choice(['str', 'str', 'bytes'])
        r = rng.random()
        if r < long_share:
            src, feats = long_literal(rng, kind, rng.choice(lengths or LONG_LENGTHS), encoding)
        elif r < long_share + 0.12:
            src, feats = concat_literal(rng, kind, encoding)
        else:
            src, feats = one_literal(rng, kind, encoding)
        ok, val = evaluate(src)
        if not ok:
            continue
        if encoding == 'latin-1':
            try:
                src.encode('latin-1')
            except UnicodeEncodeError:
                continue
        out.append({'src': src, 'kind': kind, 'feats': sorted(feats), 'value': val})
    return out
