"""Signatures and call shapes (generator side) for C24 (argument binding).

A signature is a `Sig`; a call shape is a `Shape` (ordered positional segments and keyword segments).
Everything is rendered to *source text*: the function definitions go into the module under test (and the
CPython reference), the call expressions are either evaluated by the differential driver (CPython call
site, compiled callee) or embedded into the module as compiled call sites (compiled call site and callee).
"""

NAMES = ['aa', 'bb', 'cc', 'dd', 'ee', 'ff', 'gg', 'hh', 'ii', 'jj', 'kk', 'll', 'x1', 'y_2', 'zq', 'value',
         'a_rather_long_parameter_name', 'ñu', 'кл', '名字']
ASCII_NAMES = [n for n in NAMES if n.isascii()]
UNKNOWN = ['zz', 'aA', 'unknown_kw', 'ñv']

# default value sources; G0/G1 are module globals of the generated module
DEFAULTS = ['7', '-3', 'None', "'dflt'", '(1, 2)', 'G0', '2.5', '[]', 'G1', 'True']
INT_DEFAULTS = ['7', '-3', '0', '12345']

# helper code made available to the call expressions (driver: `setup`; compiled call sites: module preset)
SETUP = r'''
import functools, operator
from collections.abc import Mapping as _Mapping
partial = functools.partial
opcall = operator.call

def ni(s):
    """a fresh, non-interned str equal to s"""
    r = (s + '.')[:-1]
    assert r is not s
    return r

class SEq(str):
    """str subclass with overridden __eq__/__hash__ (case-insensitive)"""
    def __eq__(self, o):
        return isinstance(o, str) and str.lower(self) == str.lower(o)
    def __ne__(self, o):
        return not self.__eq__(o)
    def __hash__(self):
        return hash(str.lower(self))

class SNe(str):
    """str subclass that never compares equal to anything but itself"""
    def __eq__(self, o):
        return o is self
    def __ne__(self, o):
        return o is not self
    __hash__ = str.__hash__

class MapABC(_Mapping):
    def __init__(self, items): self._d = dict(items)
    def __getitem__(self, k): return self._d[k]
    def __iter__(self): return iter(self._d)
    def __len__(self): return len(self._d)

class KeysOnly:
    """minimal mapping protocol: keys() + __getitem__"""
    def __init__(self, items): self._d = dict(items)
    def keys(self): return list(self._d)
    def __getitem__(self, k): return self._d[k]

class KeysRaises:
    def keys(self): raise ZeroDivisionError('KeysRaises')
    def __getitem__(self, k): return 1

class GetRaises:
    def __init__(self, items): self._d = dict(items)
    def keys(self): return list(self._d)
    def __getitem__(self, k): raise ZeroDivisionError('GetRaises')

class IterFails:
    def __iter__(self): raise ZeroDivisionError('IterFails')

def ident(x):
    return x

def gen(*xs):
    for x in xs:
        yield x

def genfail(*xs):
    for x in xs:
        yield x
    raise ZeroDivisionError('genfail')

class SeqOnly:
    """old-style sequence protocol (no __iter__)"""
    def __init__(self, *xs): self.xs = xs
    def __getitem__(self, i): return self.xs[i]
'''
SETUP_NAMES = ['ident', 'partial', 'opcall', 'ni', 'SEq', 'SNe', 'MapABC', 'KeysOnly', 'KeysRaises', 'GetRaises', 'IterFails',
               'gen', 'genfail', 'SeqOnly', 'S', 'D', 'L', 'T']


class Sig:
    def __init__(self, posonly, plain, star, kwonly, dstar, types=None):
        self.posonly = posonly      # [(name, default or None)]
        self.plain = plain
        self.star = star            # None | '' (bare *) | name
        self.kwonly = kwonly        # [(name, default or None)]
        self.dstar = dstar          # None | name
        self.types = types or {}    # name -> C type text (.pyx variants only)

    # ------------------------------------------------------------------ queries
    def positional(self):
        return self.posonly + self.plain

    def names(self):
        return [n for n, _ in self.posonly + self.plain + self.kwonly]

    def n_required_pos(self):
        return sum(1 for _, d in self.positional() if d is None)

    def takes_only_simple(self):
        return not self.star and not self.dstar and not self.kwonly

    def meth_o_or_noargs(self):
        """the documented always_allow_keywords=False cells: zero arguments, or exactly one argument
        without default (no * / ** / keyword-only)"""
        if self.star or self.dstar or self.kwonly:
            return False
        p = self.positional()
        return len(p) == 0 or (len(p) == 1 and p[0][1] is None)

    def shape_class(self):
        return '%d%d%s%d%s' % (len(self.posonly), len(self.plain), {None: '-', '': 'b'}.get(self.star, 's'),
                                 len(self.kwonly), 'k' if self.dstar else '-')

    # ------------------------------------------------------------------ rendering
    def params(self, typed=False, prefix=()):
        out = list(prefix)

        def one(n, d):
            t = (self.types.get(n, '') + ' ') if typed and self.types.get(n) else ''
            return '%s%s%s' % (t, n, '' if d is None else '=' + d)
        for n, d in self.posonly:
            out.append(one(n, d))
        if self.posonly:
            out.append('/')
        for n, d in self.plain:
            out.append(one(n, d))
        if self.star is not None:
            out.append('*' + self.star)
        for n, d in self.kwonly:
            out.append(one(n, d))
        if self.dstar:
            out.append('**' + self.dstar)
        return ', '.join(out)

    def result_tuple(self, head):
        items = [repr(head)] + self.names()
        if self.star:
            items.append(self.star)
        if self.dstar:
            items.append(self.dstar)
        return '(' + ', '.join(items) + ',)'


def gen_sig(rng, max_each=3, allow_posonly=True, allow_star=True, allow_kwonly=True, allow_dstar=True,
            ascii_only=False, int_defaults=False):
    pool = list(ASCII_NAMES if ascii_only else NAMES)
    rng.shuffle(pool)
    it = iter(pool)
    npo = rng.choice([0, 0, 0, 1, 2, max_each]) if allow_posonly else 0
    npl = rng.choice([0, 1, 1, 2, 2, 3, max_each])
    nkw = rng.choice([0, 0, 1, 2, max_each]) if allow_kwonly else 0
    star = None
    if allow_star and (nkw or rng.random() < .35):
        star = rng.choice(['', 'args', 'args']) if nkw else 'args'
    if not allow_star and nkw:
        star = ''
    dstar = 'kwds' if allow_dstar and rng.random() < .4 else None
    dpool = INT_DEFAULTS if int_defaults else DEFAULTS
    pos = [next(it) for _ in range(npo + npl)]
    ndef = rng.choice([0, 0, 1, 2, len(pos)])
    ndef = min(ndef, len(pos))
    posd = [(n, None if i < len(pos) - ndef else rng.choice(dpool)) for i, n in enumerate(pos)]
    kwo = [(next(it), rng.choice(dpool) if rng.random() < .5 else None) for _ in range(nkw)]
    return Sig(posd[:npo], posd[npo:], star, kwo, dstar)


# ---------------------------------------------------------------------------------- call shapes

STAR_KINDS = ['list', 'tuple', 'gen', 'L', 'T', 'seqonly', 'range0']
BAD_STAR = ['iterfails', 'genfail', 'noniter']
MAP_KINDS = ['dict', 'D', 'mapabc', 'keysonly']
BAD_MAP = ['keysraises', 'getraises', 'nonmap']
KW_KINDS = ['interned', 'runtime', 'S', 'SEq', 'SNe', 'nonstr']


class Shape:
    """pos: list of ('p', src) | ('*', kind, [src...]); kws: list of ('k', name, src) |
    ('**', mapkind, [(namekind, name, src)...]); star_late: emit the first keyword before the last star segment"""

    def __init__(self, pos, kws, intent, star_late=False):
        self.pos, self.kws, self.intent, self.star_late = pos, kws, intent, star_late

    def kwkinds(self):
        s = set()
        for k in self.kws:
            if k[0] == 'k':
                s.add('direct')
            else:
                for nk, _, _ in k[2]:
                    s.add(nk)
                if not k[2]:
                    s.add('empty')
        return s

    def kwkind_label(self):
        s = self.kwkinds()
        if not s:
            return 'nokw'
        for pref in ('nonstr', 'SEq', 'SNe', 'S', 'runtime', 'interned', 'direct', 'empty'):
            if pref in s:
                return pref
        return 'nokw'

    def alias_dup(self):
        """two keyword keys that are different dict keys but match the same parameter: S('x') and SEq('X')
        (S('x') == SEq('X') is False, SEq('X') == S('x') is True)"""
        seen = {}
        for k in self.kws:
            if k[0] == '**':
                for nk, n, _ in k[2]:
                    if nk in ('S', 'SEq'):
                        seen.setdefault(n.lower(), set()).add(nk)
        return any(len(v) == 2 for v in seen.values())

    def literal_dup(self):
        """every keyword segment is a direct keyword or a ** dict display with constant keys (the compiler flattens
        these into one keyword list) and some name occurs twice in that list"""
        names = []
        for k in self.kws:
            if k[0] == 'k':
                names.append(k[1])
            elif k[1] == 'dict' and all(nk in ('interned', 'nonstr') for nk, _, _ in k[2]):
                names += [n for nk, n, _ in k[2] if nk == 'interned']
            else:
                return False
        return len(set(names)) != len(names)

    def same_display_dup(self):
        """a ** dict display with constant keys that repeats a key inside itself: {'a': 1, 'a': 2}"""
        for k in self.kws:
            if k[0] == '**' and k[1] == 'dict' and all(nk in ('interned', 'nonstr') for nk, _, _ in k[2]):
                names = [n for nk, n, _ in k[2] if nk == 'interned']
                if len(set(names)) != len(names):
                    return True
        return False

    def has_keywords(self):
        return any(k[0] == 'k' or k[2] or k[1] in BAD_MAP for k in self.kws)

    def has_star(self):
        return any(p[0] == '*' for p in self.pos)

    def has_dstar(self):
        return any(k[0] == '**' for k in self.kws)

    def all_direct(self):
        return not self.has_star() and not self.has_dstar()

    def callsite_fails_early(self):
        """the call cannot reach the callee when the call site is CPython (or any correct call site):
        bad iterables/mappings, non-str keys, duplicate keywords across segments"""
        seen = set()
        for p in self.pos:
            if p[0] == '*' and p[1] in BAD_STAR:
                return True
        for k in self.kws:
            if k[0] == 'k':
                if k[1] in seen:
                    return True
                seen.add(k[1])
            else:
                if k[1] in BAD_MAP:
                    return True
                for nk, n, _ in k[2]:
                    if nk == 'nonstr':
                        return True
                    key = n.lower() if nk == 'SEq' else n
                    if nk != 'SNe':
                        if key in seen:
                            return True
                        seen.add(key)
        return False

    def render_args(self, lead=()):
        parts = list(lead)
        posparts = []
        for p in self.pos:
            if p[0] == 'p':
                posparts.append(p[1])
            else:
                posparts.append('*' + render_star(p[1], p[2]))
        kwparts = []
        for k in self.kws:
            if k[0] == 'k':
                kwparts.append('%s=%s' % (k[1], k[2]))
            else:
                kwparts.append('**' + render_map(k[1], k[2]))
        if self.star_late and posparts and posparts[-1].startswith('*') and kwparts and '=' in kwparts[0] \
                and not kwparts[0].startswith('**'):
            last = posparts.pop()
            first = kwparts.pop(0)
            return ', '.join(parts + posparts + [first, last] + kwparts)
        return ', '.join(parts + posparts + kwparts)


def render_star(kind, vals):
    v = ', '.join(vals)
    if kind == 'list':
        return '[%s]' % v
    if kind == 'tuple':
        return '(%s%s)' % (v, ',' if vals else '')
    if kind == 'gen':
        return 'gen(%s)' % v
    if kind == 'L':
        return 'L([%s])' % v
    if kind == 'T':
        return 'T((%s%s))' % (v, ',' if vals else '')
    if kind == 'seqonly':
        return 'SeqOnly(%s)' % v
    if kind == 'range0':
        return 'range(0)'
    if kind == 'iterfails':
        return 'IterFails()'
    if kind == 'genfail':
        return 'genfail(%s)' % v
    if kind == 'noniter':
        return '5'
    raise ValueError(kind)


def render_key(namekind, name):
    if namekind == 'interned':
        return repr(name)
    if namekind == 'runtime':
        return 'ni(%r)' % name
    if namekind == 'S':
        return 'S(%r)' % name
    if namekind == 'SEq':
        return 'SEq(%r)' % name.upper()
    if namekind == 'SNe':
        return 'SNe(%r)' % name
    if namekind == 'nonstr':
        return repr(len(name) + 40)
    raise ValueError(namekind)


def render_map(kind, items):
    body = ', '.join('%s: %s' % (render_key(nk, n), v) for nk, n, v in items)
    if kind == 'dict':
        # a dict display with non-constant keys as ** operand crashes the compiler on the unchanged tree
        # (C43-type defect, see notes/C24.md): such displays are passed through an identity function
        if all(nk in ('interned', 'nonstr') for nk, _, _ in items):
            return '{%s}' % body
        return 'ident({%s})' % body
    if kind == 'D':
        return 'D({%s})' % body
    if kind == 'mapabc':
        return 'MapABC({%s})' % body
    if kind == 'keysonly':
        return 'KeysOnly({%s})' % body
    if kind == 'keysraises':
        return 'KeysRaises()'
    if kind == 'getraises':
        return 'GetRaises({%s})' % body
    if kind == 'nonmap':
        return '5'
    raise ValueError(kind)


INTENTS = ['valid', 'valid', 'valid', 'valid', 'valid', 'missing', 'toomany', 'unknown', 'dup-pos-kw', 'posonly-by-kw',
           'dup-in-call', 'nonstr-key', 'bad-star', 'bad-map', 'random']


def gen_shape(rng, sig, intent=None, kwkind=None, valid_only=False, direct_only=False):
    """Build one call shape for `sig`. Values: positional i -> 100+i, keyword for the j-th name -> 200+j."""
    intent = intent or rng.choice(INTENTS)
    if valid_only and intent not in ('valid',):
        intent = 'valid'
    positional = sig.positional()
    names = sig.names()
    npos_params = len(positional)
    nreq = sig.n_required_pos()
    if kwkind is None:
        kwkind = rng.choice(['interned', 'interned', 'runtime', 'runtime', 'S', 'SEq'])

    def kwval(n):
        return str(200 + names.index(n)) if n in names else '299'

    # --- decide positional count and keyword names for a valid call
    lo = len(sig.posonly) if all(d is None for _, d in sig.posonly) else \
        sum(1 for _, d in sig.posonly if d is None)
    npos = rng.randint(lo, npos_params) if npos_params >= lo else 0
    extra_pos = 0
    if sig.star and rng.random() < .5:
        if npos == npos_params or rng.random() < .5:
            npos = npos_params
            extra_pos = rng.randint(1, 3)
    kwnames = []
    for i, (n, d) in enumerate(positional):
        if i < npos:
            continue
        if i < len(sig.posonly):
            continue   # position-only with default, omitted
        if d is None or rng.random() < .5:
            kwnames.append(n)
    for n, d in sig.kwonly:
        if d is None or rng.random() < .5:
            kwnames.append(n)
    if sig.dstar and rng.random() < .6:
        kwnames += rng.sample(UNKNOWN, rng.randint(1, 2))
        if sig.posonly and rng.random() < .4:
            kwnames.append(rng.choice(sig.posonly)[0])     # legal: lands in **kwds
    nposargs = npos + extra_pos

    # --- mutate according to intent
    if intent == 'missing':
        req_kw = [n for n, d in sig.plain[max(0, npos - len(sig.posonly)):] if d is None and n in kwnames] + \
                 [n for n, d in sig.kwonly if d is None]
        if req_kw and rng.random() < .6:
            kwnames.remove(rng.choice(req_kw))
        elif nreq:
            nposargs = rng.randint(0, nreq - 1)
            kwnames = [n for n in kwnames if n not in [p for p, _ in positional]]
        else:
            intent = 'valid'
    elif intent == 'toomany':
        if not sig.star:
            nposargs = npos_params + rng.randint(1, 2)
            kwnames = [n for n in kwnames if n not in [p for p, _ in positional]]
        else:
            intent = 'valid'
    elif intent == 'unknown':
        kwnames.append(rng.choice(UNKNOWN))
        if sig.dstar:
            intent = 'valid'
    elif intent == 'dup-pos-kw':
        cands = [n for i, (n, _) in enumerate(positional) if i < nposargs and i >= len(sig.posonly)]
        if cands:
            kwnames.append(rng.choice(cands))
        else:
            intent = 'valid'
    elif intent == 'posonly-by-kw':
        if sig.posonly:
            i = rng.randrange(len(sig.posonly))
            nposargs = min(nposargs, i)
            kwnames = [n for n in kwnames if n not in [p for p, _ in positional]]
            kwnames += [n for n, d in positional[i:] if d is None or rng.random() < .5]
            if sig.posonly[i][0] not in kwnames:
                kwnames.append(sig.posonly[i][0])
        else:
            intent = 'valid'
    elif intent == 'random':
        nposargs = rng.randint(0, npos_params + 2)
        kwnames = [n for n in names + UNKNOWN[:1] if rng.random() < .4]
    rng.shuffle(kwnames) if rng.random() < .5 else None

    # --- split positionals into direct and starred segments
    vals = [str(100 + i) for i in range(nposargs)]
    pos = []
    use_star = (not direct_only) and rng.random() < .55
    if use_star:
        i = 0
        nseg = rng.choice([1, 1, 2, 3])
        cut = sorted(rng.randint(0, len(vals)) for _ in range(2 * nseg))
        prev = 0
        for s in range(nseg):
            a, b = cut[2 * s], cut[2 * s + 1]
            pos += [('p', v) for v in vals[prev:a]]
            kind = rng.choice(STAR_KINDS)
            if kind == 'range0':
                b = a
            pos.append(('*', kind, vals[a:b]))
            prev = b
        pos += [('p', v) for v in vals[prev:]]
    else:
        pos = [('p', v) for v in vals]
    if intent == 'bad-star' and not direct_only:
        pos.insert(rng.randint(0, len(pos)), ('*', rng.choice(BAD_STAR), vals[:1]))
    elif intent == 'bad-star':
        intent = 'valid'

    # --- split keywords into direct and ** segments
    kws = []
    use_dstar = (not direct_only) and (rng.random() < .6 or kwkind not in ('interned',))
    if use_dstar and kwnames:
        nseg = rng.choice([1, 1, 2])
        segs = [[] for _ in range(nseg)]
        direct = []
        for n in kwnames:
            r = rng.random()
            if r < .3 and kwkind in ('interned', 'runtime'):
                direct.append(n)
            else:
                nk = kwkind if rng.random() < .8 else rng.choice(['interned', 'runtime', 'S'])
                rng.choice(segs).append((nk, n, kwval(n)))
        order = [('k', n, kwval(n)) for n in direct] + [('**', rng.choice(MAP_KINDS), s) for s in segs]
        rng.shuffle(order)
        kws = order
    elif use_dstar and rng.random() < .3:
        kws = [('**', rng.choice(MAP_KINDS), [])]
    else:
        kws = [('k', n, kwval(n)) for n in kwnames]
    if direct_only:
        # direct keywords cannot repeat a name (SyntaxError): drop repeats
        seen = set()
        kws = [k for k in kws if not (k[1] in seen or seen.add(k[1]))]
    else:
        # repeated direct keyword is a SyntaxError; move repeats into a ** mapping
        seen = set()
        out = []
        for k in kws:
            if k[0] == 'k' and k[1] in seen:
                out.append(('**', 'dict', [('interned', k[1], k[2])]))
            else:
                if k[0] == 'k':
                    seen.add(k[1])
                out.append(k)
        kws = out
    if not direct_only:
        if intent == 'dup-in-call':
            allk = [k[1] for k in kws if k[0] == 'k'] + [n for k in kws if k[0] == '**' for _, n, _ in k[2]]
            if allk:
                n = rng.choice(allk)
                kws.insert(rng.randint(0, len(kws)), ('**', rng.choice(MAP_KINDS),
                                                      [(rng.choice(['interned', 'runtime', 'S']), n, '298')]))
            else:
                intent = 'valid'
        elif intent == 'nonstr-key':
            kws.insert(rng.randint(0, len(kws)), ('**', rng.choice(['dict', 'D', 'mapabc']),
                                                  [('nonstr', rng.choice(names or ['zz']), '297')]))
        elif intent == 'bad-map':
            # the failing mapping carries a key no other segment uses: which of two simultaneous faults
            # (duplicate key / failing __getitem__) is reported first is not part of the property
            kws.insert(rng.randint(0, len(kws)), ('**', rng.choice(BAD_MAP), [('interned', 'qq_bad', '296')]))
    elif intent in ('dup-in-call', 'nonstr-key', 'bad-map'):
        intent = 'valid'
    return Shape(pos, kws, intent, star_late=rng.random() < .15)
