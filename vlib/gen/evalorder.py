"""Generator of expressions / assignments whose leaves are logging calls (C20: evaluation order).

Every generated function has the form

    def fz<N>z():
        E = Env(log); r = None; a = E.o('a'); ...
        <1..3 generated statements>
        return r

`Env` comes from vlib/ref/c20h.py (pure Python, shared by the compiled module and the reference).
`Gen.function()` returns (source text, set of construct labels used)."""

OPS = ['+', '-', '*', '|']
AUG = ['+=', '-=', '*=', '|=']


class Gen:
    def __init__(self, rng, max_depth=3, typed=False):
        self.rng = rng
        self.max_depth = max_depth
        self.typed = typed
        self.k = 0
        self.labels = set()
        self.facts = []        # structural facts used by the classifier: ('in', n0, n1, m0, m1), ('starunpack', k0, k1)
        self.no_lambda = False
        self.restricted = 0    # >0 while generating assignment/with/for/del targets: no lambdas with defaults, comprehensions,
                               # generator expressions or walrus there (each crashes the compiler on this tree: C43-type defects)
        self.no_walrus = 0
        self.no_star_display = 0

    # ------------------------------------------------------------------ helpers
    def key(self):
        self.k += 1
        return self.k

    def pick(self, seq):
        return self.rng.choice(seq)

    def lab(self, name):
        self.labels.add(name)

    def small(self):
        return self.rng.randint(0, 3)

    # ------------------------------------------------------------------ leaves
    def v(self, val):
        return 'E.v(%d, %s)' % (self.key(), val)

    def obj(self):
        return 'E.o(%d)' % self.key()

    # ------------------------------------------------------------------ expressions
    def expr(self, kind='any', depth=None):
        d = self.max_depth if depth is None else depth
        return getattr(self, 'e_' + kind)(d)

    def e_int(self, d):
        r = self.rng.random()
        if d <= 0 or r < .35:
            return self.v(str(self.rng.randint(-3, 9)))
        if r < .5:
            return '(%s %s %s)' % (self.e_int(d - 1), self.pick(['+', '-', '*']), self.e_int(d - 1))
        if r < .62:
            self.lab('minmax')
            n = self.rng.randint(2, 4)
            return '%s(%s)' % (self.pick(['min', 'max']), ', '.join(self.e_int(d - 1) for _ in range(n)))
        if r < .7:
            self.lab('builtin-call')
            return self.pick(['abs(%s)', 'int(%s)', 'len(range(abs(%s)))']) % self.e_int(d - 1)
        if r < .8:
            self.lab('condexpr')
            return '(%s if %s else %s)' % (self.e_int(d - 1), self.e_bool(d - 1), self.e_int(d - 1))
        if r < .88:
            self.lab('builtin-call')
            return 'len(%s)' % self.obj()
        if r < .94 and not self.restricted and not self.no_walrus:
            self.lab('walrus')
            return '(w%d := %s)' % (self.rng.randint(0, 1), self.e_int(d - 1))
        self.lab('builtin-call')
        return 'pow(%s, %s, %s)' % (self.e_int(d - 1), self.v('2'), self.v('7'))

    def e_bool(self, d):
        r = self.rng.random()
        if d <= 0 or r < .3:
            return self.v(self.pick(['True', 'False', '0', '1', "''", "'x'", '[]', 'None']))
        if r < .45:
            self.lab('lbool')
            return 'E.b(%d, %s)' % (self.key(), self.pick(['True', 'False']))
        if r < .6:
            self.lab('boolop')
            op = self.pick(['and', 'or'])
            n = self.rng.randint(2, 3)
            return '(%s)' % (' %s ' % op).join(self.e_bool(d - 1) for _ in range(n))
        if r < .7:
            self.lab('not')
            return '(not %s)' % self.e_bool(d - 1)
        if r < .85:
            self.lab('compare')
            n = self.rng.randint(2, 3)
            ops = [self.pick(['<', '<=', '==', '!=', '>', '>=']) for _ in range(n - 1)]
            parts = [self.e_int(d - 1)]
            for o in ops:
                parts += [o, self.e_int(d - 1)]
            return '(%s)' % ' '.join(parts)
        if r < .93:
            self.lab('in-literal')
            k0 = self.k
            needle = self.e_int(d - 1)
            k1 = self.k
            m1, m2 = self.e_int(0), self.e_int(0)
            self.facts.append(('in', k0 + 1, k1, k1 + 1, self.k))
            return '(%s %s (%s, %s, %s))' % (needle, self.pick(['in', 'not in']), m1, m2, self.rng.randint(0, 5))
        self.lab('builtin-call')
        return 'isinstance(%s, %s)' % (self.e_int(d - 1), self.v('int'))

    def e_seq(self, d):
        r = self.rng.random()
        if d <= 0 or r < .5:
            return 'E.seq(%d, %d)' % (self.key(), self.rng.randint(0, 3))
        if r < .75:
            self.lab('display')
            return '[%s]' % ', '.join(self.e_any(d - 1) for _ in range(self.rng.randint(0, 3)))
        self.lab('display')
        items = [self.e_any(d - 1) for _ in range(self.rng.randint(1, 3))]
        return '(%s,)' % ', '.join(items)

    def e_map(self, d, pool=None):
        pool = ['ka', 'kb', 'kc', 'kd'] if pool is None else pool
        names = [pool.pop(self.rng.randrange(len(pool))) for _ in range(min(len(pool), self.rng.randint(0, 2)))]
        if d <= 0 or self.rng.random() < .6:
            return 'E.m(%d, %r)' % (self.key(), tuple(names))
        self.lab('display')
        return '{%s}' % ', '.join('%r: %s' % (n, self.e_any(d - 1)) for n in names)

    def call_args(self, d, allow_unpack=True):
        rng = self.rng
        pos = []
        for _ in range(rng.choice([0, 1, 1, 2, 3])):
            if allow_unpack and rng.random() < .2:
                self.lab('call-star')
                pos.append('*' + self.e_seq(d - 1))
            else:
                pos.append(self.e_any(d - 1))
        kws = []
        names = ['p', 'q', 's', 't']
        rng.shuffle(names)
        mpool = ['ka', 'kb', 'kc', 'kd']        # ** mappings of one call never share a key (fault precedence is out of scope)
        for _ in range(rng.choice([0, 0, 1, 2])):
            if allow_unpack and rng.random() < .25:
                self.lab('call-dstar')
                kws.append('**' + self.e_map(d - 1, mpool))
            else:
                self.lab('call-kw')
                kws.append('%s=%s' % (names.pop(), self.e_any(d - 1)))
        if allow_unpack and pos and kws and pos[-1].startswith('*') and '=' in kws[0] and not kws[0].startswith('**') \
                and rng.random() < .3:
            self.lab('call-kw-before-star')
            last = pos.pop()
            return ', '.join(pos + [kws[0], last] + kws[1:])
        return ', '.join(pos + kws)

    def e_callee(self, d):
        r = self.rng.random()
        if r < .5:
            return 'E.f(%d)' % self.key()
        if r < .8:
            self.lab('method-call')
            return '%s.m_%s' % (self.e_objexpr(d - 1), self.pick('xyz'))
        return self.obj()

    def e_objexpr(self, d):
        """an expression yielding a logging object"""
        r = self.rng.random()
        if d <= 0 or r < .5:
            return self.obj()
        if r < .65:
            self.lab('subscript')
            return '%s[%s]' % (self.e_objexpr(d - 1), self.e_any(d - 1))
        if r < .8:
            self.lab('attribute')
            return '%s.%s' % (self.e_objexpr(d - 1), self.pick(['x', 'y']))
        if r < .9:
            self.lab('call')
            return '%s(%s)' % (self.obj(), self.call_args(d - 1))
        self.lab('binop-obj')
        return '(%s %s %s)' % (self.e_objexpr(d - 1), self.pick(OPS), self.e_any(d - 1))

    def e_any(self, d):
        r = self.rng.random()
        if d <= 0 or r < .22:
            return self.v(self.pick(['1', '2', "'s'", 'None', '2.5', '(1, 2)']))
        if r < .32:
            return self.e_int(d)
        if r < .42:
            self.lab('call')
            return '%s(%s)' % (self.e_callee(d), self.call_args(d))
        if r < .5:
            return self.e_objexpr(d)
        if r < .56:
            self.lab('slice')
            parts = [self.pick(['', self.e_int(d - 1), 'E.i(%d, %d)' % (self.key(), self.small())]) for _ in range(self.rng.choice([2, 3]))]
            return '%s[%s]' % (self.e_objexpr(d - 1), ':'.join(parts))
        if r < .62:
            self.lab('boolop')
            op = self.pick(['and', 'or'])
            return '(%s)' % (' %s ' % op).join(self.pick([self.e_any, self.e_bool])(d - 1) for _ in range(self.rng.randint(2, 3)))
        if r < .67:
            self.lab('condexpr')
            return '(%s if %s else %s)' % (self.e_any(d - 1), self.e_bool(d - 1), self.e_any(d - 1))
        if r < .73:
            self.lab('display')
            k = self.rng.random()
            n = self.rng.randint(1, 3)
            if k < .3:
                items = [('*' + self.e_seq(d - 1)) if self.rng.random() < .25 and not self.no_star_display else self.e_any(d - 1)
                         for _ in range(n)]
                return '[%s]' % ', '.join(items)
            if k < .5:
                return '(%s,)' % ', '.join(self.e_any(d - 1) for _ in range(n))
            if k < .65:
                self.lab('set-display')
                return '{%s}' % ', '.join(self.e_int(d - 1) for _ in range(n))
            self.lab('dict-display')
            items = []
            for _ in range(n):
                if self.rng.random() < .2:
                    items.append('**' + self.e_map(d - 1))
                else:
                    items.append('%s: %s' % (self.e_int(d - 1), self.e_any(d - 1)))
            return '{%s}' % ', '.join(items)
        if r < .79 and self.restricted:
            return self.e_objexpr(d - 1)
        if r < .79:
            self.lab('comprehension')
            k = self.rng.random()
            src = 'E.seq(%d, %d)' % (self.key(), self.rng.randint(0, 2))
            cond = (' if %s' % self.e_bool(d - 1)) if self.rng.random() < .4 else ''
            if k < .4:
                return '[%s for c%d in %s%s]' % (self.e_any(d - 1), d, src, cond)
            if k < .6:
                return '{%s: %s for c%d in %s%s}' % (self.e_int(d - 1), self.e_any(d - 1), d, src, cond)
            if k < .75:
                return '{%s for c%d in %s%s}' % (self.e_int(d - 1), d, src, cond)
            self.lab('genexpr')
            return '%s(%s for c%d in %s%s)' % (self.pick(['list', 'tuple', 'sum', 'any', 'all', 'sorted']), self.e_int(d - 1), d, src, cond)
        if r < .84:
            self.lab('fstring')
            parts = []
            for _ in range(self.rng.randint(1, 3)):
                conv = self.pick(['', '', '!r', '!s'])
                spec = ''
                isobj = self.rng.random() < .6
                operand = self.pick([self.obj(), self.e_objexpr(d - 1)]) if isobj else self.e_int(d - 1)
                if self.rng.random() < .4:
                    spec = ':' + self.pick(['>5', '{%s}' % self.v(self.pick(['4', "'>6'"]))] +
                                           (['x{%s}y' % self.v("'q'")] if isobj and not conv else []))
                parts.append('{%s%s%s}' % (operand, conv, spec))
                if self.rng.random() < .5:
                    parts.append('-')
            return "f'%s'" % ''.join(parts)
        if r < .88:
            self.lab('compare-obj')
            n = self.rng.randint(2, 3)
            parts = [self.obj()]
            for _ in range(n - 1):
                parts += [self.pick(['<', '<=', '==', '!=', '>', '>=', 'in', 'not in', 'is', 'is not']), self.pick([self.obj(), self.e_int(0)])]
            return '(%s)' % ' '.join(parts)
        if r < .92:
            self.lab('builtin-call')
            k = self.rng.random()
            if k < .25:
                return 'getattr(%s, %s, %s)' % (self.obj(), self.v("'x'"), self.e_any(d - 1))
            if k < .45:
                return 'divmod(%s, %s)' % (self.e_int(d - 1), self.v('3'))
            if k < .6:
                return 'isinstance(%s, (%s, %s))' % (self.e_any(d - 1), self.v('int'), self.v('str'))
            if k < .75:
                return 'dict(%s)' % ', '.join('%s=%s' % (n, self.e_any(d - 1)) for n in self.rng.sample(['p', 'q', 's'], 2))
            if k < .9:
                return 'sorted(%s, key=%s, reverse=%s)' % (self.e_seq(0), self.v('None'), self.e_bool(0))
            return 'print(%s, sep=%s, end=%s, file=%s)' % (self.v("'x'"), self.v("''"), self.v("''"), self.v('NullFile'))
        if r < .96:
            self.lab('builtin-method')
            k = self.rng.random()
            if k < .2:
                return '%s.get(%s, %s)' % (self.v("{'a': 1}"), self.v("'a'"), self.e_any(d - 1))
            if k < .4:
                return '%s.join([%s, %s])' % (self.v("'-'"), self.v("'a'"), self.v("'b'"))
            if k < .55:
                return '%s.index(%s, %s)' % (self.v('[1, 2, 3, 1]'), self.v('1'), self.e_int(0))
            if k < .7:
                return '%s.format(%s, k=%s)' % (self.v("'{}{k}'"), self.e_int(d - 1), self.e_int(d - 1))
            if k < .85:
                return '%s.setdefault(%s, %s)' % (self.v('{}'), self.e_int(0), self.e_any(d - 1))
            return '%s.replace(%s, %s, %s)' % (self.v("'abcabc'"), self.v("'b'"), self.v("'X'"), self.e_int(0))
        if self.no_lambda or self.restricted:
            # a lambda with defaults inside an augmented-assignment / with target crashes the compiler (C43-type defect)
            return self.v('3')
        self.lab('lambda-defaults')
        return '(lambda x=%s, *, y=%s: (x, y))(%s)' % (self.e_any(d - 1), self.e_any(d - 1),
                                                       self.pick(['', self.e_any(d - 1), 'y=' + self.e_any(d - 1)]))

    # ------------------------------------------------------------------ targets
    def target(self, d, allow_name=True):
        self.restricted += 1
        try:
            return self._target(d, allow_name)
        finally:
            self.restricted -= 1

    def _target(self, d, allow_name=True):
        r = self.rng.random()
        if allow_name and r < .2:
            return self.pick(['r', 't1', 't2'])
        if r < .55:
            self.lab('target-subscript')
            return '%s[%s]' % (self.e_objexpr(d - 1), self.e_any(d - 1))
        if r < .8:
            self.lab('target-attribute')
            return '%s.%s' % (self.e_objexpr(d - 1), self.pick(['x', 'y']))
        if r < .9:
            self.lab('target-slice')
            return '%s[%s:%s]' % (self.e_objexpr(d - 1), self.e_int(0), self.e_int(0))
        self.lab('target-nested-subscript')
        return '%s[%s][%s]' % (self.obj(), self.e_any(d - 1), self.e_any(d - 1))

    def target_list(self, d, n, star=False):
        ts = []
        si = self.rng.randrange(n) if star else -1
        for i in range(n):
            if self.rng.random() < .15 and d > 0 and not star:
                self.lab('target-nested-tuple')
                ts.append('(%s, %s)' % (self.target(d - 1), self.target(d - 1)))
            else:
                t = self.target(d - 1)
                ts.append(('*' + t) if i == si else t)
        return ts

    # ------------------------------------------------------------------ statements
    def stmt(self, d=None, ind='    '):
        d = self.max_depth if d is None else d
        r = self.rng.random()
        rng = self.rng
        if r < .12:
            self.lab('stmt-expr-assign')
            return [ind + 'r = %s' % self.e_any(d)]
        if r < .24:
            self.lab('stmt-single-assign')
            return [ind + '%s = %s' % (self.target(d, allow_name=False), self.e_any(d - 1))]
        if r < .34:
            self.lab('stmt-cascaded-assign')
            n = rng.randint(2, 3)
            return [ind + ' = '.join([self.target(d - 1) for _ in range(n)] + [self.e_any(d - 1)])]
        if r < .46:
            self.lab('stmt-augassign')
            k = rng.random()
            if k < .2:
                return [ind + 't0 = %s' % self.v('5'), ind + 't0 %s %s' % (self.pick(AUG[:3]), self.e_int(d - 1))]
            self.no_lambda = True
            tgt = self.target(d, allow_name=False)
            self.no_lambda = False
            return [ind + '%s %s %s' % (tgt, self.pick(AUG), self.e_any(d - 1))]
        if r < .58:
            self.lab('stmt-parallel-assign')
            n = rng.randint(2, 3)
            k = rng.random()
            if k < .3:
                # swap idioms
                self.lab('swap')
                j = rng.random()
                if j < .35:
                    i1, i2 = self.e_any(d - 1), self.e_any(d - 1)
                    return [ind + 'a[%s], a[%s] = a[%s], a[%s]' % (i1, i2, self.e_any(d - 1), self.e_any(d - 1))]
                if j < .6:
                    return [ind + 'a.x, a.y = a.y, a.x']
                if j < .8:
                    return [ind + 't1, t2 = %s, %s' % (self.e_any(d - 1), self.e_any(d - 1)), ind + 't1, t2 = t2, t1',
                            ind + 'r = (t1, t2)']
                return [ind + 'a[%s], b.x, t1 = b[%s], a.y, %s' % (self.e_any(d - 1), self.e_any(d - 1), self.e_any(d - 1))]
            ts = self.target_list(d, n)
            self.no_star_display += 1
            rhs = ['E.seq(%d, 2)' % self.key() if t.startswith('(') else self.e_any(d - 1) for t in ts]
            self.no_star_display -= 1
            return [ind + '%s = %s' % (', '.join(ts), ', '.join(rhs))]
        if r < .66:
            self.lab('stmt-unpack')
            n = rng.randint(2, 3)
            star = rng.random() < .4
            if star:
                self.lab('unpack-starred')
            k0 = self.k
            ts = self.target_list(d, n, star=star)
            nvals = n if rng.random() < .8 else n + rng.choice([-1, 1])
            k = rng.random()
            if k < .5:
                src = 'E.seq(%d, %d)' % (self.key(), nvals)
            elif k < .7:
                # a display of the wrong length is rejected at compile time by the compiler (deliberately)
                nvals = n if not star else max(nvals, n)
                self.no_star_display += 1
                src = '[%s]' % ', '.join('E.seq(%d, 2)' % self.key() if (not star and ts[j].startswith('(')) else self.e_any(d - 1)
                                         for j in range(nvals))
                self.no_star_display -= 1
            elif k < .85:
                src = self.v('(%s,)' % ', '.join(str(i) for i in range(nvals)))
            else:
                src = self.v(repr('xyzw'[:nvals]))
            lhs = ', '.join(ts)
            if rng.random() < .2:
                lhs = '[%s]' % lhs
            if star:
                self.facts.append(('starunpack', k0 + 1, self.k))
            return [ind + '%s = %s' % (lhs, src)]
        if r < .71:
            self.lab('stmt-del')
            n = rng.randint(1, 3)
            return [ind + 'del %s' % ', '.join(self.target(d - 1, allow_name=False) for _ in range(n))]
        if r < .77:
            self.lab('stmt-for')
            body = self.stmt(d - 1, ind + '    ') if d > 1 else [ind + '    r = %s' % self.v('1')]
            return [ind + 'for %s in %s:' % (self.target(d - 1), 'E.seq(%d, %d)' % (self.key(), rng.randint(0, 2)))] + body
        if r < .82:
            self.lab('stmt-with')
            n = rng.randint(1, 2)
            items = []
            for _ in range(n):
                if rng.random() < .6:
                    items.append('%s as %s' % (self.e_objexpr(d - 1), self.target(d - 1)))
                else:
                    items.append(self.e_objexpr(d - 1))
            body = self.stmt(d - 1, ind + '    ') if d > 1 else [ind + '    r = %s' % self.v('1')]
            return [ind + 'with %s:' % ', '.join(items)] + body
        if r < .87:
            self.lab('stmt-if')
            return ([ind + 'if %s:' % self.e_bool(d)] + [ind + '    r = %s' % self.e_any(d - 1)] +
                    [ind + 'elif %s:' % self.e_bool(d - 1)] + [ind + '    r = %s' % self.e_any(d - 1)] +
                    [ind + 'else:', ind + '    r = %s' % self.e_any(d - 1)])
        if r < .9:
            self.lab('stmt-assert-raise')
            if rng.random() < .5:
                return [ind + 'try:', ind + '    assert %s, %s' % (self.e_bool(d - 1), self.e_any(d - 1)),
                        ind + 'except AssertionError as ex:', ind + '    r = ex.args']
            return [ind + 'try:', ind + '    raise %s(%s) from %s' % (self.v('ValueError'), self.e_any(d - 1), self.v('None')),
                    ind + 'except ValueError as ex:', ind + '    r = ex.args']
        if r < .95:
            self.lab('stmt-def-decorators')
            n = self.key()
            lines = [ind + "@E.f(%d, 'arg0')" % self.key() for _ in range(rng.randint(1, 2))]
            lines.append(ind + 'def inner%d(p=%s, q=%s, *, s=%s):' % (n, self.e_any(d - 1), self.e_any(d - 1), self.e_any(d - 1)))
            lines.append(ind + '    return (p, q, s)')
            lines.append(ind + 'r = inner%d(%s)' % (n, self.call_args(d - 1, allow_unpack=False) if rng.random() < .5 else ''))
            return lines
        self.lab('stmt-class')
        n = self.key()
        self.no_walrus += 1          # a walrus inside a comprehension in a class body is a SyntaxError
        lines = [ind + 'class C%d(%s, metaclass=%s):' % (n, self.v('object'), self.v('type')),
                 ind + '    x = %s' % self.e_any(d - 1), ind + '    y = %s' % self.e_any(d - 1),
                 ind + 'r = (C%d.x, C%d.y)' % (n, n)]
        self.no_walrus -= 1
        return lines

    # ------------------------------------------------------------------ typed (.pyx) statements
    def typed_stmt(self, ind='    '):
        """statements on C-typed locals / typed containers; `cdef` lines are stripped for the reference"""
        rng = self.rng
        k = rng.random()
        d = self.max_depth
        if k < .15:
            self.lab('typed-cint-aug')
            return [ind + 'ci = %s' % self.v('3'), ind + 'ci %s %s' % (self.pick(['+=', '-=', '*=']), self.e_int(d - 1)),
                    ind + 'r = ci']
        if k < .35:
            self.lab('typed-list-index')
            return [ind + 'cl = %s' % self.v('[10, 11, 12, 13]'),
                    ind + 'cl[%s] %s %s' % (self.e_int(0), self.pick(['=', '+=', '*=']), self.e_int(d - 1)),
                    ind + 'r = (cl, cl[%s], cl[%s:%s])' % (self.e_int(0), self.e_int(0), self.e_int(0))]
        if k < .5:
            self.lab('typed-dict')
            return [ind + 'cd = %s' % self.v('{}'), ind + 'cd[%s] = %s' % (self.e_int(0), self.e_any(d - 1)),
                    ind + 'cd[%s] %s %s' % (self.v('1'), '+=' if rng.random() < .5 else '=', self.e_int(d - 1)),
                    ind + 'r = cd'] if rng.random() < .5 else \
                   [ind + 'cd = %s' % self.v('{1: 5}'), ind + 'cd[%s] += %s' % (self.v('1'), self.e_int(d - 1)), ind + 'r = cd']
        if k < .65:
            if rng.random() < .5:
                # keyword arguments of a direct C call in any order, optionally after a positional prefix
                self.lab('typed-cdef-call-kw')
                names = ['p', 'q', 's'] + (['t'] if rng.random() < .5 else [])
                npos = rng.choice([0, 0, 0, 1, 2])
                pos, names = names[:npos], names[npos:]
                rng.shuffle(names)

                def val(n):
                    return self.e_any(d - 1) if rng.random() < .5 else self.v(repr(n))
                return [ind + 'r = cf4(%s)' % ', '.join([val(n) for n in pos] + ['%s=%s' % (n, val(n)) for n in names])]
            self.lab('typed-cdef-call')
            return [ind + 'r = cf3(%s, %s, %s)' % (self.e_int(d - 1), self.e_any(d - 1), self.v('2.5'))]
        if k < .78:
            self.lab('typed-c-compare')
            return [ind + 'ci = %s' % self.v('3'), ind + 'r = (ci < %s <= %s, %s == ci != %s, ci in (%s, %s, 3))' % (
                self.e_int(0), self.e_int(0), self.e_int(0), self.e_int(0), self.e_int(0), self.e_int(0))]
        if k < .9:
            self.lab('typed-str-bytes')
            return [ind + 'cs = %s' % self.v("'abcdef'"),
                    ind + 'r = (cs[%s], cs[%s:%s], cs.find(%s, %s), cs.startswith(%s, %s))' % (
                        self.e_int(0), self.e_int(0), self.e_int(0), self.v("'c'"), self.e_int(0), self.v("'a'"), self.e_int(0))]
        self.lab('typed-cfloat')
        return [ind + 'cx = %s' % self.v('1.5'), ind + 'cx = cx * %s + %s' % (self.e_int(d - 1), self.e_int(d - 1)),
                ind + 'ci = %s' % self.v('2'), ind + 'r = (cx, ci + %s * %s)' % (self.e_int(d - 1), self.e_int(d - 1))]

    # ------------------------------------------------------------------ a whole function
    def function(self, name):
        self.k = 0
        self.labels = set()
        self.facts = []
        body = []
        nst = self.rng.choice([1, 1, 2, 3])
        for _ in range(nst):
            if self.typed and self.rng.random() < .6:
                body += self.typed_stmt()
            else:
                body += self.stmt()
        head = ['def %s():' % name]
        if self.typed:
            head += ['    cdef int ci', '    cdef list cl', '    cdef dict cd', '    cdef str cs', '    cdef double cx']
        head += ['    E = Env(log)', '    r = t1 = t2 = None', '    w0 = w1 = 0', "    a = E.o('a')", "    b = E.o('b')"]
        return '\n'.join(head + body + ['    return r']) + '\n', set(self.labels), list(self.facts)


PRELUDE = '''# cython: language_level=3
from c20h import Env
log = None
def ident(x):
    return x
class _NullFile:
    def write(self, s):
        pass
NullFile = _NullFile()
'''

TYPED_PRELUDE = '''
cdef object cf3(int p, object q, double s):
    return (p, q, s)
cdef object cf4(object p, object q, object s, object t=None):
    return (p, q, s, t)
'''

TYPED_PRELUDE_REF = '''
def cf3(p, q, s):
    return (int(p), q, float(s))
def cf4(p, q, s, t=None):
    return (p, q, s, t)
'''


def strip_cdef(src):
    """reference text of a typed module: drop the local `cdef` declaration lines"""
    return '\n'.join(l for l in src.split('\n') if not l.strip().startswith('cdef '))
