"""Generator of `match` statements (C31): pattern trees with renderer, bound-name sets and example subjects.

Pattern nodes are tuples:
  ('lit', text, example_expr)          literal pattern
  ('cap', name)                        capture
  ('wild',)                            _
  ('val', dotted_text, example_expr)   value pattern
  ('seq', items, star, brackets)       items: list of nodes; star: None or (index, name or '_')
  ('map', entries, rest)               entries: list of (keytext, keyexample, node); rest: None or name
  ('cls', clsname, pos, kw)            pos: list of nodes, kw: list of (name, node)
  ('or', alts)
  ('as', node, name)
"""

LITERALS = [
    ('0', '0'), ('1', '1'), ('-1', '-1'), ('2', '2'), ('1180591620717411303424', '2**70'),
    ('1.5', '1.5'), ('-2.5', '-2.5'), ('0.0', '0.0'), ('1j', '1j'), ('1+2j', '(1+2j)'), ('-3-4j', '(-3-4j)'), ('2.5-1j', '(2.5-1j)'),
    ("'a'", "'a'"), ("'bc'", "'bc'"), ("''", "''"), ("b'a'", "b'a'"), ("b'xy'", "b'xy'"),
    ('None', 'None'), ('True', 'True'), ('False', 'False'),
]
VALUES = [('Color.RED', 'M.Color.RED'), ('Color.GREEN', 'M.Color.GREEN'), ('K.ONE', '1'), ('K.S', "'a'"), ('K.T', '(1, 2)'),
          ('K.N', 'None'), ('K.F', '1.5'), ('K.B', "b'a'")]
MAPKEYS = [("'a'", "'a'"), ("'b'", "'b'"), ("'c'", "'c'"), ('1', '1'), ('2', '2'), ('None', 'None'), ('True', 'True'),
           ('K.S', "'a'"), ('K.ONE', '1'), ('Color.RED', 'M.Color.RED'), ("b'k'", "b'k'"), ('1.5', '1.5')]
SIMPLE_EXAMPLES = ['0', '1', '7', "'a'", "'zz'", 'None', '1.5', '(1, 2)', '[3]', "{'a': 1}", 'True', "b'q'"]

# classes of the module preamble usable in class patterns: name -> (positional names, keyword attrs, constructor format)
CLASSES = {
    'Point': (['x', 'y'], ['x', 'y']),
    'P3': (['x', 'y', 'z'], ['x', 'y', 'z']),
    'DC': (['a', 'b'], ['a', 'b']),
    'LA': (['x', 'y'], ['x', 'y', 'w']),
    # boundary lengths of __match_args__: exactly one entry (hand-written and dataclass-generated) and the empty tuple
    'One': (['a'], ['a', 'b']),
    'DC1': (['a'], ['a']),
    'Zero': ([], ['a']),
}
BUILTIN_SELF = ['int', 'str', 'float', 'bytes', 'list', 'tuple', 'dict', 'bool', 'set', 'frozenset', 'bytearray']
BUILTIN_EXAMPLE = {'int': '5', 'str': "'s'", 'float': '2.5', 'bytes': "b'z'", 'list': '[1, 2]', 'tuple': '(1, 2)',
                   'dict': "{'a': 1}", 'bool': 'True', 'set': '{1}', 'frozenset': 'frozenset({1})', 'bytearray': "bytearray(b'q')"}

PREAMBLE = '''# cython: language_level=3
import collections
import collections.abc
import dataclasses
import enum

log = None


class Color(enum.Enum):
    RED = 1
    GREEN = 2


class K:
    ONE = 1
    S = 'a'
    T = (1, 2)
    N = None
    F = 1.5
    B = b'a'


class Point:
    __match_args__ = ('x', 'y')

    def __init__(self, x, y):
        self.x = x
        self.y = y


class P3(Point):
    __match_args__ = ('x', 'y', 'z')

    def __init__(self, x, y, z=0):
        Point.__init__(self, x, y)
        self.z = z


@dataclasses.dataclass
class DC:
    a: object
    b: object = 0


class One:
    __match_args__ = ('a',)

    def __init__(self, a, b=0):
        self.a = a
        self.b = b


@dataclasses.dataclass
class DC1:
    a: object


class Zero:
    __match_args__ = ()

    def __init__(self, a=0):
        self.a = a


class LA:
    """attribute access is logged"""
    __match_args__ = ('x', 'y')

    def __init__(self, **kw):
        self.__dict__['_kw'] = kw

    def __getattr__(self, n):
        log(('getattr', n))
        try:
            return self.__dict__['_kw'][n]
        except KeyError:
            raise AttributeError(n)


class LARaise(LA):
    def __getattr__(self, n):
        log(('getattr', n))
        raise ZeroDivisionError(n)


class BadArgs:
    __match_args__ = ['x']
    x = 1


class DupArgs:
    __match_args__ = ('x', 'x')
    x = 1


class StrArgs:
    __match_args__ = 'xy'
    x = 1
    y = 2


class NoArgs:
    x = 1


class EqLog:
    def __init__(self, v):
        self.v = v

    def __eq__(self, o):
        log(('eq', self.v, o if not isinstance(o, enum.Enum) else o.name))
        return self.v == o

    def __hash__(self):
        return hash(self.v)


class EqRaise:
    def __eq__(self, o):
        raise ZeroDivisionError('eq')

    __hash__ = None


class Seq(collections.abc.Sequence):
    def __init__(self, items):
        self.items = list(items)

    def __len__(self):
        return len(self.items)

    def __getitem__(self, i):
        return self.items[i]


class LenRaise(Seq):
    def __len__(self):
        raise ZeroDivisionError('len')


class GetRaise(Seq):
    def __getitem__(self, i):
        raise ZeroDivisionError('getitem')

    def __iter__(self):
        raise ZeroDivisionError('iter')


class RegSeq:
    def __init__(self, items):
        self.items = list(items)

    def __len__(self):
        return len(self.items)

    def __getitem__(self, i):
        return self.items[i]


collections.abc.Sequence.register(RegSeq)


class NotSeq:
    """has __len__/__getitem__ but is no Sequence"""
    def __init__(self, items):
        self.items = list(items)

    def __len__(self):
        return len(self.items)

    def __getitem__(self, i):
        return self.items[i]


class Map(collections.abc.Mapping):
    def __init__(self, d):
        self.d = dict(d)

    def __getitem__(self, k):
        return self.d[k]

    def __iter__(self):
        return iter(self.d)

    def __len__(self):
        return len(self.d)


class MapGetLog(Map):
    def get(self, k, default=None):
        log(('get', k if not isinstance(k, enum.Enum) else k.name))
        return self.d.get(k, default)


class MapGetRaise(Map):
    def get(self, k, default=None):
        raise ZeroDivisionError('get')


class RegMap:
    def __init__(self, d):
        self.d = dict(d)

    def get(self, k, default=None):
        return self.d.get(k, default)

    def keys(self):
        return self.d.keys()

    def __getitem__(self, k):
        return self.d[k]

    def __len__(self):
        return len(self.d)

    def __iter__(self):
        return iter(self.d)


collections.abc.Mapping.register(RegMap)


class DictSub(dict):
    pass


class ListSub(list):
    pass


class TupSub(tuple):
    pass


class StrSub(str):
    pass


class IntSub(int):
    pass


def G(tag, res, *vals):
    log((tag,) + vals)
    return res

'''


class Gen:
    def __init__(self, rng, maxdepth=3):
        self.rng = rng
        self.maxdepth = maxdepth
        self.ncap = 0

    def fresh(self):
        self.ncap += 1
        return 'v%d' % self.ncap

    # ------------------------------------------------------------------ patterns
    def pattern(self, depth=0, allow_capture=True, closed=False):
        """closed=True: no captures at all (for or-alternatives)"""
        r = self.rng
        kinds = ['lit', 'lit', 'val', 'wild']
        if allow_capture and not closed:
            kinds += ['cap', 'cap']
        if depth < self.maxdepth:
            kinds += ['seq', 'seq', 'seq', 'map', 'map', 'cls', 'cls', 'cls', 'or']
            if not closed:
                kinds += ['as']
        k = r.choice(kinds)
        if k == 'lit':
            t, e = r.choice(LITERALS)
            return ('lit', t, e)
        if k == 'val':
            t, e = r.choice(VALUES)
            return ('val', t, e)
        if k == 'wild':
            return ('wild',)
        if k == 'cap':
            return ('cap', self.fresh())
        if k == 'seq':
            n = r.choice([0, 1, 2, 2, 3, 4])
            items = [self.pattern(depth + 1, closed=closed) for _ in range(n)]
            star = None
            if r.random() < 0.45:
                star = (r.randint(0, n), '_' if closed or r.random() < 0.4 else self.fresh())
            return ('seq', items, star, r.choice(['[]', '[]', '()']))
        if k == 'map':
            n = r.choice([0, 1, 1, 2, 3])
            keys = r.sample(MAPKEYS, n)
            # CPython rejects duplicate literal keys at compile time; keys equal by value through value patterns are the
            # run-time ValueError case and are kept
            seen = set()
            entries = []
            for kt, ke in keys:
                if not kt[0].isalpha() or kt in ('None', 'True'):
                    if ke in seen:
                        continue
                    seen.add(ke)
                entries.append((kt, ke, self.pattern(depth + 1, closed=closed)))
            rest = None
            if not closed and r.random() < 0.3:
                rest = self.fresh()
            return ('map', entries, rest)
        if k == 'cls':
            if r.random() < 0.4:
                c = r.choice(BUILTIN_SELF)
                pos = [self.pattern(depth + 1, closed=closed)] if r.random() < 0.6 else []
                if r.random() < 0.05:
                    pos.append(self.pattern(depth + 1, closed=closed))   # too many positionals: TypeError at run time
                return ('cls', c, pos, [])
            c = r.choice(list(CLASSES) + ['BadArgs', 'DupArgs', 'NoArgs', 'StrArgs'] if r.random() < 0.2 else list(CLASSES))
            posnames, kwnames = CLASSES.get(c, (['x', 'y'], ['x']))
            npos = r.choice([0, 0, 1, 2, 2, 3]) if c in CLASSES else r.choice([0, 1, 2])
            npos = min(npos, len(posnames) + (1 if r.random() < 0.1 else 0))
            pos = [self.pattern(depth + 1, closed=closed) for _ in range(npos)]
            kw = []
            avail = [n for n in kwnames if n not in posnames[:npos]] if r.random() < 0.85 else list(kwnames)
            for n in avail:
                if r.random() < 0.4:
                    kw.append((n, self.pattern(depth + 1, closed=closed)))
            return ('cls', c, pos, kw)
        if k == 'or':
            n = r.choice([2, 2, 3])
            if not closed and r.random() < 0.3:
                # alternatives binding the same single name
                nm = self.fresh()
                alts = []
                for _ in range(n):
                    form = r.choice(['seq', 'cls', 'map'])
                    if form == 'seq':
                        items = [('cap', nm)] + [self.pattern(depth + 2, closed=True) for _ in range(r.choice([0, 1, 2]))]
                        r.shuffle(items)
                        alts.append(('seq', items, None, '[]'))
                    elif form == 'cls':
                        alts.append(('cls', 'Point', [], [(r.choice(['x', 'y']), ('cap', nm))]))
                    else:
                        kt, ke = r.choice(MAPKEYS)
                        alts.append(('map', [(kt, ke, ('cap', nm))], None))
                return ('or', alts)
            alts = [self.pattern(depth + 1, closed=True) for _ in range(n)]
            # an irrefutable alternative may only come last
            alts = [a for a in alts[:-1] if a[0] != 'wild'] + [alts[-1]]
            if len(alts) < 2:
                return alts[0]
            return ('or', alts)
        if k == 'as':
            inner = self.pattern(depth + 1, closed=closed)
            if inner[0] == 'cap' or (inner[0] == 'wild' and r.random() < 0.8):
                # `_ as v` is legal but rare (and equivalent to a capture): keep a few
                t, e = r.choice(LITERALS)
                inner = ('lit', t, e) if r.random() < 0.7 else ('wild',)
            return ('as', inner, self.fresh())
        raise AssertionError(k)


def boundary_class_pattern(g, j):
    """stratified class patterns at the edges of the run-time validation (`match_class` in CPython): every class of CLASSES
    (so every length of __match_args__: 0, 1, 2, 3, hand-written, inherited, dataclass, logging) x mode
      0 'dup'      an attribute given by a positional AND by a keyword sub-pattern (TypeError when an instance arrives)
      1 'too-many' one positional sub-pattern more than __match_args__ has entries (TypeError likewise)
      2 'full'     all positionals used, the keywords name only the remaining attributes (valid control)
    j enumerates the cells deterministically; the sub-patterns are random."""
    r = g.rng
    allc = list(CLASSES)
    c = allc[j % len(allc)]
    mode = (j // len(allc)) % 3
    posnames, kwnames = CLASSES[c]
    if mode == 0 and not posnames:
        mode = 1
    if mode == 0:
        npos = r.randint(1, len(posnames))
        dup = r.choice(posnames[:npos])
        kwn = [dup] + [n for n in kwnames if n not in posnames[:npos] and r.random() < 0.4]
        r.shuffle(kwn)
    elif mode == 1:
        npos = len(posnames) + 1
        kwn = [n for n in kwnames if n not in posnames and r.random() < 0.4]
    else:
        npos = len(posnames)
        kwn = [n for n in kwnames if n not in posnames]
    sub = lambda: g.pattern(g.maxdepth - 1) if r.random() < 0.7 else ('cap', g.fresh())
    p = ('cls', c, [sub() for _ in range(npos)], [(n, sub()) for n in kwn])
    if r.random() < 0.3:
        items = [p, ('cap', g.fresh())]
        if r.random() < 0.5:
            items.reverse()
        p = ('seq', items, None, '[]')
    return p, '%s/args%d/%s' % (c, len(posnames), ('dup', 'too-many', 'full')[mode])


def render(p):
    k = p[0]
    if k in ('lit', 'val'):
        return p[1]
    if k == 'cap':
        return p[1]
    if k == 'wild':
        return '_'
    if k == 'seq':
        parts = [render(x) for x in p[1]]
        if p[2] is not None:
            parts.insert(p[2][0], '*' + p[2][1])
        if p[3] == '[]':
            return '[%s]' % ', '.join(parts)
        return '(%s%s)' % (', '.join(parts), ',' if len(parts) == 1 else '')
    if k == 'map':
        parts = ['%s: %s' % (kt, render(sp)) for kt, ke, sp in p[1]]
        if p[2]:
            parts.append('**' + p[2])
        return '{%s}' % ', '.join(parts)
    if k == 'cls':
        parts = [render(x) for x in p[2]] + ['%s=%s' % (n, render(x)) for n, x in p[3]]
        return '%s(%s)' % (p[1], ', '.join(parts))
    if k == 'or':
        return ' | '.join('(%s)' % render(a) if a[0] in ('or', 'as') else render(a) for a in p[1])
    if k == 'as':
        inner = render(p[1])
        if p[1][0] in ('or', 'as'):
            inner = '(%s)' % inner
        return '%s as %s' % (inner, p[2])
    raise AssertionError(p)


def names(p):
    """capture names bound by the pattern, in order of appearance"""
    k = p[0]
    if k == 'cap':
        return [p[1]]
    if k == 'seq':
        out = []
        items = list(p[1])
        for i, x in enumerate(items):
            if p[2] is not None and p[2][0] == i and p[2][1] != '_':
                out.append(p[2][1])
            out += names(x)
        if p[2] is not None and p[2][0] >= len(items) and p[2][1] != '_':
            out.append(p[2][1])
        return out
    if k == 'map':
        out = []
        for kt, ke, sp in p[1]:
            out += names(sp)
        if p[2]:
            out.append(p[2])
        return out
    if k == 'cls':
        out = []
        for x in p[2]:
            out += names(x)
        for n, x in p[3]:
            out += names(x)
        return out
    if k == 'or':
        return names(p[1][0])
    if k == 'as':
        return names(p[1]) + [p[2]]
    return []


def kinds_in(p, acc=None):
    acc = acc if acc is not None else set()
    k = p[0]
    if k == 'seq':
        acc.add('sequence-star' if p[2] is not None else 'sequence')
        for x in p[1]:
            kinds_in(x, acc)
    elif k == 'map':
        acc.add('mapping-rest' if p[2] else 'mapping')
        for kt, ke, sp in p[1]:
            kinds_in(sp, acc)
    elif k == 'cls':
        acc.add('class-builtin' if p[1] in BUILTIN_SELF else 'class')
        for x in p[2]:
            kinds_in(x, acc)
        for n, x in p[3]:
            kinds_in(x, acc)
    elif k == 'or':
        acc.add('or')
        for a in p[1]:
            kinds_in(a, acc)
    elif k == 'as':
        acc.add('as')
        kinds_in(p[1], acc)
    else:
        acc.add({'lit': 'literal', 'val': 'value', 'cap': 'capture', 'wild': 'wildcard'}[k])
    return acc


def example(p, rng, exact=True):
    """expression (using M) of a subject that is likely to match p; exact=False perturbs it"""
    k = p[0]
    if k in ('lit', 'val'):
        if not exact and rng.random() < 0.5:
            return rng.choice(SIMPLE_EXAMPLES)
        if rng.random() < 0.08:
            return 'M.EqLog(%s)' % p[2]
        return p[2]
    if k in ('cap', 'wild'):
        return rng.choice(SIMPLE_EXAMPLES)
    if k == 'seq':
        items = [example(x, rng, exact) for x in p[1]]
        if p[2] is not None:
            extra = [rng.choice(SIMPLE_EXAMPLES) for _ in range(rng.choice([0, 1, 2]))]
            items[p[2][0]:p[2][0]] = extra
        elif not exact and rng.random() < 0.4:
            items.append('0')
        body = ', '.join(items)
        wrap = rng.choice(['list', 'list', 'tuple', 'tuple', 'deque', 'Seq', 'RegSeq', 'ListSub', 'TupSub', 'NotSeq', 'range?']
                          if rng.random() < 0.5 else ['list', 'tuple'])
        if wrap == 'list':
            return '[%s]' % body
        if wrap == 'tuple':
            return '(%s%s)' % (body, ',' if len(items) == 1 else '')
        if wrap == 'deque':
            return 'collections.deque([%s])' % body
        if wrap == 'range?':
            return 'range(%d)' % len(items)
        return 'M.%s([%s])' % (wrap, body)
    if k == 'map':
        ents = ['%s: %s' % (ke, example(sp, rng, exact)) for kt, ke, sp in p[1]]
        if p[2] or rng.random() < 0.4:
            ents.append("'extra': 9")
        if not exact and ents and rng.random() < 0.4:
            ents.pop(0)
        body = '{%s}' % ', '.join(ents)
        wrap = rng.choice(['dict', 'dict', 'DictSub', 'Map', 'MapGetLog', 'RegMap', 'MapGetRaise', 'MappingProxy', 'OrderedDict']
                          if rng.random() < 0.5 else ['dict'])
        if wrap == 'dict':
            return body
        if wrap == 'MappingProxy':
            return 'types.MappingProxyType(%s)' % body
        if wrap == 'OrderedDict':
            return 'collections.OrderedDict(%s)' % body
        return 'M.%s(%s)' % (wrap, body)
    if k == 'cls':
        c = p[1]
        if c in BUILTIN_SELF:
            if p[2]:
                inner = example(p[2][0], rng, exact)
                # the positional sub-pattern of a self-matching builtin sees the subject itself
                if rng.random() < 0.7:
                    return inner
            sub = {'int': 'M.IntSub(5)', 'str': "M.StrSub('s')", 'list': 'M.ListSub([1, 2])', 'dict': "M.DictSub({'a': 1})",
                   'tuple': 'M.TupSub((1, 2))'}
            if c in sub and rng.random() < 0.3:
                return sub[c]
            return BUILTIN_EXAMPLE[c]
        posnames = CLASSES.get(c, (['x', 'y'], ['x']))[0]
        attrs = {}
        for i, x in enumerate(p[2]):
            if i < len(posnames):
                attrs[posnames[i]] = example(x, rng, exact)
        for n, x in p[3]:
            attrs[n] = example(x, rng, exact)
        if c == 'Point':
            ctor = rng.choice(['Point', 'Point', 'P3'])
            args = [attrs.get('x', '0'), attrs.get('y', '0')]
            if ctor == 'P3':
                args.append(attrs.get('z', '0'))
            return 'M.%s(%s)' % (ctor, ', '.join(args))
        if c == 'P3':
            return 'M.P3(%s, %s, %s)' % (attrs.get('x', '0'), attrs.get('y', '0'), attrs.get('z', '0'))
        if c == 'DC':
            return 'M.DC(%s, %s)' % (attrs.get('a', '0'), attrs.get('b', '0'))
        if c == 'One':
            return 'M.One(%s, %s)' % (attrs.get('a', '0'), attrs.get('b', '0'))
        if c == 'DC1':
            return 'M.DC1(%s)' % attrs.get('a', '0')
        if c == 'Zero':
            return 'M.Zero(%s)' % attrs.get('a', '0')
        if c == 'LA':
            if not exact and attrs and rng.random() < 0.5:
                attrs.pop(sorted(attrs)[0])
            ctor = 'LARaise' if rng.random() < 0.1 else 'LA'
            return 'M.%s(%s)' % (ctor, ', '.join('%s=%s' % kv for kv in sorted(attrs.items())))
        return 'M.%s()' % c
    if k == 'or':
        return example(rng.choice(p[1]), rng, exact)
    if k == 'as':
        return example(p[1], rng, exact)
    raise AssertionError(p)


GENERIC_SUBJECTS = [
    '0', '1', '-1', '2**70', '1.5', '-0.0', '(1+2j)', 'True', 'False', 'None', "'a'", "'abc'", "''", "b'a'", "b'abc'",
    "bytearray(b'ab')", '[]', '[1]', '[1, 2]', '[1, 2, 3]', '(1, 2)', '()', '[[1, 2], 3]', "['a', 'b']", 'range(3)',
    'collections.deque([1, 2])', "{'a': 1}", "{'a': 1, 'b': 2}", '{}', '{1: 2, None: 3}', "M.DictSub({'a': 1})",
    'M.Point(1, 2)', 'M.P3(1, 2, 3)', 'M.DC(1, 2)', 'M.DC([1, 2], {"a": 1})', 'M.One(1, 2)', 'M.DC1(1)', 'M.Zero()', 'M.LA(x=1, y=2)', 'M.LA(x=1)', 'M.LARaise(x=1)',
    'M.BadArgs()', 'M.DupArgs()', 'M.NoArgs()', 'M.StrArgs()', 'M.Color.RED', 'M.Color.GREEN', 'M.EqLog(1)', "M.EqLog('a')",
    'M.EqRaise()', 'M.Seq([1, 2])', 'M.Seq([])', 'M.RegSeq([1, 2])', 'M.NotSeq([1, 2])', "M.Map({'a': 1})", "M.MapGetLog({'a': 1, 'b': 2})", "M.MapGetRaise({'a': 1})", "M.RegMap({'a': 1})",
    "M.StrSub('a')", 'M.IntSub(1)', 'M.ListSub([1, 2])', 'M.TupSub((1, 2))', "types.MappingProxyType({'a': 1})",
    'array.array("i", [1, 2])', 'memoryview(b"ab")', '{1, 2}', 'frozenset({1})', 'iter([1, 2])', '(x for x in [1, 2])',
    'object()', 'NotImplemented', '...', '1 == 1', 'float("nan")',
]


BOUNDARY_EVERY = 10


def gen_function(rng, idx, ncases_max=4, maxdepth=3):
    """returns dict {name, src, cases: [{pattern, names, guard}], kinds}; every BOUNDARY_EVERY-th function carries one
    stratified boundary class pattern (see boundary_class_pattern) in one of its cases"""
    g = Gen(rng, maxdepth)
    ncases = rng.randint(1, ncases_max)
    cases = []
    blabel = None
    bcase = None
    if idx % BOUNDARY_EVERY == BOUNDARY_EVERY // 2:
        # mostly the first case, so that earlier cases do not keep the subjects away from it
        bcase = 0 if rng.random() < 0.6 else rng.randrange(ncases)
    for ci in range(ncases):
        last = ci == ncases - 1
        if ci == bcase:
            p, blabel = boundary_class_pattern(g, idx // BOUNDARY_EVERY)
        else:
            p = g.pattern(0)
        # irrefutable patterns are only allowed in the last case (or with a guard)
        guard = None
        nm = names(p)
        if rng.random() < 0.35:
            res = rng.random() < 0.6
            guard = (res, nm[:2])
        irrefutable = p[0] in ('cap', 'wild') or (p[0] == 'as' and p[1][0] in ('wild', 'cap')) or (
            p[0] == 'or' and p[1][-1][0] == 'wild')
        if irrefutable and not last and guard is None:
            guard = (rng.random() < 0.5, nm[:2])
        cases.append({'pattern': p, 'names': nm, 'guard': guard})
    name = 'fz%dz' % idx
    lines = ['def %s(s):' % name, "    out = ('nomatch',)", '    match s:']
    for ci, c in enumerate(cases):
        gtxt = ''
        if c['guard'] is not None:
            res, gn = c['guard']
            gtxt = ' if G(%r, %r%s)' % ('g%d' % ci, res, ''.join(', ' + n for n in gn))
        lines.append('        case %s%s:' % (render(c['pattern']), gtxt))
        lines.append('            out = (%r, %s)' % ('case%d' % ci, ''.join(n + ', ' for n in c['names'])))
    lines.append('    return out')
    kinds = set()
    for c in cases:
        kinds_in(c['pattern'], kinds)
        if c['guard'] is not None:
            kinds.add('guard')
    src = '\n'.join(lines) + '\n'
    feats = set()
    for c in cases:
        features(c['pattern'], feats)
    return {'name': name, 'src': src, 'cases': cases, 'kinds': sorted(kinds), 'wild_as': '_ as ' in src,
            'features': sorted(feats), 'boundary_cell': blabel}


class _Stub:
    class Color:
        RED = ('Color.RED',)
        GREEN = ('Color.GREEN',)


def features(p, acc):
    """structural features that make a pattern invalid at run time or bind through `as`"""
    k = p[0]
    if k == 'seq':
        for x in p[1]:
            features(x, acc)
    elif k == 'map':
        vals = []
        for kt, ke, sp in p[1]:
            v = eval(ke, {'M': _Stub})
            if any(v == w for w in vals):
                acc.add('duplicate-mapping-keys')
            vals.append(v)
            features(sp, acc)
    elif k == 'cls':
        c = p[1]
        if c in BUILTIN_SELF:
            if len(p[2]) > 1:
                acc.add('invalid-class-pattern')
        else:
            posnames = CLASSES.get(c, ([], []))[0]
            if c not in CLASSES and p[2]:
                acc.add('invalid-class-pattern')       # BadArgs / DupArgs / NoArgs / StrArgs with positional sub-patterns
            if len(p[2]) > len(posnames) and c in CLASSES:
                acc.add('invalid-class-pattern')
            kwn = [n for n, x in p[3]]
            if len(set(kwn)) != len(kwn) or set(kwn) & set(posnames[:len(p[2])]):
                acc.add('invalid-class-pattern')
        for x in p[2]:
            features(x, acc)
        for n, x in p[3]:
            features(x, acc)
    elif k == 'or':
        if all(a[0] in ('lit', 'val') for a in p[1]):
            acc.add('or-of-values')
        for a in p[1]:
            features(a, acc)
    elif k == 'as':
        if p[1][0] in ('lit', 'val'):
            acc.add('as-over-value-pattern')
        if p[1][0] == 'or' and any(a[0] in ('lit', 'val') for a in p[1][1]):
            acc.add('as-over-value-pattern')
        features(p[1], acc)
