"""Format-spec / %-template / C-typed formatting generators for C18.

Every generated item is a dict {name, family, src (definition, Python syntax), pyx (definition, Cython syntax or None),
nargs, optype (operand class the function is meant for), cls (structural spec class for cells / mechanism keys)}."""

INT_TYPES = 'bcdoxXn'
FLOAT_TYPES = 'eEfFgG%'


def spec_class(spec):
    """structural class of a format spec: which mini-language parts are present + the type char"""
    import re
    m = re.match(r'^(?:(.)?([<>=^]))?([-+ ])?(z)?(#)?(0)?(\d+|\{\w+\})?([,_])?(\.(?:\d+|\{\w+\}))?([a-zA-Z%])?$', spec)
    if not m:
        return 'other'
    fill, align, sign, z, alt, zero, width, grp, prec, typ = m.groups()
    parts = []
    if align:
        parts.append('align' + align + ('fill' if fill else ''))
    if sign:
        parts.append('sign' + {'-': 'minus', '+': 'plus', ' ': 'space'}[sign])
    if z:
        parts.append('z')
    if alt:
        parts.append('alt')
    if zero:
        parts.append('zero')
    if width:
        parts.append('width' + ('nested' if width.startswith('{') else ''))
    if grp:
        parts.append('grp')
    if prec:
        parts.append('prec' + ('nested' if '{' in prec else ''))
    return '+'.join(parts or ['plain']) + ':' + (typ or '-')


def gen_spec(rng, kind, nested_ok=True):
    """a format spec for operands of class kind in int/float/str/obj; mostly valid, sometimes not"""
    fill = rng.choice(['', '', '', '*', '0', ' ', 'x', 'é', '€'])
    align = rng.choice(['', '', '<', '>', '^', '='])
    if fill and not align:
        align = rng.choice('<>^')
    sign = rng.choice(['', '', '', '+', '-', ' '])
    z = 'z' if rng.random() < .05 else ''
    alt = '#' if rng.random() < .15 else ''
    zero = '0' if rng.random() < .2 else ''
    width = rng.choice(['', '', '1', '3', '5', '8', '12', '20'])
    if nested_ok and rng.random() < .12:
        width = '{w}'
    grp = rng.choice(['', '', '', '', ',', '_'])
    prec = rng.choice(['', '', '', '.0', '.1', '.3', '.10'])
    if nested_ok and prec and rng.random() < .15:
        prec = '.{p}'
    if kind == 'int':
        typ = rng.choice(['', 'd', 'd', 'd', 'x', 'X', 'o', 'b', 'c', 'e', 'f', 'g', '%', 's'])
        if typ in ('', 'd', 'x', 'X', 'o', 'b', 'c') and rng.random() < .85:
            prec = ''
    elif kind == 'float':
        typ = rng.choice(['', 'e', 'E', 'f', 'f', 'F', 'g', 'G', '%', 'd', 's'])
    elif kind == 'str':
        typ = rng.choice(['', '', 's', 's', 'd'])
        if rng.random() < .8:
            sign = alt = zero = grp = z = ''
            if align == '=':
                align = '>'
    else:
        typ = rng.choice(['', '', 's', 'd', 'x'])
    return fill + align + sign + z + alt + zero + width + grp + prec + typ if align else sign + z + alt + zero + width + grp + prec + typ


def fstring_functions(rng, n, start=0):
    out = []
    for i in range(n):
        kind = rng.choice(['int', 'int', 'float', 'float', 'str', 'obj'])
        conv = rng.choice(['', '', '', '!s', '!r', '!a'])
        spec = gen_spec(rng, 'str' if conv else kind)
        if rng.random() < .15:
            spec = ''
        body = '{x%s%s}' % (conv, (':' + spec) if spec else '')
        form = rng.random()
        if form < .55:
            text = body
        elif form < .7:
            text = 'a' + body + 'é{{}}'
        elif form < .8:
            text = body + body.replace('{x', '{y')
        elif form < .88:
            text = '{x=%s%s}' % (conv, (':' + spec) if spec else '')      # debugging specifier
        elif form < .94:
            text = '<' + body + '|' + '{y!r:>{w}}' + '>'
        else:
            text = "' f'".join(['pre', body, 'post'])                       # adjacent literals
        lit = "f'%s'" % text
        name = 'fz%dz' % (start + i)
        out.append({'name': name, 'family': 'fstring', 'optype': kind, 'cls': ('conv' + conv + ':' if conv else '') + spec_class(spec),
                    'src': 'def %s(x, y, w, p):\n    return %s\n' % (name, lit), 'pyx': None, 'spec': spec})
    return out


PCT_TYPES = ['s', 's', 'r', 'a', 'd', 'd', 'i', 'x', 'X', 'o', 'e', 'f', 'f', 'g', 'c', 'u']


def pct_field(rng):
    flags = ''
    for fl in '-0 +#':
        if rng.random() < .15:
            flags += fl
    width = rng.choice(['', '', '', '1', '4', '8', '*'])
    prec = rng.choice(['', '', '', '.0', '.2', '.5', '.*'])
    typ = rng.choice(PCT_TYPES)
    return '%' + flags + width + prec + typ, (width == '*') + (prec == '.*') + 1, typ


def pct_functions(rng, n, start=0):
    out = []
    for i in range(n):
        nf = rng.choice([1, 1, 2, 3])
        parts = []
        nargs = 0
        types = []
        lits = ['', '', ' ', 'a', '%%', 'é', '-%%-', ' %% ']
        for _ in range(nf):
            parts.append(rng.choice(lits))
            f, na, t = pct_field(rng)
            parts.append(f)
            nargs += na
            types.append(t)
        parts.append(rng.choice(lits))
        tmpl = ''.join(parts)
        form = rng.random()
        args = ['a%d' % j for j in range(nargs)]
        name = 'fz%dz' % (start + i)
        if form < .75:
            rhs = '(%s,)' % ', '.join(args)
        elif form < .85 and nargs == 1:
            rhs = 'a0'                         # non-tuple right operand (a tuple value must still be unpacked)
        elif form < .92:
            rhs = '(%s,)' % ', '.join(args)
        else:
            rhs = '(%s)' % ', '.join(args + ['a0']) if nargs else '()'      # too many arguments
        src = 'def %s(%s):\n    return %r %% %s\n' % (name, ', '.join(args) or 'a0', tmpl, rhs)
        cls = '+'.join(sorted(set(('flag' + c) for c in tmpl if c in '-0 +#') | {'type' + t for t in types} |
                              ({'star'} if '*' in tmpl else set()) | ({'pct'} if '%%' in tmpl else set())))
        out.append({'name': name, 'family': 'percent', 'optype': '/'.join(types), 'cls': cls, 'src': src, 'pyx': None,
                    'nargs': max(nargs, 1), 'types': types, 'tmpl': tmpl})
    return out


def mapping_pct_functions(rng, n, start=0):
    out = []
    for i in range(n):
        name = 'fz%dz' % (start + i)
        t1, t2 = rng.choice('srdxf'), rng.choice('srd')
        tmpl = '%%(k)%s%s%s|%%(j)%s%s' % (rng.choice(['', '5', '-5', '05']), rng.choice(['', '.2']) if t1 in 'sf' else '', t1,
                                          rng.choice(['', '3']), t2)
        src = "def %s(a0, a1):\n    return %r %% {'k': a0, 'j': a1}\n" % (name, tmpl)
        out.append({'name': name, 'family': 'percent-mapping', 'optype': t1 + '/' + t2, 'cls': 'mapping', 'src': src,
                    'pyx': None, 'nargs': 2, 'types': [t1, t2], 'tmpl': tmpl})
    return out


C_INT_TYPES = ['signed char', 'unsigned char', 'short', 'unsigned short', 'int', 'unsigned int', 'long', 'unsigned long',
               'long long', 'unsigned long long', 'Py_ssize_t', 'size_t']
C_RANGES = {'signed char': (-2 ** 7, 2 ** 7 - 1), 'unsigned char': (0, 2 ** 8 - 1), 'short': (-2 ** 15, 2 ** 15 - 1),
            'unsigned short': (0, 2 ** 16 - 1), 'int': (-2 ** 31, 2 ** 31 - 1), 'unsigned int': (0, 2 ** 32 - 1),
            'long': (-2 ** 63, 2 ** 63 - 1), 'unsigned long': (0, 2 ** 64 - 1), 'long long': (-2 ** 63, 2 ** 63 - 1),
            'unsigned long long': (0, 2 ** 64 - 1), 'Py_ssize_t': (-2 ** 63, 2 ** 63 - 1), 'size_t': (0, 2 ** 64 - 1)}


def c_int_spec(rng):
    """specs the C fast path claims ([>-]? 0? width [doxXc]?) and near misses that must fall back"""
    r = rng.random()
    if r < .7:
        return rng.choice(['', '', '>', '-']) + rng.choice(['', '', '0', '00']) + rng.choice(['', '1', '2', '3', '5', '8', '11', '25', '70']) + \
            rng.choice(['', 'd', 'd', 'x', 'X', 'o', 'c'])
    return gen_spec(rng, 'int', nested_ok=False)


def ctyped_functions(rng, n, start=0):
    out = []
    for i in range(n):
        name = 'fz%dz' % (start + i)
        r = rng.random()
        if r < .62:
            ct = rng.choice(C_INT_TYPES)
            kind = 'cint'
            spec = c_int_spec(rng)
        elif r < .8:
            ct = rng.choice(['double', 'double', 'float'])
            kind = 'cdouble'
            spec = rng.choice(['', '', '', '.2f', '10.3e', 'g', '08.3f', '+.1f', '>12', '.0f', '%', 'e']) if rng.random() < .7 \
                else gen_spec(rng, 'float', nested_ok=False)
        elif r < .9:
            ct = 'Py_UCS4'
            kind = 'cucs4'
            spec = rng.choice(['', '', '', '>3', '5', '<4', '*^5', 's', 'c', 'd'])
        else:
            ct = 'bint'
            kind = 'cbint'
            spec = rng.choice(['', '', '', 'd', '5', '>6', '05d', 'x', 's'])
        form = rng.random()
        conv = ''
        if form < .6:
            expr = "f'{x%s}'" % ((':' + spec) if spec else '')
            fam = 'fstring'
        elif form < .68:
            conv = rng.choice(['!s', '!r', '!a'])
            expr = "f'{x%s%s}'" % (conv, (':' + spec) if spec and not any(c in spec for c in 'dxXoc') else '')
            fam = 'fstring-conv'
        elif form < .76:
            expr = "f'[{x%s}|{y%s}]{x}'" % ((':' + spec) if spec else '', (':' + spec) if spec else '')
            fam = 'fstring-two'
        elif form < .83:
            expr = 'str(x)'
            fam = 'str()'
        elif form < .88:
            expr = 'repr(x)'
            fam = 'repr()'
        elif form < .94:
            expr = 'format(x, %r)' % spec
            fam = 'format()'
        else:
            pspec = spec if kind == 'cint' and spec and spec[-1] in 'dxXo' and not spec.startswith('>') else \
                {'cint': '5d', 'cdouble': '.3f', 'cucs4': 's', 'cbint': 'd'}[kind]
            expr = "'<%%%s>' %% (x,)" % pspec
            fam = 'percent'
            spec = pspec
        pyx = 'def %s(%s x, %s y):\n    return %s\n' % (name, ct, ct, expr)
        src = 'def %s(x, y):\n    return %s\n' % (name, expr)
        out.append({'name': name, 'family': 'ctyped-' + fam, 'optype': ct, 'kind': kind, 'cls': fam + ':' + (conv + ':' if conv else '') + spec_class(spec),
                    'src': src, 'pyx': pyx, 'spec': spec})
    return out


def join_functions(start=0):
    """str.join / concatenation shapes (fixed list; inputs vary)"""
    bodies = [
        ("''.join(a)", 1), ("'-'.join(a)", 1), ("b.join(a)", 2), ("'€'.join([b, c, b])", 3), ("a[0] + b + a[1]", 2),
        ("b + c + b + c", 3), ("f'{b}{c}' + b", 3), ("''.join([b, f'{c}', str(c)])", 3), ("', '.join(x for x in a)", 1),
        ("b.join([str(x) for x in a])", 2), ("'%s%s' % (b, c) + f'{b}'", 3), ("str.join(b, a)", 2), ("''.join(a) + ''.join(a)", 1),
        ("b.join((c, c, c))", 3), ("''.join(tuple(a))", 1), ("f'{b}' f'{c}' 'é'", 3),
    ]
    out = []
    for i, (body, na) in enumerate(bodies):
        name = 'fz%dz' % (start + i)
        out.append({'name': name, 'family': 'join', 'optype': 'str', 'cls': 'join%d' % i, 'src': 'def %s(a, b, c):\n    return %s\n' % (name, body),
                    'pyx': 'def %s(list a, str b, str c):\n    return %s\n' % (name, body) if i % 2 else None})
    return out


# ---------------------------------------------------------------------------------------------------------------------
# repeated fields: one f-string (or a %-template with a tuple literal, which the compiler turns into one) that formats
# the SAME simple local name several times with every pair of conversions / with and without specs. The compiler
# merges repeated fields of "safe" operands (C values, known builtin types, declared or inferred) into one
# evaluation, so the cells are: operand kind (how the name got its type) x which parts differ between the
# occurrences of a name (conversion, spec, nothing).
CONVS = ['', '!s', '!r', '!a']
CONV_PAIRS = [(a, b) for a in CONVS for b in CONVS]

# kind -> (pyx signature or None, py signature, prologue lines, field names, operand class for specs)
REPEAT_KINDS = {
    'str': ('str x, str y', 'x, y', [], 'xy', 'str'),
    'bytes': ('bytes x, bytes y', 'x, y', [], 'xy', 'obj'),
    'list': ('list x, list y', 'x, y', [], 'xy', 'obj'),
    'tuple': ('tuple x, tuple y', 'x, y', [], 'xy', 'obj'),
    'dict': ('dict x, dict y', 'x, y', [], 'xy', 'obj'),
    'ucs4': ('Py_UCS4 x, Py_UCS4 y', 'x, y', [], 'xy', 'str'),
    'cint': ('int x, int y', 'x, y', [], 'xy', 'int'),
    'clong': ('long x, long y', 'x, y', [], 'xy', 'int'),
    'cdouble': ('double x, double y', 'x, y', [], 'xy', 'float'),
    'cbint': ('bint x, bint y', 'x, y', [], 'xy', 'int'),
    'cdef-str': ('x, y', 'x, y', ['cdef str u = x', 'cdef str v = y'], 'uv', 'str'),
    'pyx-obj': ('x, y', 'x, y', [], 'xy', 'any'),
    'py-obj': (None, 'x, y', [], 'xy', 'any'),
    'py-annot-str': (None, 'x: str, y: str', [], 'xy', 'str'),
    'py-local-str': (None, 'x, y', ['u = str(x)', 'v = str(y)'], 'uv', 'str'),
    'py-local-repr': (None, 'x, y', ['u = repr(x)', 'v = ascii(y)'], 'uv', 'str'),
    'py-local-list': (None, 'x, y', ['u = [x, y]', 'v = [y]'], 'uv', 'obj'),
    'py-local-tuple': (None, 'x, y', ['u = (x, y)', 'v = (y,)'], 'uv', 'obj'),
    'py-local-dict': (None, 'x, y', ["u = {'k': x}", "v = {'j': y}"], 'uv', 'obj'),
    'py-local-lit': (None, 'x, y', ["u = 'h\\xe9\\'l' if x else '\\u20ac\"'", 'v = str(y)'], 'uv', 'str'),
}
REPEAT_SPECS = {
    'str': ['>8', '<6', '^7', '10', '.2', '*>9', 's'],
    'int': ['3', '5d', 'x', '>4', '04', 'd'],
    'float': ['.2f', '8.3e', 'g', '>9'],
    'obj': ['', '>8'],
    'any': ['>8', '5', ''],
}
C_REPEAT_KINDS = ('ucs4', 'cint', 'clong', 'cdouble', 'cbint')


def repeat_shape(fields):
    """which parts differ between the occurrences of one name: conv / spec / dup (identical) - or 'single'"""
    parts = set()
    by = {}
    for name, conv, spec in fields:
        by.setdefault(name, []).append((conv.replace('!s', ''), spec))
    for occ in by.values():
        for i in range(len(occ)):
            for j in range(i + 1, len(occ)):
                (c1, s1), (c2, s2) = occ[i], occ[j]
                if c1 != c2:
                    parts.add('conv')
                if s1 != s2:
                    parts.add('spec')
                if c1 == c2 and s1 == s2:
                    parts.add('dup')
    return '+'.join(sorted(parts)) or 'single'


def repeat_functions(rng, n, start=0):
    out = []
    kinds = list(REPEAT_KINDS)
    pairs = {k: rng.sample(CONV_PAIRS, len(CONV_PAIRS)) for k in kinds}
    for i in range(n):
        kind = kinds[i % len(kinds)]
        pyxsig, pysig, prologue, names, opclass = REPEAT_KINDS[kind]
        c1, c2 = pairs[kind][(i // len(kinds)) % len(CONV_PAIRS)]
        a, b = names[0], names[1]

        def spec_for(conv):
            if rng.random() < .7:
                return ''
            if kind in C_REPEAT_KINDS and conv:
                return ''        # conversion + spec on a C operand is a recorded finding of its own (conversion dropped)
            return rng.choice(REPEAT_SPECS['str' if conv else opclass])
        # the stratified pair: the same name twice; specs only on a minority so that the bare pair stays frequent
        fields = [(a, c1, spec_for(c1) if rng.random() < .25 else ''), (a, c2, spec_for(c2) if rng.random() < .25 else '')]
        for _ in range(rng.choice([0, 0, 1, 1, 2])):
            conv = rng.choice(CONVS)
            fields.insert(rng.randrange(len(fields) + 1), (rng.choice([a, a, b]), conv, spec_for(conv)))
        name = 'fz%dz' % (start + i)
        pct = rng.random() < .25
        if pct:
            # '%s|%r' % (u, u): literal template and tuple literal -> rewritten into an f-string by the compiler
            tp = []
            for nm, conv, spec in fields:
                t = {'': 's', '!s': 's', '!r': 'r', '!a': 'a'}[conv]
                if not conv and opclass == 'int' and kind != 'cbint' and rng.random() < .5:
                    t = 'd'
                width = rng.choice(['', '', '7', '-6'])
                if kind in C_REPEAT_KINDS and t in 'sra':
                    width = ''   # %7s / %7r of a C operand = conversion + spec: recorded finding of its own (see spec_for)
                tp.append('%' + width + t)
            fields = [(nm, conv, tpl[1:]) for (nm, conv, _), tpl in zip(fields, tp)]
            seps = [rng.choice(['', '|', ' and ', '\xe9=', '%%']) for _ in range(len(tp) + 1)]
            tmpl = ''.join(s + t for s, t in zip(seps, tp)) + seps[-1]
            expr = '%r %% (%s,)' % (tmpl, ', '.join(nm for nm, _, _ in fields))
        else:
            seps = [rng.choice(['', '|', ' and ', '\xe9=', '{{', '}}']) for _ in range(len(fields) + 1)]
            text = ''.join(s + '{%s%s%s}' % (nm, conv, ':' + spec if spec else '') for s, (nm, conv, spec) in zip(seps, fields)) + seps[-1]
            expr = 'f%r' % text
        body = ''.join('    %s\n' % ln for ln in prologue) + '    return %s\n' % expr
        src = 'def %s(%s):\n%s' % (name, pysig, body.replace('cdef str ', ''))
        pyx = 'def %s(%s):\n%s' % (name, pyxsig, body) if pyxsig is not None else None
        out.append({'name': name, 'family': 'repeat', 'optype': kind, 'kind': kind, 'form': 'pct' if pct else 'fstr',
                    'cls': ('pct' if pct else 'fstr') + ':' + repeat_shape(fields), 'src': src, 'pyx': pyx, 'fields': fields})
    return out
