"""Generator of Python constant expressions (C09): literals in every spelling, constant folds, containers that
mix equal-but-distinct constants.  Pure functions of a seeded random.Random; every produced expression was
evaluated once by CPython in the generating process (bounded sizes) and is known not to raise and not to warn."""
import warnings

# equal-but-distinct constants: the constant pool must keep all of them apart
MIX = ['0', '0.0', '-0.0', 'False', '1', '1.0', 'True', '0j', '-0j', "''", "b''", 'None', '-1', '-1.0', '2', '2.0',
       "'a'", "b'a'", '1j', '0.0j', '-0.0j', '(-0.0+0j)', '(0.0-0j)', '-1j', '0x0', '00', '1e0', '-0', '+0.0',
       '()', '(0,)', '(0.0,)', '(-0.0,)', '(False,)']

EDGE_INTS = [0, 1, 2, 7, 9, 10, 127, 128, 255, 256, 32767, 32768, 65535, 65536, 2 ** 30 - 1, 2 ** 30, 2 ** 31 - 1,
             2 ** 31, 2 ** 31 + 1, 2 ** 32 - 1, 2 ** 32, 10 ** 13 - 1, 10 ** 13, 10 ** 13 + 1, 2 ** 53, 2 ** 53 + 1,
             2 ** 60 - 1, 2 ** 60, 2 ** 62, 2 ** 63 - 1, 2 ** 63, 2 ** 63 + 1, 2 ** 64 - 1, 2 ** 64, 2 ** 64 + 1,
             2 ** 90, 2 ** 127, 2 ** 128, 10 ** 18, 10 ** 19, 10 ** 20, 2 ** 1999, 2 ** 2000 - 1]

EDGE_FLOATS = ['0.0', '0.', '.0', '1.', '.5', '1.0', '1e0', '1E0', '1e+0', '1e-0', '0e0', '0.0e-999', '1e400', '1E400',
               '1e-400', '5e-324', '4.9e-324', '2.4e-324', '2.5e-324', '2.2250738585072014e-308',
               '2.2250738585072011e-308', '1.7976931348623157e308', '1.7976931348623159e308', '1e308', '1e309',
               '0.1', '0.2', '0.3', '0.30000000000000004', '9007199254740992.0', '9007199254740993.0',
               '9007199254740993.5', '123456789012345678901234567890.0', '1e22', '1e23', '8.41e21', '3.14159',
               '100.', '1_0.0_1', '1_000.000_1', '1_0e1_0', '1e1_0', '0_0.0', '00.5', '007.5', '09.5', '1e05',
               '179769313486231580793728971405303415079934132710037826936173778980444968292764750946649017977587207096'
               '330286416692887910946555547851940402630657488671505820681908902000708383676273854845817711531764475730'
               '270069855571366959622842914819860834936475292719074168444365510704342711559699508093042880177904174497'
               '791.0',
               '0.000000000000000000000000000000000000000000000000000000000000000000000000000000000000000000000000001',
               '4.35', '2.675', '1.15', '0.5e-323', '1.5e-323', '6e-324', '18446744073709551616.0',
               '9223372036854775807.0', '9223372036854775808.0', '4294967296.0', '2147483648.0', '1e16', '1e15']


def _underscores(rng, digits):
    """insert single underscores between digits"""
    if len(digits) < 2 or rng.random() < 0.5:
        return digits
    out = [digits[0]]
    for ch in digits[1:]:
        if rng.random() < 0.25:
            out.append('_')
        out.append(ch)
    return ''.join(out)


def int_literal(rng, v=None):
    """text of a non-negative int literal in a random spelling"""
    if v is None:
        r = rng.random()
        if r < 0.35:
            v = rng.choice(EDGE_INTS)
        elif r < 0.6:
            v = rng.randrange(0, 300)
        else:
            bits = rng.choice([4, 8, 15, 16, 30, 31, 32, 33, 43, 44, 45, 53, 60, 62, 63, 64, 65, 90, 128, 200, 500,
                               1000, 2000])
            v = rng.getrandbits(bits) | (1 << (bits - 1))
            if rng.random() < 0.3:
                v = (1 << bits) - 1 - (rng.getrandbits(2))
    form = rng.choice(['d', 'd', 'd', 'x', 'X', 'o', 'b', 'xu', 'ou', 'bu'])
    if form == 'd':
        s = str(v)
        if v == 0 and rng.random() < 0.3:
            return rng.choice(['0', '00', '0_0', '000'])
        return _underscores(rng, s)
    if form in ('x', 'X', 'xu'):
        digits = '%x' % v if form != 'X' else '%X' % v
        if rng.random() < 0.3:
            digits = ''.join(c.upper() if rng.random() < 0.5 else c for c in digits)
        pre = rng.choice(['0x', '0X'])
        if rng.random() < 0.2:
            digits = '0' * rng.randrange(1, 4) + digits
        if form == 'xu':
            return pre + '_' + _underscores(rng, digits)
        return pre + _underscores(rng, digits)
    if form in ('o', 'ou'):
        digits = '%o' % v
        pre = rng.choice(['0o', '0O'])
        return pre + ('_' if form == 'ou' else '') + _underscores(rng, digits)
    digits = bin(v)[2:]
    if len(digits) > 400:
        return str(v)
    pre = rng.choice(['0b', '0B'])
    return pre + ('_' if form == 'bu' else '') + _underscores(rng, digits)


def float_literal(rng):
    r = rng.random()
    if r < 0.45:
        return rng.choice(EDGE_FLOATS)
    if r < 0.6:
        return repr(rng.uniform(-1, 1) * 10.0 ** rng.randint(-320, 308)).lstrip('-')
    ip = str(rng.randrange(0, 10 ** rng.choice([1, 3, 9, 17, 25])))
    fp = ''.join(rng.choice('0123456789') for _ in range(rng.choice([0, 1, 2, 5, 17, 30])))
    s = _underscores(rng, ip) + '.' + _underscores(rng, fp) if fp else ip + '.'
    if rng.random() < 0.4:
        s += rng.choice('eE') + rng.choice(['', '+', '-']) + _underscores(rng, str(rng.randrange(0, 330)))
    return s


def imag_literal(rng):
    r = rng.random()
    if r < 0.5:
        return rng.choice(['0j', '1j', '0J', '1.5j', '0.0j', '2j', '.5j', '1e-400j', '1_0j', '5.j', '1e308j'])
    # (imaginary literals that overflow to inf make the generated C fail to compile - `inf` undeclared - a C43 matter)
    while True:
        t = float_literal(rng) if rng.random() < 0.5 else str(rng.randrange(0, 1000))
        if float(t.replace('_', '')) != float('inf'):
            return t + 'j'


def atom(rng):
    r = rng.random()
    if r < 0.30:
        return int_literal(rng)
    if r < 0.50:
        return float_literal(rng)
    if r < 0.56:
        return imag_literal(rng)
    if r < 0.92:
        return rng.choice(MIX)
    return rng.choice(['True', 'False', 'None', "'ab'", "b'ab'", "'\\x00'", "'\\xe9'", "''"])


INT_BINOPS = ['+', '-', '*', '//', '%', '&', '|', '^', '<<', '>>', '**', '/']
FLT_BINOPS = ['+', '-', '*', '/', '//', '%']
CMPOPS = ['<', '<=', '==', '!=', '>', '>=']


def small_int(rng):
    return str(rng.choice([0, 1, 2, 3, 5, 7, 8, 15, 16, 29, 30, 31, 32, 33, 59, 60, 61, 62, 63, 64, 65, 100, 127]))


def num_operand(rng, kind):
    if kind == 'int':
        s = int_literal(rng) if rng.random() < 0.8 else rng.choice(['True', 'False'])
    else:
        s = float_literal(rng) if rng.random() < 0.8 else rng.choice(['0.0', '1.0', '2.0', '0.5'])
    if rng.random() < 0.3:
        s = '-' + s
        if rng.random() < 0.5:
            s = '(%s)' % s
    return s


def fold_expr(rng, depth=0):
    """an arithmetic / logical expression over constants"""
    r = rng.random()
    if depth >= 2 or r < 0.12:
        a = atom(rng)
        return a
    if r < 0.27:
        op = rng.choice(['-', '-', '+', '~', 'not ', '--', '-+', '- -', '~-', '-~'])
        if '~' in op:
            operand = num_operand(rng, 'int')
        elif op == 'not ':
            operand = fold_expr(rng, depth + 1)
        else:
            operand = num_operand(rng, rng.choice(['int', 'float'])) if rng.random() < 0.7 else imag_literal(rng)
        return '%s(%s)' % (op, operand) if rng.random() < 0.5 or not operand[0].isalnum() else op + operand
    if r < 0.62:
        kind = rng.choice(['int', 'int', 'float', 'mixed'])
        if kind == 'int':
            op = rng.choice(INT_BINOPS)
            a = num_operand(rng, 'int') if rng.random() < 0.75 else '(%s)' % fold_expr(rng, depth + 1)
            if op in ('<<', '>>'):
                b = small_int(rng) if rng.random() < 0.8 else str(rng.randrange(0, 300))
            elif op == '**':
                a = rng.choice(['2', '3', '10', '-2', '(-2)', '7', '0', '1', '-1', '(-1)', '255', '65536',
                                '2.0', '-2.0', '(-2.0)', '0.0', '(-0.0)', '10.0', '0.5', 'True', 'False'])
                b = rng.choice(['0', '1', '2', '3', '10', '31', '32', '62', '63', '64', '65', '100', '-1', '-2', '-3',
                                '(-1)', '(-2)', '-64', 'True', 'False', '0.5', '-0.5', '2.0', '-1.0', '0.0', '-0.0'])
            else:
                b = num_operand(rng, 'int')
        elif kind == 'float':
            op = rng.choice(FLT_BINOPS)
            a, b = num_operand(rng, 'float'), num_operand(rng, 'float')
        else:
            op = rng.choice(FLT_BINOPS)
            a, b = num_operand(rng, 'int'), num_operand(rng, 'float')
            if rng.random() < 0.5:
                a, b = b, a
        return '%s %s %s' % (a, op, b)
    if r < 0.74:
        n = rng.choice([2, 2, 3])
        parts = [num_operand(rng, rng.choice(['int', 'float'])) if rng.random() < 0.6 else rng.choice(MIX[:16])
                 for _ in range(n)]
        ops = [rng.choice(CMPOPS) for _ in range(n - 1)]
        if any(p in ("''", "b''", 'None', "'a'", "b'a'") or 'j' in p for p in parts):
            ops = [rng.choice(['==', '!=']) for _ in ops]
        s = parts[0]
        for o, p in zip(ops, parts[1:]):
            s += ' %s %s' % (o, p)
        return s
    if r < 0.86:
        a, b = rng.choice(MIX), rng.choice(MIX)
        return '%s %s %s' % (a, rng.choice(['and', 'or']), b)
    if r < 0.93:
        return '%s if %s else %s' % (rng.choice(MIX), rng.choice(MIX), rng.choice(MIX))
    # membership in a constant collection
    items = [rng.choice(MIX[:20]) for _ in range(rng.randrange(1, 5))]
    op, cl = rng.choice([('(', ',)'), ('[', ']'), ('{', '}')])
    return '%s %s %s%s%s' % (rng.choice(MIX[:20]), rng.choice(['in', 'not in']), op, ', '.join(items), cl)


def element(rng, depth):
    r = rng.random()
    if r < 0.62:
        return rng.choice(MIX)
    if r < 0.75 and depth < 2:
        return container(rng, depth + 1, kinds=('tuple',))
    if r < 0.85:
        return atom(rng)
    if r < 0.95:
        e = fold_expr(rng, 1)
        return '(%s)' % e
    return rng.choice(['1e400', '-1e400', '2**63', '-2**63', '2**64', '10**13', '0xffffffffffffffff'])


def container(rng, depth=0, kinds=('tuple', 'tuple', 'tuple', 'frozenset', 'slice', 'list', 'set', 'dict', 'subscr',
                                   'multuple', 'multuple')):
    kind = rng.choice(kinds)
    n = rng.choice([1, 2, 2, 2, 3, 3, 4, 6])
    items = [element(rng, depth) for _ in range(n)]
    if kind == 'tuple':
        return '(%s,)' % ', '.join(items) if n == 1 or rng.random() < 0.2 else '(%s)' % ', '.join(items)
    if kind == 'multuple':
        # (bool multipliers make the generated C fail to compile on this tree - a C43 matter - so they are not drawn)
        m = rng.choice(['0', '1', '2', '3', '3', '5', '-1'])
        t = '(%s,)' % ', '.join(items[:rng.choice([1, 1, 2, 3])])
        if rng.random() < 0.15:
            t = '[%s]' % t[1:-2]
        return '%s * %s' % (t, m) if rng.random() < 0.7 else '%s * %s' % (m, t)
    if kind == 'frozenset':
        items = [i for i in items if not i.startswith(('[', '{'))]
        o, c = rng.choice([('(', ',)'), ('[', ']'), ('{', '}')])
        return 'frozenset(%s%s%s)' % (o, ', '.join(items), c)
    if kind == 'slice':
        k = rng.choice([1, 2, 3, 3])
        return 'slice(%s)' % ', '.join(items[:k] + [rng.choice(MIX) for _ in range(k - len(items[:k]))])
    if kind == 'subscr':
        k = rng.choice([2, 3])
        its = (items + [rng.choice(MIX), rng.choice(MIX)])[:k]
        # tuple-valued bounds make the generated C fail to compile (ctuple passed as Py_ssize_t, C43 matter)
        its = [i if not (i.startswith('(') and i.endswith(')') and ',' in i) else rng.choice(MIX[:22]) for i in its]
        its = [i if rng.random() < 0.8 else '' for i in its]
        return 'GETKEY[%s]' % ':'.join(its)
    if kind == 'list':
        return '[%s]' % ', '.join(items)
    if kind == 'set':
        return '{%s}' % ', '.join(items)
    return '{%s}' % ', '.join('%s: %s' % (k, rng.choice(MIX)) for k in items)


class _GetKey:
    def __getitem__(self, k):
        return k


PRELUDE = '''
class _GetKey:
    def __getitem__(self, k):
        return k
GETKEY = _GetKey()
'''


def evaluate(text):
    """CPython's value of the expression, or None when it raises / warns / is too large"""
    with warnings.catch_warnings():
        warnings.simplefilter('error')
        try:
            code = compile(text, '<constexpr>', 'eval')
            return True, eval(code, {'__builtins__': {'frozenset': frozenset, 'slice': slice}, 'GETKEY': _GetKey()})
        except BaseException:
            return False, None


def _real_pow_with_complex_result(text):
    """`(-2.0) ** 0.5`: CPython gives a complex; on this tree ConstantFolding builds FloatNode(value=str(complex)) and the
    compiler crashes (a C43 matter) - one such expression would take its whole module with it, so they are not drawn"""
    import ast
    try:
        tree = ast.parse(text, mode='eval')
    except SyntaxError:
        return False
    for node in ast.walk(tree):
        if isinstance(node, ast.BinOp) and isinstance(node.op, ast.Pow):
            try:
                l = eval(compile(ast.Expression(node.left), '<e>', 'eval'), {'__builtins__': {}}, {})
                r = eval(compile(ast.Expression(node.right), '<e>', 'eval'), {'__builtins__': {}}, {})
                v = l ** r
            except Exception:
                continue
            if isinstance(v, complex) and not isinstance(l, complex) and not isinstance(r, complex):
                return True
    return False


def generate(rng, n, pool_bias=0.5):
    """n expressions (text) accepted by CPython; duplicates in text are intentional (pooling)"""
    out = []
    tries = 0
    while len(out) < n and tries < n * 20:
        tries += 1
        r = rng.random()
        if r < 0.30:
            e = fold_expr(rng)
        elif r < 0.40:
            e = atom(rng) if rng.random() < 0.7 else '-' + atom(rng)
        else:
            e = container(rng)
        if len(e) > 6000:
            continue
        ok, _ = evaluate(e)
        if ok and '**' in e and _real_pow_with_complex_result(e):
            continue
        if ok:
            out.append(e)
    return out
