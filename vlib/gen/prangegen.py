"""prange workload for C37: one .pyx module with every body x schedule x chunk variant, plus C helpers
(seeded per-iteration delays, failpoint implementation counting hits per site)."""

HEAD = r'''
# cython: language_level=3, boundscheck=False, wraparound=False
from cython.parallel cimport prange, parallel
cimport openmp

cdef extern from *:
    """
    #include <unistd.h>
    #include <sched.h>
    static int verif_fp_seed = 0;
    static long verif_fp_hits[4] = {0, 0, 0, 0};
    static unsigned verif_mix(unsigned x) { x ^= x >> 13; x *= 0x5bd1e995u; x ^= x >> 15; x *= 0x2545F491u; x ^= x >> 16; return x; }
    static void verif_delay(long i, int seed) {
        unsigned x;
        if (!seed) return;
        x = verif_mix((unsigned)(i * 2654435761u) ^ ((unsigned)seed * 40503u));
        switch (x & 7) { case 0: usleep((x >> 8) & 127); break; case 1: case 2: sched_yield(); break; default: break; }
    }
    static void verif_failpoint(int site) {
        unsigned x;
        __atomic_fetch_add(&verif_fp_hits[site & 3], 1, __ATOMIC_RELAXED);
        if (!verif_fp_seed) return;
    #ifdef _OPENMP
        x = verif_mix((unsigned)omp_get_thread_num() * 97u + (unsigned)site * 7919u + (unsigned)verif_fp_seed + (unsigned)verif_fp_hits[site & 3]);
    #else
        x = verif_mix((unsigned)site * 7919u + (unsigned)verif_fp_seed);
    #endif
        switch (x & 3) { case 0: usleep((x >> 8) & 255); break; case 1: sched_yield(); break; default: break; }
    }
    #define __PYX_VERIF_FAILPOINT(n) verif_failpoint(n)
    """
    int verif_fp_seed
    long verif_fp_hits[4]
    void verif_delay(long i, int seed) nogil
    void verif_failpoint(int site) nogil


def fp_config(int seed):
    global verif_fp_seed
    verif_fp_seed = seed
    verif_fp_hits[0] = verif_fp_hits[1] = verif_fp_hits[2] = verif_fp_hits[3] = 0

def fp_hits():
    return [verif_fp_hits[0], verif_fp_hits[1], verif_fp_hits[2], verif_fp_hits[3]]

def set_runtime_schedule(int kind, int chunk):
    # kind: 1 static, 2 dynamic, 3 guided, 4 auto
    openmp.omp_set_schedule(<openmp.omp_sched_t>kind, chunk)

def have_openmp():
    cdef int n = 0
    cdef int i
    for i in prange(64, nogil=True, num_threads=3, schedule='static', chunksize=1):
        n += (openmp.omp_get_num_threads() == 3)
    return n == 64

'''

# {S} = schedule clause text (", schedule='dynamic', chunksize=chunk" etc.), {N} = function name
BODIES = {
    # ---- pure bodies: results must equal the sequential loop
    'red': '''
def {N}(Py_ssize_t start, Py_ssize_t stop, Py_ssize_t step, int nt, int chunk, int dseed):
    cdef Py_ssize_t i = -777
    cdef long s = 0, sub = 0
    cdef long x = 0, o = 0
    cdef long long m = 1
    cdef double d = 0.0
    for i in prange(start, stop, step, nogil=True, num_threads=nt{S}):
        verif_delay(i, dseed)
        s += i * 3 + (i & 5)
        sub -= i
        x ^= (i * 40503) & 0xFFFF
        o |= (<long>1 << (i & 31))
        m *= (1 if (i & 3) else -1)
        d += i * 0.5
    return s, sub, x, o, m, d, i
''',
    'last': '''
def {N}(Py_ssize_t start, Py_ssize_t stop, Py_ssize_t step, int nt, int chunk, int dseed):
    cdef Py_ssize_t i = -777
    cdef long last = -555
    cdef double lastd = -1.5
    for i in prange(start, stop, step, nogil=True, num_threads=nt{S}):
        verif_delay(i, dseed)
        last = i * 2 + 1
        lastd = i * 0.25
    return last, lastd, i
''',
    'write': '''
def {N}(Py_ssize_t start, Py_ssize_t stop, Py_ssize_t step, int nt, int chunk, int dseed, int[::1] out, int[::1] tid, Py_ssize_t off):
    cdef Py_ssize_t i = -777
    for i in prange(start, stop, step, nogil=True, num_threads=nt{S}):
        verif_delay(i, dseed)
        out[i + off] = <int>(i * 7 + 1)
        tid[i + off] = openmp.omp_get_thread_num()
    return i
''',
    'nested': '''
def {N}(Py_ssize_t start, Py_ssize_t stop, Py_ssize_t step, int nt, int chunk, int dseed):
    cdef Py_ssize_t i = -777
    cdef long s = 0
    cdef list seen = []
    with nogil, parallel(num_threads=nt):
        for i in prange(start, stop, step{S}):
            verif_delay(i, dseed)
            s += i
            if (i & 3) == 0:
                with gil:
                    seen.append(i)
    return s, sorted(seen), i
''',
    'gilobj': '''
def {N}(Py_ssize_t start, Py_ssize_t stop, Py_ssize_t step, int nt, int chunk, int dseed, mk):
    cdef Py_ssize_t i = -777
    cdef long s = 0
    cdef list objs = []
    for i in prange(start, stop, step, nogil=True, num_threads=nt{S}):
        verif_delay(i, dseed)
        s += i
        with gil:
            objs.append(mk(i))
    return s, sorted(o.v for o in objs), i
''',
    # ---- exits
    'raise': '''
def {N}(Py_ssize_t start, Py_ssize_t stop, Py_ssize_t step, int nt, int chunk, int dseed, exc, int mod, int rem, int[::1] raised, Py_ssize_t off):
    cdef Py_ssize_t i = -777
    cdef long s = 0
    for i in prange(start, stop, step, nogil=True, num_threads=nt{S}):
        verif_delay(i, dseed)
        s += 1
        if (i % mod + mod) % mod == rem:
            raised[i + off] = 1
            with gil:
                raise exc(i)
    return ('done', s)
''',
    'break': '''
def {N}(Py_ssize_t start, Py_ssize_t stop, Py_ssize_t step, int nt, int chunk, int dseed, int mod, int rem):
    cdef Py_ssize_t i = -777
    cdef long s = 0
    for i in prange(start, stop, step, nogil=True, num_threads=nt{S}):
        verif_delay(i, dseed)
        if (i % mod + mod) % mod == rem:
            break
        s += 1
    return ('done', s >= 0)
''',
    'rbreak': '''
def {N}(Py_ssize_t start, Py_ssize_t stop, Py_ssize_t step, int nt, int chunk, int dseed, exc, int mod, int[::1] raised, Py_ssize_t off):
    # raise in some iterations, break in others, no return anywhere in the loop
    cdef Py_ssize_t i = -777
    cdef int k
    cdef long s = 0
    for i in prange(start, stop, step, nogil=True, num_threads=nt{S}):
        k = (i % mod + mod) % mod
        if k == 1:
            raised[i + off] = 1
            with gil:
                raise exc(i)
        verif_delay(i, dseed)
        if k == 3:
            break
        s += 1
    return ('done', s >= 0)
''',
    'ret': '''
cdef long {N}_c(Py_ssize_t start, Py_ssize_t stop, Py_ssize_t step, int nt, int chunk, int dseed, int mod, int rem) noexcept nogil:
    cdef Py_ssize_t i
    for i in prange(start, stop, step, num_threads=nt{S}):
        verif_delay(i, dseed)
        if (i % mod + mod) % mod == rem:
            return 1000000 + i
    return -1

def {N}(Py_ssize_t start, Py_ssize_t stop, Py_ssize_t step, int nt, int chunk, int dseed, int mod, int rem):
    cdef long r
    with nogil:
        r = {N}_c(start, stop, step, nt, chunk, dseed, mod, rem)
    return ('ret', r)
''',
    'mix': '''
cdef long {N}_c(Py_ssize_t start, Py_ssize_t stop, Py_ssize_t step, int nt, int chunk, int dseed, exc, int mod,
                int[::1] raised, Py_ssize_t off) except? -2 nogil:
    cdef Py_ssize_t i
    cdef int k
    for i in prange(start, stop, step, num_threads=nt{S}):
        verif_delay(i, dseed)
        k = (i % mod + mod) % mod
        if k == 1:
            raised[i + off] = 1
            with gil:
                raise exc(i)
        elif k == 2:
            return 1000000 + i
        elif k == 3:
            break
    return -1

def {N}(Py_ssize_t start, Py_ssize_t stop, Py_ssize_t step, int nt, int chunk, int dseed, exc, int mod, int[::1] raised, Py_ssize_t off):
    cdef long r
    with nogil:
        r = {N}_c(start, stop, step, nt, chunk, dseed, exc, mod, raised, off)
    return ('ret', r)
''',
}

SCHEDULES = {
    'none': '',
    'static': ", schedule='static'",
    'staticc': ", schedule='static', chunksize=chunk",
    'dynamic': ", schedule='dynamic'",
    'dynamicc': ", schedule='dynamic', chunksize=chunk",
    'guided': ", schedule='guided'",
    'guidedc': ", schedule='guided', chunksize=chunk",
    'runtime': ", schedule='runtime'",
}


def module_source(bodies=None, schedules=None):
    parts = [HEAD]
    names = []
    for b in (bodies or BODIES):
        for s in (schedules or SCHEDULES):
            n = 'p_%s_%s' % (b, s)
            parts.append(BODIES[b].replace('{N}', n).replace('{S}', SCHEDULES[s]))
            names.append((n, b, s))
    return '\n'.join(parts), names
