"""C45 workload generator: modules of compiled functions that form call trees (depth-limited DAG + recursion) with
every exit path kind: normal return, raise (caught by the caller / propagating), try/finally, early return inside
try/finally and `with`, loops with early return, recursion, generators (for-consumed, interleaved, closed, thrown into,
abandoned), coroutines (nested await, suspension), cdef / cpdef / noexcept / nogil functions, calls back into pure-Python
functions.

Ground truth without changing the structure of the functions: every function takes the id `s` of the call site it was
called from and, as its first statement, writes the marker (1, own function id, s) into a C log kept by an *untraced*
helper module (c45log).  The generator knows which function owns each call site, so the monitor knows the true caller
of every activation.  Further markers: (2, fid, 0) right before a raise, (3, fid, k) right before a yield,
(4, fid, 0) right before closing / throwing into / dropping a generator, (5, fid, 0) when a return statement inside
try/finally or with is about to execute."""

LOG_PXD = '''cdef void mark(int code, int a, int b) noexcept nogil
'''

LOG_PYX = '''# cython: language_level=3, profile=False, linetrace=False
# markers written by the traced modules; this module itself is never traced
cdef enum:
    CAP = 3000000
cdef int _buf[CAP]
cdef int _n = 0
cdef int _overflow = 0

cdef void mark(int code, int a, int b) noexcept nogil:
    global _n, _overflow
    if _n + 3 > CAP:
        _overflow = 1
        return
    _buf[_n] = code
    _buf[_n + 1] = a
    _buf[_n + 2] = b
    _n += 3

def pymark(int code, int a, int b):
    mark(code, a, b)

def count():
    return _n // 3

def overflow():
    return _overflow

def reset():
    global _n, _overflow
    _n = 0
    _overflow = 0

def dump(int start=0):
    cdef int i
    return [(_buf[3 * i], _buf[3 * i + 1], _buf[3 * i + 2]) for i in range(start, _n // 3)]
'''

# template kind -> which Python-level kinds of function can carry it
DEF_TEMPLATES = ['plain', 'raise_cond', 'raise_always', 'catch', 'propagate', 'finally', 'ret_in_try_finally', 'with',
                 'ret_in_with', 'loop', 'early_ret_loop', 'rec', 'gen_for', 'gen_interleave', 'gen_close', 'gen_throw',
                 'gen_abandon', 'coro_drive', 'pycallback', 'ret_in_try_finally_raises', 'nested_try', 'call_nogil',
                 'ret_in_try_finally_override']
CDEF_TEMPLATES = ['plain', 'raise_cond', 'catch', 'finally', 'loop', 'rec', 'ret_in_try_finally', 'propagate']
GEN_TEMPLATES = ['gen_plain', 'gen_finally', 'gen_catch', 'gen_nested']
CORO_TEMPLATES = ['coro_plain', 'coro_suspend', 'coro_raise']
NOGIL_TEMPLATES = ['nogil_plain', 'nogil_rec']


class Fn:
    def __init__(self, fid, kind, template):
        self.fid, self.kind, self.template = fid, kind, template
        self.name = {'def': 'f', 'cdef': 'cf', 'cpdef': 'cpf', 'cdef_noexcept': 'cnf', 'nogil': 'ng', 'gen': 'g',
                     'coro': 'co', 'py': 'pycb', 'aux': 'aux'}[kind] + str(fid)
        self.first = self.last = 0
        self.sites = []
        self.lines = []


class ModuleGen:
    def __init__(self, rng, modname, nfuncs, pymod):
        self.rng = rng
        self.modname = modname
        self.pymod = pymod
        self.fns = []
        self.site_owner = {}
        self.nsite = 0
        self.nfuncs = nfuncs
        self.py_fns = []
        self.aux = []       # (name hint, fid) for methods of helper classes
        self.extra_classes = []
        self.referenced = set()

    def site(self, owner):
        self.nsite += 1
        self.site_owner[self.nsite] = owner
        return self.nsite

    # ---------------------------------------------------------------- planning
    def plan(self):
        rng = self.rng
        kinds = []
        n = self.nfuncs
        # a fixed share of every kind so that each exit path is present in every module
        tail = [('nogil', t) for t in NOGIL_TEMPLATES] + [('gen', t) for t in GEN_TEMPLATES] + \
               [('coro', t) for t in CORO_TEMPLATES] + \
               [('cdef', t) for t in CDEF_TEMPLATES] + [('cpdef', 'plain'), ('cpdef', 'raise_cond'), ('cpdef', 'catch'),
                                                        ('cdef_noexcept', 'raise_cond'), ('cdef_noexcept', 'plain'),
                                                        ('def', 'plain'), ('def', 'raise_cond'), ('def', 'plain')]
        heads = [('def', t) for t in DEF_TEMPLATES]
        while len(heads) + len(tail) < n:
            heads.append(('def', rng.choice(DEF_TEMPLATES)))
        rng.shuffle(heads)
        mid = tail[:]
        rng.shuffle(mid)
        # def functions first (roots), callee-only kinds later: callees always have a larger index
        order = heads + mid
        for i, (k, t) in enumerate(order):
            self.fns.append(Fn(i, k, t))

    def callee(self, fn, want=('def', 'cdef', 'cpdef', 'cdef_noexcept')):
        """a function with a larger index of one of the wanted kinds (None if there is none)"""
        c = [g for g in self.fns if g.fid > fn.fid and g.kind in want]
        if not c:
            return None
        fresh = [g for g in c if g.fid not in self.referenced]
        g = self.rng.choice(fresh or c)
        self.referenced.add(g.fid)
        return g

    def call(self, fn, ind, want=('def', 'cdef', 'cpdef', 'cdef_noexcept'), assign=None):
        """lines for one guarded call of a later function"""
        g = self.callee(fn, want)
        if g is None:
            return [ind + 'pass']
        s = self.site(fn.fid)
        fn.sites.append(s)
        tgt = (assign + ' = ') if assign else ''
        return [ind + 'if d > 0:', ind + '    %s%s(%d, d - 1)' % (tgt, g.name, s)]

    # ---------------------------------------------------------------- bodies
    def body(self, fn):
        rng = self.rng
        F = fn.fid
        t = fn.template
        I = '    '
        L = [I + 'mark(1, %d, s)' % F]
        if fn.kind in ('cdef', 'cpdef', 'cdef_noexcept', 'nogil'):
            L.insert(0, I + 'cdef int r = 0')
        else:
            L.insert(0, I + 'r = 0')
        c = lambda ind=I, **kw: self.call(fn, ind, **kw)
        if t == 'plain':
            for _ in range(rng.randint(1, 3)):
                L += c()
            L += [I + 'return d']
        elif t == 'raise_cond':
            L += c()
            L += [I + 'if (d + s) % 3 != 0:', I + '    mark(2, %d, 0)' % F, I + "    raise ValueError('e%d')" % F]
            L += c()
            L += [I + 'return d']
        elif t == 'raise_always':
            L += c()
            L += [I + 'mark(2, %d, 0)' % F, I + "raise KeyError('k%d')" % F]
        elif t == 'catch':
            L += [I + 'try:'] + c(I * 2) + c(I * 2) + [I + 'except (ValueError, KeyError):'] + c(I * 2) + [I * 2 + 'r = 1']
            L += [I + 'return r']
        elif t == 'propagate':
            L += c() + c() + [I + 'return 2']
        elif t == 'finally':
            L += [I + 'try:'] + c(I * 2) + [I + 'finally:'] + c(I * 2)
            L += [I + 'return 3']
        elif t == 'ret_in_try_finally':
            g = self.callee(fn)
            s = self.site(F)
            L += [I + 'try:', I * 2 + 'mark(5, %d, 0)' % F,
                  I * 2 + ('return %s(%d, d - 1) if d > 0 else 0' % (g.name, s) if g is not None else 'return 0'),
                  I + 'finally:'] + c(I * 2)
        elif t == 'ret_in_try_finally_raises':
            L += [I + 'try:', I * 2 + 'mark(5, %d, 0)' % F, I * 2 + 'return d', I + 'finally:'] + c(I * 2)
            L += [I * 2 + 'if d % 2 == 0:', I * 3 + 'mark(2, %d, 0)' % F, I * 3 + "raise ValueError('f%d')" % F]
        elif t == 'ret_in_try_finally_override':
            L += [I + 'try:'] + c(I * 2) + [I * 2 + 'mark(5, %d, 0)' % F, I * 2 + 'return 1', I + 'finally:'] + c(I * 2)
            L += [I * 2 + 'if d % 2 == 1:', I * 3 + 'mark(5, %d, 1)' % F, I * 3 + 'return 2']
        elif t == 'nested_try':
            L += [I + 'try:', I * 2 + 'try:'] + c(I * 3) + [I * 2 + 'finally:'] + c(I * 3)
            L += [I + 'except ValueError:'] + c(I * 2) + [I + 'return 4']
        elif t in ('with', 'ret_in_with'):
            cm = self.new_cm(fn)
            s = self.site(F)
            L += [I + 'with %s(%d):' % (cm, s)]
            if t == 'with':
                L += c(I * 2)
                L += [I + 'return 5']
            else:
                g = self.callee(fn)
                s2 = self.site(F)
                L += [I * 2 + 'mark(5, %d, 0)' % F,
                      I * 2 + ('return %s(%d, d - 1) if d > 0 else 0' % (g.name, s2) if g is not None else 'return 0')]
        elif t == 'loop':
            L += [I + 'for k in range(2):'] + c(I * 2) + [I + 'return 6']
        elif t == 'early_ret_loop':
            L += [I + 'for k in range(3):', I * 2 + 'if k == 1:', I * 3 + 'return 7'] + c(I * 2)
            L += [I + 'return 8']
        elif t == 'rec':
            s = self.site(F)
            L += [I + 'if d > 0:', I * 2 + '%s(%d, d - 1)' % (fn.name, s)] + c() + [I + 'return 9']
        elif t == 'call_nogil':
            L.insert(0, I + 'cdef int rr = 0')
            for _ in range(2):
                g = self.callee(fn, ('nogil',))
                if g is not None:
                    s = self.site(F)
                    L += [I + 'if d > 0:', I * 2 + 'with nogil:', I * 3 + 'rr = %s(%d, d - 1)' % (g.name, s)]
            L += c() + [I + 'return 10']
        elif t == 'gen_for':
            g = self.callee(fn, ('gen',))
            if g is not None:
                s = self.site(F)
                L += [I + 'if d > 0:', I * 2 + 'for x in %s(%d, d - 1):' % (g.name, s)] + c(I * 3)
            L += [I + 'return 11']
        elif t == 'gen_interleave':
            g1, g2 = self.callee(fn, ('gen',)), self.callee(fn, ('gen',))
            if g1 is not None:
                s1, s2 = self.site(F), self.site(F)
                L += [I + 'if d > 0:', I * 2 + 'a = %s(%d, d - 1)' % (g1.name, s1), I * 2 + 'b = %s(%d, d - 1)' % (g2.name, s2),
                      I * 2 + 'for k in range(4):', I * 3 + 'next(a, None)', I * 3 + 'next(b, None)']
                L += c(I * 3)
            L += [I + 'return 12']
        elif t in ('gen_close', 'gen_throw', 'gen_abandon'):
            g = self.callee(fn, ('gen',))
            if g is not None:
                s = self.site(F)
                L += [I + 'if d > 0:', I * 2 + 'a = %s(%d, d - 1)' % (g.name, s), I * 2 + 'next(a, None)',
                      I * 2 + 'mark(4, %d, 0)' % F]
                if t == 'gen_close':
                    L += [I * 2 + 'a.close()']
                elif t == 'gen_throw':
                    L += [I * 2 + 'try:', I * 3 + "a.throw(ValueError('thrown'))", I * 2 + 'except (ValueError, StopIteration, KeyError):',
                          I * 3 + 'pass']
                else:
                    L += [I * 2 + 'del a']
                L += c(I * 2)
            L += [I + 'return 13']
        elif t == 'coro_drive':
            for _ in range(3):
                g = self.callee(fn, ('coro',))
                if g is not None:
                    s = self.site(F)
                    L += [I + 'if d > 0:', I * 2 + 'co = %s(%d, d - 1)' % (g.name, s), I * 2 + 'try:', I * 3 + 'while True:',
                          I * 4 + 'co.send(None)'] + c(I * 4) + [I * 2 + 'except (StopIteration, ValueError, KeyError):', I * 3 + 'pass']
            L += [I + 'return 14']
        elif t == 'pycallback':
            g = self.callee(fn, ('def',))
            if g is not None:
                p = self.new_pyfn(g)
                s = self.site(F)
                L += [I + 'if d > 0:', I * 2 + 'try:', I * 3 + '_py.%s(%s, %d, d - 1)' % (p.name, g.name, s),
                      I * 2 + 'except (ValueError, KeyError):', I * 3 + 'pass']
            L += [I + 'return 15']
        # ---- generators
        elif t == 'gen_plain':
            L += [I + 'for k in range(2):'] + c(I * 2) + [I * 2 + 'mark(3, %d, k)' % F, I * 2 + 'yield k']
        elif t == 'gen_finally':
            L += [I + 'try:', I * 2 + 'mark(3, %d, 0)' % F, I * 2 + 'yield 0'] + c(I * 2) + \
                 [I * 2 + 'mark(3, %d, 1)' % F, I * 2 + 'yield 1', I + 'finally:'] + c(I * 2)
        elif t == 'gen_catch':
            L += [I + 'try:', I * 2 + 'mark(3, %d, 0)' % F, I * 2 + 'yield 0', I + 'except ValueError:'] + c(I * 2) + \
                 [I * 2 + 'mark(3, %d, 1)' % F, I * 2 + 'yield 1']
            L += c()
        elif t == 'gen_nested':
            g = self.callee(fn, ('gen',))
            if g is not None:
                s = self.site(F)
                L += [I + 'if d > 0:', I * 2 + 'for x in %s(%d, d - 1):' % (g.name, s), I * 3 + 'mark(3, %d, 0)' % F, I * 3 + 'yield x']
            L += [I + 'mark(3, %d, 1)' % F, I + 'yield -1']
        # ---- coroutines
        elif t == 'coro_plain':
            L += c()
            g = self.callee(fn, ('coro',))
            if g is not None:
                s = self.site(F)
                L += [I + 'if d > 0:', I * 2 + 'await %s(%d, d - 1)' % (g.name, s)]
            L += [I + 'return 16']
        elif t == 'coro_suspend':
            L += c() + [I + 'mark(3, %d, 0)' % F, I + 'await _Susp()'] + c() + [I + 'return 17']
        elif t == 'coro_raise':
            L += [I + 'mark(3, %d, 0)' % F, I + 'await _Susp()', I + 'if d % 2 == 0:', I * 2 + 'mark(2, %d, 0)' % F,
                  I * 2 + "raise ValueError('c%d')" % F, I + 'return 18']
        # ---- nogil
        elif t == 'nogil_plain':
            L += self.call(fn, I, want=('nogil',)) + [I + 'return d']
        elif t == 'nogil_rec':
            s = self.site(F)
            L += [I + 'if d > 0:', I * 2 + 'r = %s(%d, d - 1)' % (fn.name, s), I + 'return r + 1']
        else:
            raise ValueError(t)
        return L

    def new_cm(self, fn):
        fe = Fn(len(self.fns) + len(self.aux) + 1000, 'aux', 'cm_enter')
        fx = Fn(len(self.fns) + len(self.aux) + 1001, 'aux', 'cm_exit')
        self.aux += [fe, fx]
        name = 'CM%d' % fn.fid
        self.extra_classes.append((name, fe, fx))
        return name

    def new_pyfn(self, target):
        p = Fn(len(self.py_fns) + getattr(self, 'py_base', 5000), 'py', 'pycb')
        s = self.site(p.fid)
        p.sites.append(s)
        p.target_site = s
        self.py_fns.append(p)
        return p

    # ---------------------------------------------------------------- emission
    def emit(self, header):
        self.plan()
        lines = [header, 'from c45log cimport mark', 'import %s as _py' % self.pymod, '']
        lines += ['class _Susp:', '    def __await__(self):', '        yield 1', '']
        susp_first = len(lines) - 2
        bodies = []
        # bodies must be generated in index order (callee choice uses the complete plan)
        for fn in self.fns:
            fn.lines = self.body(fn)
        for name, fe, fx in self.extra_classes:
            fe.first = len(lines) + 4
            fx.first = len(lines) + 7
            lines += ['class %s:' % name, '    def __init__(self, s):', '        self.s = s',
                      '    def __enter__(self):', '        mark(1, %d, self.s)' % fe.fid, '        return self',
                      '    def __exit__(self, *a):', '        mark(1, %d, self.s)' % fx.fid, '        return False', '']
            fe.last = fe.first + 2
            fx.last = fx.first + 2
        for fn in self.fns:
            fn.first = len(lines) + 1
            lines.append(self.signature(fn))
            lines += fn.lines
            fn.last = len(lines)
            lines.append('')
        src = '\n'.join(lines) + '\n'
        table = {}
        for fn in self.fns + self.aux:
            table[fn.fid] = {'name': fn.name, 'kind': fn.kind, 'template': fn.template, 'first': fn.first, 'last': fn.last,
                             'file': self.modname}
        table[9000] = {'name': '__await__', 'kind': 'aux', 'template': 'susp_await', 'first': susp_first, 'last': susp_first + 1,
                       'file': self.modname}
        return src, table

    def signature(self, fn, decl=False):
        end = '' if decl else ':'
        if fn.kind == 'def':
            return 'def %s(int s, int d):' % fn.name
        if fn.kind == 'gen':
            return 'def %s(int s, int d):' % fn.name
        if fn.kind == 'coro':
            return 'async def %s(int s, int d):' % fn.name
        if fn.kind == 'cdef':
            return 'cdef int %s(int s, int d) except? -1%s' % (fn.name, end)
        if fn.kind == 'cpdef':
            return 'cpdef int %s(int s, int d) except? -1%s' % (fn.name, end)
        if fn.kind == 'cdef_noexcept':
            return 'cdef int %s(int s, int d) noexcept%s' % (fn.name, end)
        if fn.kind == 'nogil':
            return 'cdef int %s(int s, int d) noexcept nogil%s' % (fn.name, end)
        raise ValueError(fn.kind)


def gen_pymodule(gens):
    """pure-Python callback module shared by all traced modules; returns (text, table)"""
    lines = ['from c45log import pymark', '']
    table = {}
    for mg in gens:
        for p in mg.py_fns:
            p.first = len(lines) + 1
            lines += ['def %s(fn, s, d):' % p.name, '    pymark(1, %d, s)' % p.fid,
                      '    return fn(%d, d)' % p.target_site]
            p.last = len(lines)
            lines.append('')
            table[p.fid] = {'name': p.name, 'kind': 'py', 'template': 'pycb', 'first': p.first, 'last': p.last,
                            'file': mg.pymod}
    return '\n'.join(lines) + '\n', table
