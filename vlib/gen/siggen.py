"""Generator for C25: def statements with default expressions of many shapes, annotations, docstrings, in module,
class (nested) and closure scopes. Expressions are built fully parenthesised and normalised with ast.unparse (minimal
parentheses), evaluated once under CPython to keep only defaults that evaluate without error to small values."""
import ast

GLOBALS_SRC = "G0 = 'global0'\nG1 = (10, 20, 30)\nG2 = 7\nG3 = {'k': [1, 2]}\nG4 = 2.5\n"

ATOMS = ['0', '1', '2', '3', '7', '10', '255', '10**20', '0x10', '1_000', '1.5', '2.0', '1e100', '.5', '1e-7', "'a'", '"it\'s"',
         "'q\"uote'", "'\\xe9'", "'line\\nbreak'", "'\\\\'", "'tab\\t'", "'\\x00'", "'\\U0001f600'", "'\\u20ac'", "b'x'", "b'\\xff'",
         'b"it\'s"', 'None', 'True', 'False', '...', 'G0', 'G1', 'G2', 'G4', '()', '[]', '{}', "''", 'G3', '1j', '2.5j']
NUM_ATOMS = ['0', '1', '2', '3', '7', '10', '255', '1.5', '2.0', '.5', 'G2', 'G4', 'True', '10**3', '0x10']
INT_ATOMS = ['0', '1', '2', '3', '7', '10', '255', 'G2', '0x10', '6']
BINOPS = ['+', '-', '*', '/', '//', '%']
INTOPS = ['>>', '&', '|', '^']
CMPOPS = ['<', '<=', '==', '!=', '>', '>=', 'is', 'is not', 'in', 'not in']


class ExprGen:
    def __init__(self, rng, env):
        self.rng = rng
        self.env = env

    def num(self, d):
        rng = self.rng
        r = rng.random()
        if d <= 0 or r < .3:
            return rng.choice(NUM_ATOMS)
        if r < .52:
            return '(%s %s %s)' % (self.num(d - 1), rng.choice(BINOPS), self.num(d - 1))
        if r < .6:
            # powers only with small operands (an unbounded ** can take forever to evaluate)
            # (no fractional exponents: a constant-folded complex result crashes the compiler, C43-type defect)
            base = rng.choice(['2', '3', '(-2)', '(-(3))', '1.5', '(1 + 1)', 'G2', '(2 ** 2)', '(-1.5)', '(+2)', '(~1)', '(-G2)', '(-G4)',
                               '(~G2)', '(+G2)', '(-G1[0])', '(G2 ** 2)', '(G2 + 1)'])
            exp = rng.choice(['2', '3', '(-1)', '(1 + 1)', '(2 ** 2)', '(-(2))', 'G2', '(-G2)', '(G2 - 5)'])
            return '(%s ** %s)' % (base, exp)
        if r < .72:
            return '(%s(%s))' % (rng.choice(['-', '+', '-']), self.num(d - 1))
        if r < .8:
            return '(%s %s %s)' % (self.integer(d - 1), rng.choice(INTOPS), self.integer(d - 1))
        if r < .88:
            return '((%s) if (%s) else (%s))' % (self.num(d - 1), self.boolean(d - 1), self.num(d - 1))
        if r < .93:
            return '(%s)' % rng.choice(['G1[0]', 'G1[-1]', 'len(G1)', 'abs(-3)', 'max(1, 2)', 'int("5")', 'G2.real', 'G3["k"][0]', '(1, 2)[0]'])
        return '(~(%s))' % self.integer(d - 1)

    def integer(self, d):
        rng = self.rng
        if d <= 0 or rng.random() < .45:
            return rng.choice(INT_ATOMS)
        r = rng.random()
        if r < .6:
            return '(%s %s %s)' % (self.integer(d - 1), rng.choice(['+', '-', '*', '//', '%'] + INTOPS), self.integer(d - 1))
        if r < .8:
            return '(%s(%s))' % (rng.choice('-~+'), self.integer(d - 1))
        return '(%s ** %s)' % (rng.choice(['2', '3', '(-2)', '(1 + 2)', '(~1)', '7']), rng.choice(['2', '3', '(1 + 1)']))

    def boolean(self, d):
        rng = self.rng
        r = rng.random()
        if d <= 0 or r < .2:
            return rng.choice(['True', 'False', 'G2', 'None', "''", 'G0'])
        if r < .5:
            n = rng.choice([2, 2, 3])
            parts = [self.num(d - 1)]
            for _ in range(n - 1):
                op = rng.choice(CMPOPS[:6])
                parts += [op, self.num(d - 1)]
            return '(%s)' % ' '.join(parts)
        if r < .6:
            return '(%s %s %s)' % (self.num(d - 1), rng.choice(['in', 'not in']), rng.choice(['G1', '(1, 2, 3)', '[7, 10]', '{1, 2}']))
        if r < .8:
            return '((%s) %s (%s))' % (self.boolean(d - 1), rng.choice(['and', 'or']), self.boolean(d - 1))
        return '(not (%s))' % self.boolean(d - 1)

    def container(self, d):
        rng = self.rng
        r = rng.random()
        n = rng.randint(0, 3)
        items = [self.any(d - 1) for _ in range(n)]
        if r < .3:
            return '(%s%s)' % (', '.join(items), ',' if n == 1 else '')
        if r < .55:
            return '[%s]' % ', '.join(items)
        if r < .75:
            return '{%s}' % ', '.join('%s: %s' % (rng.choice(["'k%d'" % i, str(i), '(%d, %d)' % (i, i)]), it) for i, it in enumerate(items))
        if r < .85 and n:
            return '{%s}' % ', '.join(self.num(0) for _ in range(n))
        if r < .93:
            return '(%s)[%s]' % (rng.choice(['G1', '(1, 2, 3)', "'abc'"]), rng.choice(['0', '-1', '0:2', '::2', '1:', ':1']))
        return '(%s)' % rng.choice(['dict(a=1)', 'list(G1)', 'G0.upper()', "'-'.join(['a', 'b'])", 'G0 + "x"', "'a' * 3", "'%s' % 1", 'str(2)'])

    def any(self, d):
        rng = self.rng
        r = rng.random()
        if d <= 0 or r < .3:
            return rng.choice(ATOMS)
        if r < .55:
            return self.num(d)
        if r < .7:
            return self.boolean(d)
        if r < .9:
            return self.container(d)
        return '((%s) if (%s) else (%s))' % (self.any(d - 1), self.boolean(d - 1), self.any(d - 1))

    def default(self, d):
        """(minimal source text, needs_parens flag) of an expression that evaluates fine, or None"""
        for _ in range(20):
            raw = self.any(d)
            try:
                tree = ast.parse(raw, mode='eval')
                src = ast.unparse(tree)
                val = eval(compile(ast.parse(src, mode='eval'), '<d>', 'eval'), dict(self.env))
            except Exception:
                continue
            try:
                if isinstance(val, int) and abs(val) > 2 ** 200:
                    continue
                if isinstance(val, float) and val != val:
                    continue
                if len(repr(val)) > 300:
                    continue
            except Exception:
                continue
            return src, needs_parens(src)
        return '0', False


def needs_parens(src):
    """does the minimal source contain grouping parentheses that matter?"""
    stripped = src.replace('(', ' ').replace(')', ' ')
    try:
        return ast.dump(ast.parse(stripped, mode='eval')) != ast.dump(ast.parse(src, mode='eval'))
    except SyntaxError:
        return True


ANNOTATIONS = ['int', 'str', 'float', 'list', 'dict', 'object', 'list[int]', 'dict[str, int]', 'int | None', "'Forward'", 'tuple[int, ...]',
               'G2.__class__', 'None', 'bytes', "'list[int]'", 'type(None)', 'bool']
# annotations the compiler does not turn into C/exact types (annotation_typing stays at its default: on)
SAFE_ANNOTATIONS = ['object', "'Forward'", 'G2.__class__', 'G1', "'Also.Forward'", 'G3["k"]', 'object']
# typed annotations with a default of the matching type (a mismatching default is rejected at compile time)
TYPED_ANNOTATIONS = [('int', '3'), ('int', '-1'), ('float', '2.5'), ('str', "'s'"), ('list', '[]'), ('dict', '{}'), ('bool', 'True'), ('bytes', "b'x'"),
                     ('list[int]', '[1]'), ('dict[str, int]', "{'a': 1}"), ('tuple[int, ...]', '(1, 2)'), ('str', "'\\xe9'"), ('float', '-0.5'),
                     ('int', '10 ** 2'), ('int | None', 'None'), ("'list[int]'", '[2]'), ("'int'", '4'), ('int | None', '5')]
DOCS = [None, None, 'A docstring.', 'Multi\n    line\n    doc.', 'Non-ASCII: \\xe9 \\u20ac.', 'x', '  leading space', 'Args:\n        a: thing\n']
NAMES = ['a', 'b', 'c', 'dd', 'ee', 'flag', 'value', 'opt', 'n', 'k_w', 'p1', 'p2', 'p3', 'q1', 'q2', 'q3', 'r1', 'r2']
WIDE = False    # set by the caller: unusually many parameters of one kind (module-wide maxima size the code-object bit fields)


def gen_def(rng, eg, name, indent='', first=None, depth=2):
    """-> (source lines, info) ; info = {params: [(name, kind, default_src or None, ann_src or None)], returns, doc, nparens}"""
    pool = list(NAMES)
    rng.shuffle(pool)
    npo = rng.choice([0, 0, 0, 1, 2])
    npl = rng.choice([0, 1, 2, 2, 3])
    nkw = rng.choice([0, 0, 1, 2])
    if WIDE:
        w = rng.choice(['po', 'pl', 'kw'])
        npo = rng.choice([2, 3, 4, 5, 7]) if w == 'po' else rng.choice([0, 1])
        npl = rng.choice([4, 5, 8]) if w == 'pl' else rng.choice([0, 1])
        nkw = rng.choice([3, 4, 5, 8]) if w == 'kw' else rng.choice([0, 1])
    star = rng.random() < .3 or (nkw and rng.random() < .5)
    bare = nkw and not star
    dstar = rng.random() < .3
    params = []
    pos = [pool.pop() for _ in range(npo + npl)]
    ndef = rng.randint(0, len(pos))
    nparens = 0

    def mk(n, kind, want_default):
        nonlocal nparens
        d = None
        if want_default:
            d, np = eg.default(rng.choice([1, 2, 2, depth]))
            nparens += np
        ann = None
        r = rng.random()
        if r < .15:
            ann = rng.choice(SAFE_ANNOTATIONS)
        elif r < .27:
            ann, td = rng.choice(TYPED_ANNOTATIONS)
            if want_default:
                d = td
        return (n, kind, d, ann)
    for i, n in enumerate(pos):
        kind = 'po' if i < npo else 'pk'
        params.append(mk(n, kind, i >= len(pos) - ndef))
    if star:
        params.append(('args', 'va', None, rng.choice(SAFE_ANNOTATIONS) if rng.random() < .15 else None))
    for _ in range(nkw):
        params.append(mk(pool.pop(), 'ko', rng.random() < .6))
    if dstar:
        params.append(('kwds', 'vk', None, rng.choice(SAFE_ANNOTATIONS) if rng.random() < .15 else None))
    ret = rng.choice(SAFE_ANNOTATIONS) if rng.random() < .2 else None
    parts = [first] if first else []
    seen_po = False
    for j, (n, kind, d, ann) in enumerate(params):
        if kind != 'po' and npo and not seen_po and j >= npo:
            parts.append('/')
            seen_po = True
        if kind == 'ko' and bare and '*' not in parts:
            parts.append('*')
        pre = {'va': '*', 'vk': '**'}.get(kind, '')
        t = pre + n
        if ann:
            t += ': ' + ann
            if d is not None:
                t += ' = ' + d
        elif d is not None:
            t += '=' + d
        parts.append(t)
    if npo and not seen_po:
        parts.append('/')
    doc = rng.choice(DOCS)
    lines = [indent + 'def %s(%s)%s:' % (name, ', '.join(parts), (' -> ' + ret) if ret else '')]
    if doc is not None:
        lines.append(indent + '    """%s"""' % doc)
    lines.append(indent + '    return None')
    return lines, {'params': params, 'returns': ret, 'doc': doc, 'nparens': nparens}
