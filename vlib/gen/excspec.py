"""C32 workload generator: cdef/cpdef functions for every exception specification x return type, run-time selected
body behaviours, and one `def` wrapper per caller context.  Produces .pyx text + per-wrapper metadata for the
specification model in vlib/ref/excspec.py."""
import json

from vlib.ref import excspec as model

NAN = {'t': 'float', 'v': 'nan'}


def F(x):
    return {'t': 'float', 'v': repr(float(x))}


def T(*xs):
    return {'t': 'tuple', 'v': list(xs)}


NONE = {'t': 'none'}


def B(x):
    return {'t': 'bool', 'v': bool(x)}


# c: C declaration; sent/alt: sentinel texts usable in an except clause (None: not available);
# *_py: the Python value the wrapper reports for that C value; other/other2: non-sentinel values
TYPES = {
    'int': dict(c='int', sent='-1', sent_py=-1, alt='-2', alt_py=-2, other='5', other_py=5, other2='9', init='77'),
    'uint': dict(c='unsigned int', sent='4294967295', sent_c='<unsigned int>4294967295', sent_py=4294967295, alt='7', alt_py=7,
                 other='5', other_py=5, other2='9', init='77'),
    'double': dict(c='double', sent='-1.0', sent_py=F(-1.0), alt='NAN', alt_py=NAN, other='2.5', other_py=F(2.5),
                   other2='9.0', init='77.0'),
    'ptr': dict(c='int*', sent='NULL', sent_py=NONE, alt=None, other='&_cell', other_py=41, other2='&_cell2',
                init='&_cell2'),
    'struct': dict(c='St', sent=None, alt=None, other=None, other_py=T(3, F(2.5)), init=None, implicit_none=True),
    'enum': dict(c='En', sent='EA', sent_py=3, alt='EC', alt_py=11, other='EB', other_py=7, other2='EC', init='EB',
                 implicit_none=True),
    'void': dict(c='void', sent=None, alt=None, other=None, other_py=NONE, init=None, implicit_none=True),
    'object': dict(c='object', sent=None, alt=None, other="'obj'", other_py='obj', other2="'o2'", init='None',
                   implicit_none=True),
    'bint': dict(c='bint', sent=None, alt=None, other='True', other_py=B(True), other2='False', init='False',
                 explicit='-1'),
}

SPECS = ['default', 'exc', 'excq', 'exc_alt', 'excq_alt', 'star', 'noexcept']
CONTEXTS = ['def', 'expr', 'stmt', 'cdef_same', 'cdef_dflt', 'nogil', 'nogil_mid', 'fptr', 'fptr_nogil',
            'cpdef_py', 'cpdef_c', 'method']
QUICK_CONTEXTS = ['def', 'expr', 'stmt', 'cdef_same', 'nogil', 'fptr']
BEHAVIOURS = {0: 'sentinel', 1: 'other', 2: 'raise', 3: 'set-then-raise', 4: 'handled-then-sentinel',
              5: 'raise-custom', 6: 'raise-in-python-callee', 7: 'other-sentinel-candidate'}


def spec_valid(spec, rt):
    t = TYPES[rt]
    if rt == 'object':
        return spec in ('default', 'noexcept')      # noexcept on object: documented warning, ignored
    if rt in ('void', 'struct'):
        return spec in ('default', 'star', 'noexcept')
    if rt == 'bint':
        return spec in ('default', 'exc', 'excq', 'star', 'noexcept')
    if spec in ('exc_alt', 'excq_alt'):
        return t['alt'] is not None
    return True


def clause(spec, rt):
    t = TYPES[rt]
    if spec == 'default':
        return ''
    if spec == 'star':
        return ' except *'
    if spec == 'noexcept':
        return ' noexcept'
    if rt == 'bint':
        v = t['explicit']
    else:
        v = t['alt'] if spec.endswith('_alt') else t['sent']
    return ' except%s %s' % ('?' if spec.startswith('excq') else '', v)


def sentinel_in_effect(spec, rt):
    """(C text, python value) returned by behaviour 0, or None when the type has no sentinel at all."""
    t = TYPES[rt]
    if rt in ('struct', 'void'):
        return None
    if rt == 'object':
        return ('None', NONE)
    if rt == 'bint':
        return ('False', B(False))
    if spec.endswith('_alt'):
        return (t['alt'], t['alt_py'])
    return (t.get('sent_c', t['sent']), t['sent_py'])


def other_candidate(spec, rt):
    """behaviour 7: the sentinel candidate that is NOT in effect for this spec (always a legitimate value)."""
    t = TYPES[rt]
    if rt in ('struct', 'void', 'object', 'bint') or t['alt'] is None:
        return None
    if spec.endswith('_alt'):
        return (t.get('sent_c', t['sent']), t['sent_py'])
    return (t['alt'], t['alt_py'])


def behaviours(spec, rt):
    """dict beh -> model description; only behaviours that are legitimate for the spec."""
    t = TYPES[rt]
    out = {}
    hard = spec in ('exc', 'exc_alt')           # plain `except V`: returning V without an error is a programmer error
    s = sentinel_in_effect(spec, rt)
    if rt == 'bint' and spec in ('exc', 'excq'):
        hard = False                            # -1 cannot be produced by a bint expression
    if s is not None and not hard:
        out[0] = {'kind': 'ret', 'value': s[1]}
    out[1] = {'kind': 'ret', 'value': t['other_py']}
    out[2] = {'kind': 'raise', 'exc': 'ValueError', 'args': T('b2')}
    out[3] = {'kind': 'raise', 'exc': 'KeyError', 'args': T('b3')}
    out[4] = {'kind': 'ret', 'value': s[1] if (s is not None and not hard) else t['other_py']}
    out[5] = {'kind': 'raise', 'exc': 'MyErr', 'args': T('b5', 5)}
    out[6] = {'kind': 'raise', 'exc': 'OverflowError', 'args': T('b6')}
    oc = other_candidate(spec, rt)
    if oc is not None:
        out[7] = {'kind': 'ret', 'value': oc[1]}
    return out


def body(spec, rt, ind='    '):
    """body lines of the callee (parameter `beh`)."""
    t = TYPES[rt]
    hard = spec in ('exc', 'exc_alt') and rt != 'bint'
    s = sentinel_in_effect(spec, rt)
    oc = other_candidate(spec, rt)
    L = []

    def ret(ctext):
        if rt == 'void':
            return 'return'
        if rt == 'struct':
            return 'return r'
        return 'return %s' % ctext
    if rt == 'struct':
        L += ['r.a = 3', 'r.b = 2.5']
    elif rt != 'void':
        L += ['r = %s' % t['other']]
    sent_txt = s[0] if (s is not None and not hard) else t['other']
    L += ['if beh == 0:', '    ' + ret(sent_txt),
          'elif beh == 1:', '    ' + ret(t['other']),
          'elif beh == 2:', "    raise ValueError('b2')",
          'elif beh == 3:']
    if rt == 'struct':
        L += ['    r.a = 8']
    elif rt != 'void':
        L += ['    r = %s' % t['other2']]
    L += ["    _raise(beh)",
          'elif beh == 4:',
          '    try:',
          "        raise IndexError('inner')",
          '    except IndexError:',
          '        pass',
          '    ' + ret(sent_txt),
          'elif beh == 5 or beh == 6:', "    _raise(beh)"]
    if oc is not None:
        L += ['elif beh == 7:', '    ' + ret(oc[0])]
    L += [ret('r')] if rt != 'void' else []
    return [ind + x for x in L]


def local_decl(rt, ind='    '):
    t = TYPES[rt]
    if rt == 'void':
        return []
    if rt == 'struct':
        return [ind + 'cdef St r']
    return [ind + 'cdef %s r' % t['c']]


def callee(kind, name, spec, rt):
    """kind: f (gil), n (nogil, body under `with gil`), g (cpdef), m (method, indented)"""
    t = TYPES[rt]
    cl = clause(spec, rt)
    if kind == 'f':
        return ['cdef %s %s(int beh)%s:' % (t['c'], name, cl)] + local_decl(rt) + body(spec, rt)
    if kind == 'g':
        return ['cpdef %s %s(int beh)%s:' % (t['c'], name, cl)] + local_decl(rt) + body(spec, rt)
    if kind == 'n':
        return ['cdef %s %s(int beh)%s nogil:' % (t['c'], name, cl)] + local_decl(rt) + ['    with gil:'] + \
            body(spec, rt, ind='        ')
    if kind == 'm':
        return ['    cdef %s %s(self, int beh)%s:' % (t['c'], name, cl)] + local_decl(rt, '        ') + \
            body(spec, rt, ind='        ')
    raise ValueError(kind)


def topy(rt, var='r'):
    if rt == 'ptr':
        return '(None if %s == NULL else %s[0])' % (var, var)
    if rt == 'struct':
        return '(%s.a, %s.b)' % (var, var)
    if rt == 'enum':
        return '<int>%s' % var
    return var


def ctx_call(rt, c, ctx, nm, clause_txt, struct_name='St'):
    """One caller context: dict(decl, pre, call, res, post, nogil, chain_extra) or None if it does not apply.
    nm maps callee roles to names: f (gil), n (nogil), g (cpdef), c/d/e/q (mid functions), m (method call)."""
    decl, pre = [], []
    post = 'id'
    nogil = False
    res = topy(rt) if rt != 'void' else 'None'
    tgt = 'r = ' if rt != 'void' else ''
    if ctx == 'def':
        call = '%s%s(beh)' % (tgt, nm['f'])
    elif ctx == 'stmt':
        call, res, post = '%s(beh)' % nm['f'], 'None', 'none'
    elif ctx == 'expr':
        f = nm['f']
        if rt in ('int', 'double'):
            decl.append('cdef %s r2 = 0' % ('long' if rt == 'int' else 'double'))
            call, res, post = 'r2 = %s(beh) + 1' % f, 'r2', 'plus1'
        elif rt == 'uint':
            decl.append('cdef long long r2 = 0')
            call, res, post = 'r2 = <long long>%s(beh) + 1' % f, 'r2', 'plus1'
        elif rt == 'enum':
            decl.append('cdef int r2 = 0')
            call, res, post = 'r2 = <int>%s(beh) + 1' % f, 'r2', 'plus1'
        elif rt == 'bint':
            decl.append('cdef bint r2 = 0')
            call, res, post = 'r2 = not %s(beh)' % f, 'r2', 'not'
        elif rt == 'ptr':
            decl.append('cdef bint r2 = 0')
            call, res, post = 'r2 = %s(beh) == NULL' % f, 'r2', 'isnull'
        elif rt == 'struct':
            decl.append('cdef int r2 = 0')
            call, res, post = 'r2 = %s(beh).a' % f, 'r2', 'first'
        elif rt == 'object':
            decl.append('cdef object r2 = None')
            call, res, post = 'r2 = (%s(beh), 1)' % f, 'r2', 'pair'
        else:
            return None
    elif ctx in ('cdef_same', 'cdef_dflt', 'cdef_noexc'):
        role = {'cdef_same': 'c', 'cdef_dflt': 'd', 'cdef_noexc': 'e'}[ctx]
        if role not in nm:
            return None
        call = '%s%s(beh)' % (tgt, nm[role])
    elif ctx == 'nogil':
        if 'n' not in nm:
            return None
        call, nogil = '%s%s(beh)' % (tgt, nm['n']), True
    elif ctx == 'nogil_mid':
        if 'q' not in nm:
            return None
        call, nogil = '%s%s(beh)' % (tgt, nm['q']), True
    elif ctx == 'fptr':
        decl.append('cdef %s (*p)(int)%s' % (c, clause_txt))
        pre.append('p = %s' % nm['f'])
        call = '%sp(beh)' % tgt
    elif ctx == 'fptr_nogil':
        if 'n' not in nm:
            return None
        decl.append('cdef %s (*pn)(int)%s nogil' % (c, clause_txt))
        pre.append('pn = %s' % nm['n'])
        call, nogil = '%spn(beh)' % tgt, True
    elif ctx == 'cpdef_c':
        if 'g' not in nm:
            return None
        call = '%s%s(beh)' % (tgt, nm['g'])
    elif ctx == 'cpdef_py':
        if 'g' not in nm:
            return None
        decl.append('cdef object ro = None')
        call = 'ro = _pycall(%s, beh)' % nm['g']
        res = "(ro['a'], ro['b'])" if rt == 'struct' else 'ro'
    elif ctx == 'method':
        call = '%s%s(beh)' % (tgt, nm['m'])
    else:
        raise ValueError(ctx)
    return dict(decl=decl, pre=pre, call=call, res=res, post=post, nogil=nogil)


def wrapper_all(name, rt, c, init, contexts, nm, clause_txt, struct_name='St'):
    """One `def name(ctx, beh, mask)` that performs the call in the selected caller context.
    Returns (lines, {ctx index: (ctx name, post)})."""
    decl = []
    if rt == 'struct':
        decl += ['cdef %s r' % struct_name, 'r.a = 0; r.b = 0']
    elif rt != 'void':
        decl.append('cdef %s r = %s' % (c, init))
    pre = []
    branches = []
    ctxmap = {}
    results = []
    for ci, ctx in enumerate(contexts):
        cc = ctx_call(rt, c, ctx, nm, clause_txt, struct_name) if ctx != '-' else None
        if cc is None:
            continue
        for d in cc['decl']:
            if d not in decl:
                decl.append(d)
        pre += cc['pre']
        ctxmap[ci] = (ctx, cc['post'])
        B = ['%s ctx == %d:    # %s' % ('elif' if branches else 'if', ci, ctx)]
        if cc['nogil']:
            B += ['    with nogil:', '        ' + cc['call']]
        else:
            B += ['    ' + cc['call']]
        # the error indicator is read in C immediately after the call, before any Python operation
        if cc['res'] not in results:
            results.append(cc['res'])
        B += ['    pe = PyErr_Occurred() != NULL', '    which = %d' % results.index(cc['res'])]
        branches += B
    L = ['def %s(int ctx, int beh, int mask):' % name]
    L += ['    ' + d for d in decl]
    L += ['    cdef bint pe = 0', '    cdef int which = -1', '    res = None']
    L += ['    ' + x for x in pre]
    L += ['    _ub()', '    try:']
    L += ['        ' + x for x in branches]
    L += ['        else:', "            raise AssertionError('no such context')",
          '        if pe:', '            PyErr_Clear()',
          '        if not (mask & 1):']
    for i, r in enumerate(results):
        L += ['            %s which == %d:' % ('elif' if i else 'if', i), '                res = %s' % r]
    L += ["        out = ('ret', '*' if mask & 1 else res)",
          '    except BaseException as e:',
          "        out = ('exc', type(e).__name__, None if mask & 2 else e.args)",
          '    return (out, pe, _ue(mask))', '']
    return L, ctxmap


PREAMBLE = '''# cython: language_level=3
from cpython.exc cimport PyErr_Occurred, PyErr_Clear
from libc.math cimport NAN
import sys

cdef struct St:
    int a
    double b

cdef enum En:
    EA = 3
    EB = 7
    EC = 11

cdef int _cell = 41
cdef int _cell2 = 42

class MyErr(Exception):
    pass

def _pyfail(x):
    raise OverflowError('b6')

def _pycall(fn, x):
    return fn(x)

cdef int _raise(int beh) except -1:
    if beh == 3:
        raise KeyError('b3')
    elif beh == 5:
        raise MyErr('b5', beh)
    _pyfail(beh)
    return 0

_unr = []
_old = [None]
unraisable_objects = []      # u.object reprs, evidence only

def _hook(u):
    _unr.append((type(u.exc_value).__name__, u.exc_value.args))
    unraisable_objects.append(repr(u.object))

def _ub():
    del _unr[:]
    _old[0] = sys.unraisablehook
    sys.unraisablehook = _hook

def _ue(mask):
    sys.unraisablehook = _old[0]
    if mask & 2:
        return [(n, None) for n, a in _unr]
    return list(_unr)

'''


def combos():
    return [(spec, rt) for rt in TYPES for spec in SPECS if spec_valid(spec, rt)]


def gen_module(combo_list, k0, contexts, legacy=False):
    """returns (pyx text, {wrapper name: meta})"""
    out = [PREAMBLE]
    meta = {}
    methods = []
    for i, (spec, rt) in enumerate(combo_list):
        k = k0 + i
        t = TYPES[rt]
        eff = model.effective(spec, rt, legacy)
        eff_d = model.effective('default', rt, legacy)
        out += ['# ---- combo %d: %s / %s' % (k, spec, rt)]
        out += callee('f', 'f%d' % k, spec, rt) + ['']
        need = set(contexts)
        nm = {'f': 'f%d' % k}
        if rt != 'object' and need & {'nogil', 'nogil_mid', 'fptr_nogil'}:
            out += callee('n', 'n%d' % k, spec, rt) + ['']
            nm['n'] = 'n%d' % k
        if rt != 'ptr' and need & {'cpdef_py', 'cpdef_c'}:
            out += callee('g', 'g%d' % k, spec, rt) + ['']
            nm['g'] = 'g%d' % k
        if 'method' in need:
            methods += callee('m', 'm%d' % k, spec, rt) + ['']
            nm['m'] = '_k.m%d' % k
        cl = clause(spec, rt)
        retkw = '' if rt == 'void' else 'return '
        if 'cdef_same' in need:
            out += ['cdef %s c%d(int beh)%s:' % (t['c'], k, cl), '    %sf%d(beh)' % (retkw, k), '']
            nm['c'] = 'c%d' % k
        if 'cdef_dflt' in need:
            out += ['cdef %s d%d(int beh):' % (t['c'], k), '    %sf%d(beh)' % (retkw, k), '']
            nm['d'] = 'd%d' % k
        if 'nogil_mid' in need and rt != 'object':
            out += ['cdef %s q%d(int beh)%s nogil:' % (t['c'], k, cl), '    %sn%d(beh)' % (retkw, k), '']
            nm['q'] = 'q%d' % k
        behs = behaviours(spec, rt)
        name = 't%d' % k
        lines, ctxmap = wrapper_all(name, rt, t['c'], t['init'], contexts, nm, cl)
        out += lines
        ctxs = {}
        for ci, (ctx, post) in ctxmap.items():
            chain = [eff]
            if ctx in ('cdef_same', 'nogil_mid'):
                chain = [eff, eff]
            elif ctx == 'cdef_dflt':
                chain = [eff, eff_d]
            ctxs[str(ci)] = {'ctx': ctx, 'post': post, 'chain': chain}
        meta[name] = {'spec': spec, 'rtype': rt, 'ctxs': ctxs, 'behaviours': {str(b): v for b, v in behs.items()},
                      'legacy': legacy, 'k': k}
    if methods:
        out += ['cdef class _K:'] + methods + ['cdef _K _k = _K()', '']
    return '\n'.join(out) + '\n', meta


def ref_module(meta, cpp=False):
    return ('from vlib.ref import excspec as _m\nimport json as _json\n_META = _json.loads(%r)\n'
            'for _n, _meta in _META.items():\n    globals()[_n] = _m.make%s(_meta)\n' % (json.dumps(meta), '_cpp' if cpp else ''))


# ======================================================================= C++ `except +`
CPP_THROWS = {2: 'runtime_error', 3: 'bad_alloc', 4: 'out_of_range', 5: 'invalid_argument', 6: 'int', 7: 'bad_cast',
              8: 'domain_error', 9: 'ios_failure', 10: 'overflow_error', 11: 'range_error', 12: 'underflow_error',
              13: 'bad_typeid', 14: 'custom_std', 15: 'custom_oor', 16: 'custom_nonstd', 17: 'logic_error'}
CPP_SPECS = {'plus': 'except +', 'pluscls': 'except +BufferError', 'plusfn': 'except +_handler', 'plusstar': 'except +*'}
CPP_CONTEXTS = ['def', 'expr', 'stmt', 'cdef_dflt', 'cdef_noexc', 'nogil', 'nogil_mid', 'method', 'fptr']
CPP_QUICK_CONTEXTS = ['def', 'expr', 'stmt', 'cdef_noexc', 'nogil', 'method']
CPP_TYPES = {
    'int': dict(c='int', cc='int', a='-1', a_py=-1, b='5', b_py=5, init='77'),
    'uint': dict(c='unsigned int', cc='unsigned int', a='4294967295u', a_py=4294967295, b='5', b_py=5, init='77'),
    'double': dict(c='double', cc='double', a='-1.0', a_py=F(-1.0), b='2.5', b_py=F(2.5), init='77.0'),
    'ptr': dict(c='int*', cc='int*', a='(int*)0', a_py=NONE, b='&c32_cell', b_py=41, init='NULL'),
    'struct': dict(c='CSt', cc='CSt', a='c32_mk(1, 0.5)', a_py=T(1, F(0.5)), b='c32_mk(3, 2.5)', b_py=T(3, F(2.5)),
                   init=None),
    'enum': dict(c='CEn', cc='CEn', a='CEA', a_py=3, b='CEB', b_py=7, init='CEB'),
    'void': dict(c='void', cc='void', a=None, a_py=NONE, b=None, b_py=NONE, init=None),
    'object': dict(c='object', cc='PyObject*', a='PyLong_FromLong(10)', a_py=10, b='PyLong_FromLong(20)', b_py=20,
                   init='None'),
    'bint': dict(c='bint', cc='int', a='0', a_py=B(False), b='1', b_py=B(True), init='False'),
}

CPP_HEADER = r'''
#include <stdexcept>
#include <new>
#include <typeinfo>
#include <ios>
struct CSt { int a; double b; };
enum CEn { CEA = 3, CEB = 7 };
static int c32_cell = 41;
static int c32_last = 0;
static CSt c32_mk(int a, double b) { CSt s; s.a = a; s.b = b; return s; }
struct C32MyStd : public std::exception { const char* what() const noexcept { return "m_custom_std"; } };
struct C32MyOor : public std::out_of_range { C32MyOor() : std::out_of_range("m_custom_oor") {} };
struct C32NonStd { int x; };
static void c32_act(int beh) {
    c32_last = beh;
    switch (beh) {
        case 2: throw std::runtime_error("m_runtime_error");
        case 3: throw std::bad_alloc();
        case 4: throw std::out_of_range("m_out_of_range");
        case 5: throw std::invalid_argument("m_invalid_argument");
        case 6: throw 42;
        case 7: throw std::bad_cast();
        case 8: throw std::domain_error("m_domain_error");
        case 9: throw std::ios_base::failure("m_ios_failure");
        case 10: throw std::overflow_error("m_overflow_error");
        case 11: throw std::range_error("m_range_error");
        case 12: throw std::underflow_error("m_underflow_error");
        case 13: throw std::bad_typeid();
        case 14: throw C32MyStd();
        case 15: throw C32MyOor();
        case 16: { C32NonStd x; x.x = 1; throw x; }
        case 17: throw std::logic_error("m_logic_error");
        case 20: {
            PyGILState_STATE st = PyGILState_Ensure();
            PyErr_SetString(PyExc_KeyError, "pyerr");
            PyGILState_Release(st);
            break;
        }
        default: break;
    }
}
'''


def cpp_funcs():
    L = []
    for rt, t in CPP_TYPES.items():
        if rt == 'void':
            L.append('static void cpp_void(int beh) { c32_act(beh); }')
        elif rt == 'object':
            L.append('static PyObject* cpp_object(int beh) { c32_act(beh); if (beh == 20) return NULL; '
                     'return beh == 0 ? %s : %s; }' % (t['a'], t['b']))
        else:
            L.append('static %s cpp_%s(int beh) { c32_act(beh); return beh == 0 ? %s : %s; }' % (t['cc'], rt, t['a'], t['b']))
    L.append('struct C32Foo {')
    for rt, t in CPP_TYPES.items():
        if rt == 'void':
            L.append('    void m_void(int beh) { cpp_void(beh); }')
        else:
            L.append('    %s m_%s(int beh) { return cpp_%s(beh); }' % (t['cc'], rt, rt))
    L.append('};')
    return '\n'.join(L)


def cpp_behaviours(spec, rt):
    t = CPP_TYPES[rt]
    out = {0: {'kind': 'ret', 'value': t['a_py']}, 1: {'kind': 'ret', 'value': t['b_py']}}
    for b, name in CPP_THROWS.items():
        out[b] = {'kind': 'throw', 'cpp': name}
    if rt == 'object' or spec == 'plusstar':
        out[20] = {'kind': 'pyerr', 'exc': 'KeyError', 'args': T('pyerr')}
    return out


def gen_cpp_module(type_names=None, contexts=None, only_specs=None, fptr_star=False):
    """fptr_star: also take `except +*` functions through a function pointer (kept in a module of its own
    because the unchanged compiler crashes on that declaration - see notes/C32.md)"""
    contexts = contexts or CPP_CONTEXTS
    type_names = type_names or list(CPP_TYPES)
    ext_gil, ext_nogil, cls_lines = [], [], []
    meta = {}
    body = []
    k = 0
    for rt, t in CPP_TYPES.items():
        for spec, cl in CPP_SPECS.items():
            k += 1
            if rt not in type_names or (only_specs and spec not in only_specs):
                continue
            c = t['c']
            fn, fnn, mn = 'x%d' % k, 'y%d' % k, 'z%d' % k
            my_contexts = [cx if (cx != 'fptr' or spec != 'plusstar' or fptr_star) else '-' for cx in contexts]
            ext_gil.append('    %s %s "cpp_%s"(int beh) %s' % (c, fn, rt, cl))
            nm = {'f': fn, 'm': '_foo.' + mn}
            if rt != 'object':
                ext_nogil.append('    %s %s "cpp_%s"(int beh) %s' % (c, fnn, rt, cl))
                nm['n'] = fnn
            cls_lines.append('        %s %s "m_%s"(int beh) %s' % (c, mn, rt, cl))
            retkw = '' if rt == 'void' else 'return '
            if 'cdef_dflt' in contexts:
                body += ['cdef %s d%d(int beh):' % (c, k), '    %s%s(beh)' % (retkw, fn), '']
                nm['d'] = 'd%d' % k
            if 'cdef_noexc' in contexts and rt != 'object':
                body += ['cdef %s e%d(int beh) noexcept:' % (c, k), '    %s%s(beh)' % (retkw, fn), '']
                nm['e'] = 'e%d' % k
            if 'nogil_mid' in contexts and rt != 'object':
                body += ['cdef %s q%d(int beh) nogil:' % (c, k), '    %s%s(beh)' % (retkw, fnn), '']
                nm['q'] = 'q%d' % k
            behs = cpp_behaviours(spec, rt)
            name = 't%d' % k
            lines, ctxmap = wrapper_all(name, rt, c, t['init'], my_contexts, nm, ' ' + cl, struct_name='CSt')
            body += lines
            ctxs = {}
            for ci, (ctx, post) in ctxmap.items():
                chain = ['propagate']
                if ctx in ('cdef_dflt', 'nogil_mid'):
                    chain = ['propagate', 'propagate']
                elif ctx == 'cdef_noexc':
                    chain = ['propagate', 'swallow']
                ctxs[str(ci)] = {'ctx': ctx, 'post': post, 'chain': chain}
            meta[name] = {'spec': spec, 'rtype': rt, 'ctxs': ctxs, 'cls': 'BufferError',
                          'behaviours': {str(b): v for b, v in behs.items()}, 'k': k, 'cpp': True}
    pre = PREAMBLE.replace('# cython: language_level=3', '# cython: language_level=3\n# distutils: language = c++')
    pre = pre.replace('from libc.math cimport NAN\n', '')
    pre = pre.replace('cdef struct St:\n    int a\n    double b\n\ncdef enum En:\n    EA = 3\n    EB = 7\n    EC = 11\n\n'
                      'cdef int _cell = 41\ncdef int _cell2 = 42\n', '')
    hdr = CPP_HEADER + cpp_funcs()
    out = [pre,
           'cdef extern from *:', '    """' + hdr.replace('\\', '\\\\') + '\n    """',
           '    int c32_last',
           '    cdef struct CSt:', '        int a', '        double b',
           '    cdef enum CEn:', '        CEA', '        CEB', '',
           'cdef int _handler() except *:',
           '    if c32_last % 2 == 0:',
           "        raise LookupError('handler')",
           '    return 0', '',
           'cdef extern from *:'] + ext_gil + ['    cdef cppclass C32Foo:'] + cls_lines + ['']
    if ext_nogil:
        out += ['cdef extern from * nogil:'] + ext_nogil + ['']
    out += ['cdef C32Foo _foo', ''] + body
    return '\n'.join(out) + '\n', meta
