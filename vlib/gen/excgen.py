"""excgen: nested exception-handling statements with injection points (C22).

Every generated function takes a dict `inj` {point id: exception code}; `mr(inj, k)` raises the selected exception at
point k.  Every block logs its id together with the exception currently being handled (`ei()`), so the order of
executed blocks and sys.exc_info() at every point are part of the observation; the function result / the propagating
exception (class, args, __cause__/__context__/__suppress_context__ chain, ExceptionGroup structure) is the rest.
"""
import re

HEADER = '''# cython: language_level=3
import sys
log = None


class MyErr(Exception):
    pass


class MyBase(BaseException):
    pass


def mk(code, k):
    if code == 'V':
        return ValueError(k)
    if code == 'K':
        return KeyError(k)
    if code == 'T':
        return TypeError(k)
    if code == 'M':
        return MyErr(k)
    if code == 'B':
        return MyBase(k)
    if code == 'S':
        return StopIteration(k)
    if code == 'G':
        return ExceptionGroup('g%d' % k, [ValueError(k), TypeError(k)])
    if code == 'H':
        return ExceptionGroup('h%d' % k, [KeyError(k), ExceptionGroup('n%d' % k, [ValueError(k + 1000)])])
    raise AssertionError(code)


def mr(inj, k):
    c = inj.get(k)
    if c is not None:
        raise mk(c, k)


def ei():
    e = sys.exc_info()[1]
    if e is None:
        return None
    return (type(e).__name__, e.args[-1:] if e.args else ())


def egs(eg):
    # structure of an exception group: nested tuples of class names / args
    if isinstance(eg, BaseExceptionGroup):
        return (type(eg).__name__, tuple(egs(x) for x in eg.exceptions))
    return (type(eg).__name__, eg.args[-1:] if eg.args else ())


class CM:
    def __init__(self, inj, k, mode=''):
        self.inj, self.k, self.mode = inj, k, mode

    def __enter__(self):
        log(('enter', self.k, ei()))
        mr(self.inj, self.k)
        return self.k

    def __exit__(self, t, v, tb):
        log(('exit', self.k, t.__name__ if t else None, ei()))
        mr(self.inj, self.k + 1)
        return self.mode == 'suppress' and t is not None

'''

CLAUSES = ['ValueError', 'KeyError', '(ValueError, TypeError)', 'Exception', 'MyErr', 'LookupError', '', 'BaseException',
           'MyBase', 'StopIteration']
STAR_CLAUSES = ['ValueError', 'TypeError', 'KeyError', '(ValueError, KeyError)', 'Exception', 'LookupError']
CODES = ['V', 'K', 'T', 'M', 'B', 'S']
# which injected exception codes an except clause catches (directed scenarios, see ExcGen.scenario)
CLAUSE_CODES = {'ValueError': 'V', 'KeyError': 'K', '(ValueError, TypeError)': 'VT', 'Exception': 'VKTMS', 'MyErr': 'M',
                'LookupError': 'K', '': 'VKTMBS', 'BaseException': 'VKTMBS', 'MyBase': 'B', 'StopIteration': 'S'}
STAR_CLAUSE_CODES = {'ValueError': 'GHV', 'TypeError': 'GT', 'KeyError': 'HK', '(ValueError, KeyError)': 'GHVK',
                     'Exception': 'GHVKTMS', 'LookupError': 'HK'}
MAX_SCENARIOS = 12


class ExcGen:
    def __init__(self, rng, name, max_depth=3, star=False):
        self.rng = rng
        self.name = name
        self.max_depth = max_depth
        self.star = star            # this function uses except* (cannot be mixed with break/continue/return in them)
        self.nid = 0
        self.points = []            # injection point ids
        self.feat = set()
        self.stack = []             # 'loop', 'handler', 'finally', 'star', 'func'
        self.nfun = 0
        # how execution gets to the place being generated *with an exception in flight / being handled*: one entry per
        # enclosing except clause / finally clause, (kind, point id in the try body or None, codes that lead here)
        self.path = []
        self.scenarios = []         # directed injections: [(point, codes) | ('flag', id), ...] that steer into a nested jump

    def direct_point(self, body, ind):
        """an injection point of `body` that is a statement of the block itself (indentation `ind`), else None"""
        for line in body:
            m = re.match(r'%smr\(inj, (\d+)\)$' % re.escape(ind), line)
            if m:
                return int(m.group(1))
        return None

    def ensure_direct_point(self, body, ind):
        """most try bodies get an injection point of their own, so that their except / finally clauses can be entered with
        a chosen exception whatever the nested statements do"""
        bp = self.direct_point(body, ind)
        if bp is None and self.rng.random() < 0.6:
            body[1:1] = self.point(ind)
            bp = self.points[-1]
        return bp

    def scenario(self, flag=None):
        """the jump generated next sits inside handlers / finally clauses: remember which points have to raise (and which
        flag has to be set) so that it is executed with all the enclosing exceptions active; for a jump in a finally clause
        also the variant in which that clause is entered without exception"""
        steps = [(p, codes) for kind, p, codes in self.path if p is not None and codes]
        if not steps or (len(steps) < 2 and flag is None):
            return              # single injections and flag x single combinations reach these already
        variants = [steps]
        if self.path[-1][0] == 'finally' and self.path[-1][1] is not None and len(steps) >= 2:
            variants.append(steps[:-1])
        for st in variants:
            sc = list(st) + ([('flag', flag)] if flag is not None else [])
            if sc not in self.scenarios:
                self.scenarios.append(sc)

    def newid(self):
        self.nid += 1
        return self.nid

    def point(self, ind):
        k = self.newid()
        self.points.append(k)
        return [ind + 'mr(inj, %d)' % k]

    def in_loop(self):
        # break/continue must refer to a loop of the *same* function and may not leave an except* block
        for c in reversed(self.stack):
            if c == 'loop':
                return True
            if c in ('func', 'star'):
                return False
        return False

    def can_return(self):
        # 'return' may not leave an except* block
        for c in reversed(self.stack):
            if c == 'star':
                return False
            if c == 'func':
                return True
        return True

    def block(self, ind, depth, nmin=1, nmax=3):
        out = []
        if depth >= 2:
            nmax = min(nmax, 2)
        for _ in range(self.rng.randint(nmin, nmax)):
            out += self.stmt(ind, depth)
            last = out[-1].strip()
            if last in ('break', 'continue', 'raise') or last.startswith(('return', 'raise ')):
                break
        return out

    def leaf(self, ind):
        r = self.rng.random()
        if r < 0.6:
            return self.point(ind)
        return [ind + "log(('p', %d, ei()))" % self.newid()]

    def jump(self, ind):
        """return / break / continue / raise variants allowed at this place"""
        rng = self.rng
        opts = []
        if self.can_return():
            opts += ['return']
        if self.in_loop():
            opts += ['break', 'continue'] * 3
        ctxs = {'handler': 'handler', 'finally': 'finally', 'star': 'handler'}
        where = next((ctxs[c] for c in reversed(self.stack) if c in ctxs), 'body')
        if 'handler' in self.stack:
            opts += ['raise', 'raise', 'raise-from', 'raise-new']
        else:
            opts += ['raise-new']
        if where == 'finally':
            # a bare raise in a finally clause re-raises the exception that travelled into the clause (whether or not the
            # statement sits in an except clause; without any exception it is a RuntimeError in both implementations)
            opts += ['raise']
        o = rng.choice(opts)
        self.feat.add('%s-in-%s' % (o, where))
        if where == 'finally' and self._finally_in_handler():
            self.feat.add('%s-in-finally-in-handler' % o)
        if o == 'raise' and self._intercepted():
            self.feat.add('raise-in-%s-intercepted' % where)
        if not getattr(self, '_in_cond', False):
            self.scenario()
        if o == 'return':
            return [ind + 'return %d' % self.newid()]
        if o in ('break', 'continue'):
            return [ind + o]
        if o == 'raise':
            return [ind + 'raise']
        k = self.newid()
        if o == 'raise-from':
            src = rng.choice(['None', 'e', "KeyError('c%d')" % k]) if self._has_e() else rng.choice(['None', "KeyError('c%d')" % k])
            return [ind + "raise %s from %s" % (rng.choice(["ValueError(%d)", "MyErr(%d)", "TypeError(%d)"]) % k, src)]
        return [ind + 'raise %s' % (rng.choice(["ValueError(%d)", "MyErr(%d)", "KeyError(%d)", "MyBase(%d)"]) % k)]

    def _intercepted(self):
        """the statement sits in a try body / with body that is nested in the innermost except or finally clause: what a bare
        'raise' re-raises can be caught or suppressed before it leaves that clause"""
        for c in reversed(self.stack):
            if c in ('trybody', 'withbody'):
                return True
            if c in ('handler', 'star', 'finally', 'func'):
                return False
        return False

    def _finally_in_handler(self):
        """innermost clause is a finally clause and the try statement is lexically inside an except clause of the same function"""
        seen_fin = False
        for c in reversed(self.stack):
            if c == 'func':
                return False
            if c == 'finally':
                seen_fin = True
            elif c in ('handler', 'star') and seen_fin:
                return True
        return False

    def _has_e(self):
        for c in reversed(self.stack):
            if c == 'handler-e':
                return True
            if c in ('handler-n', 'func'):
                return False
        return False

    def extra_jump(self, ind, block, p):
        last = block[-1].strip()
        if last in ('break', 'continue', 'raise') or last.startswith(('return', 'raise ')) or self.rng.random() >= p:
            return []
        return self.cond_jump(ind) if self.rng.random() < 0.6 else self.jump(ind)

    def cond_jump(self, ind):
        # a jump guarded by an injection-controlled condition, so that both ways are explored
        k = self.newid()
        self.points.append(('flag', k))
        self.scenario(flag=k)
        self._in_cond = True
        try:
            j = self.jump(ind + '    ')
        finally:
            self._in_cond = False
        return [ind + 'if inj.get(%d):' % k] + j

    def stmt(self, ind, depth):
        rng = self.rng
        i2 = ind + '    '
        if depth >= self.max_depth:
            return self.leaf(ind)
        kinds = [('leaf', 26 + 14 * depth), ('try', 26), ('tryfin', 14), ('with', 10), ('jump', 7), ('cjump', 12), ('loop', 6),
                 ('func', 4), ('gen', 4)]
        if next(c for c in reversed(self.stack) if c not in ('trybody', 'withbody')) in ('handler', 'star'):
            # statements of an except clause: more nested try statements (clauses run while another exception is handled)
            kinds = [(kk, w + 12 if kk in ('try', 'tryfin') else w) for kk, w in kinds]
        if self.star:
            kinds.append(('star', 30))
        if 'finally' in self.stack:
            # calling a nested function inside a finally clause crashes the compiler itself
            # (Optimize.InlineDefNodeCalls on the deep-copied clause: 'set' object has no attribute 'cf_is_null') - C43
            kinds = [kw for kw in kinds if kw[0] not in ('func', 'gen')]
        tot = sum(w for _, w in kinds)
        r = rng.random() * tot
        for k, w in kinds:
            r -= w
            if r < 0:
                break
        if k == 'leaf':
            return self.leaf(ind)
        if k == 'jump':
            return self.jump(ind)
        if k == 'cjump':
            return self.cond_jump(ind)
        if k == 'loop':
            self.feat.add('loop')
            v = 'i%d' % self.newid()
            self.stack.append('loop')
            body = self.block(i2, depth + 1)
            self.stack.pop()
            out = [ind + 'for %s in range(2):' % v, i2 + "log(('it', %s, ei()))" % v] + body
            if rng.random() < 0.3:
                self.feat.add('loop-else')
                out += [ind + 'else:', i2 + "log(('loop-else', %d, ei()))" % self.newid()]
            return out
        if k == 'try':
            self.feat.add('try-except')
            tid = self.newid()
            self.stack.append('trybody')
            body = [i2 + "log(('try', %d, ei()))" % tid] + self.block(i2, depth + 1)
            self.stack.pop()
            out = [ind + 'try:'] + body
            ncl = rng.choice([1, 1, 2, 2, 3])
            cl = []
            for _ in range(ncl):
                c = rng.choice(CLAUSES)
                if c not in cl:
                    cl.append(c)
            cl.sort(key=lambda c: (c == '', c == 'BaseException'))
            if '' in cl and 'BaseException' in cl:
                cl.remove('BaseException')
            bp = self.ensure_direct_point(body, i2)
            caught = ''
            for c in cl:
                named = c != '' and rng.random() < 0.6
                out.append(ind + ('except %s%s:' % (c, ' as e' if named else '') if c else 'except:'))
                self.feat.add('except-%s' % ('bare' if c == '' else 'tuple' if c.startswith('(') else 'as' if named else 'typed'))
                self.stack.append('handler-e' if named else 'handler-n')
                self.stack.append('handler')
                self.path.append(('handler', bp, ''.join(x for x in CLAUSE_CODES[c] if x not in caught)))
                caught += CLAUSE_CODES[c]
                hb = [i2 + "log(('h', %d, ei()))" % self.newid()]
                if named and rng.random() < 0.5:
                    hb.append(i2 + "log(('e', type(e).__name__, type(e.__context__).__name__, type(e.__cause__).__name__))")
                hb += self.block(i2, depth + 1, 1, 2)
                hb += self.extra_jump(i2, hb, 0.55)
                self.stack.pop()
                self.stack.pop()
                self.path.pop()
                out += hb
            if rng.random() < 0.3:
                self.feat.add('try-else')
                out += [ind + 'else:', i2 + "log(('else', %d, ei()))" % self.newid()] + self.block(i2, depth + 1, 1, 2)
            if rng.random() < 0.35:
                self.feat.add('try-except-finally')
                self.stack.append('finally')
                self.path.append(('finally', bp, ''.join(x for x in CODES if x not in caught)))
                fb = [i2 + "log(('f', %d, ei()))" % self.newid()] + self.block(i2, depth + 1, 1, 2)
                fb += self.extra_jump(i2, fb, 0.45)
                out += [ind + 'finally:'] + fb
                self.stack.pop()
                self.path.pop()
            out.append(ind + "log(('after', %d, ei()))" % tid)
            return out
        if k == 'star':
            self.feat.add('except-star')
            tid = self.newid()
            self.stack.append('trybody')
            body = [i2 + "log(('try', %d, ei()))" % tid] + self.block(i2, depth + 1)
            self.stack.pop()
            out = [ind + 'try:'] + body
            cl = []
            for _ in range(rng.choice([1, 2, 2])):
                c = rng.choice(STAR_CLAUSES)
                if c not in cl:
                    cl.append(c)
            bp = self.ensure_direct_point(body, i2)
            for c in cl:
                named = rng.random() < 0.7
                out.append(ind + 'except* %s%s:' % (c, ' as e' if named else ''))
                self.stack.append('handler-e' if named else 'handler-n')
                self.stack.append('star')
                self.path.append(('handler', bp, STAR_CLAUSE_CODES[c]))
                hb = [i2 + "log(('hs', %d, ei()))" % self.newid()]
                if named:
                    hb.append(i2 + "log(('eg', egs(e)))")
                hb += self.block(i2, depth + 1, 1, 2)
                self.stack.pop()
                self.stack.pop()
                self.path.pop()
                out += hb
            if rng.random() < 0.3:
                out += [ind + 'else:', i2 + "log(('else', %d, ei()))" % self.newid()]
            if rng.random() < 0.3:
                self.stack.append('finally')
                self.path.append(('finally', bp, ''.join(x for x in 'GHVKTMBS' if not all(x in STAR_CLAUSE_CODES[c] for c in cl))))
                out += [ind + 'finally:', i2 + "log(('f', %d, ei()))" % self.newid()] + self.block(i2, depth + 1, 1, 1)
                self.stack.pop()
                self.path.pop()
            out.append(ind + "log(('after', %d, ei()))" % tid)
            return out
        if k == 'tryfin':
            self.feat.add('try-finally')
            tid = self.newid()
            self.stack.append('trybody')
            body = [i2 + "log(('try', %d, ei()))" % tid] + self.block(i2, depth + 1)
            self.stack.pop()
            self.stack.append('finally')
            self.path.append(('finally', self.ensure_direct_point(body, i2), ''.join(CODES)))
            fin = [i2 + "log(('f', %d, ei()))" % self.newid()] + self.block(i2, depth + 1, 1, 2)
            fin += self.extra_jump(i2, fin, 0.5)
            self.stack.pop()
            self.path.pop()
            return [ind + 'try:'] + body + [ind + 'finally:'] + fin + [ind + "log(('after', %d, ei()))" % tid]
        if k == 'with':
            kk = self.newid()
            self.newid()
            self.points.append(kk)       # raise in __enter__
            self.points.append(kk + 1)   # raise in __exit__
            mode = rng.choice(['', '', 'suppress'])
            self.feat.add('with' + ('-suppress' if mode else ''))
            self.stack.append('withbody')
            body = self.block(i2, depth + 1)
            self.stack.pop()
            tgt = ' as w' if rng.random() < 0.3 else ''
            return [ind + 'with CM(inj, %d, %r)%s:' % (kk, mode, tgt)] + body + [ind + "log(('after-with', %d, ei()))" % kk]
        if k == 'func':
            self.feat.add('nested-function')
            self.nfun += 1
            fn = 'inner%d' % self.nfun
            self.stack.append('func')
            body = self.block(i2, depth + 1)
            self.stack.pop()
            return [ind + 'def %s():' % fn, i2 + "log(('in', %d, ei()))" % self.newid()] + body + \
                   [ind + "log(('ret', %s(), ei()))" % fn]
        if k == 'gen':
            self.feat.add('nested-generator')
            self.nfun += 1
            fn = 'gen%d' % self.nfun
            self.stack.append('func')
            self.stack.append('gen')
            k1 = self.newid()
            gb = [i2 + 'try:', i2 + '    yield %d' % k1] + self.point(i2 + '    ') + [i2 + '    yield %d' % (k1 + 1000)]
            if rng.random() < 0.5:
                gb += [i2 + 'except ValueError:', i2 + "    log(('gh', %d, ei()))" % self.newid(), i2 + '    yield %d' % (k1 + 2000)]
            gb += [i2 + 'finally:', i2 + "    log(('gf', %d, ei()))" % self.newid()]
            self.stack.pop()
            self.stack.pop()
            v = 'g%d' % self.newid()
            self.stack.append('loop')
            lb = [i2 + "log(('gv', %s, ei()))" % v] + self.block(i2, depth + 1, 1, 2)
            self.stack.pop()
            return [ind + 'def %s():' % fn] + gb + [ind + 'for %s in %s():' % (v, fn)] + lb
        raise AssertionError(k)

    def function(self):
        self.stack = ['func']
        if self.rng.random() < 0.45:
            self.stack.append('loop')
            self.feat.add('loop')
            body = ['    for it in range(2):', "        log(('it', it, ei()))"] + self.block('        ', 0, 1, 3)
        else:
            body = self.block('    ', 0, 1, 3)
        lines = ['def %s(inj):' % self.name, "    log(('start', ei()))"] + body + ["    log(('end', ei()))", "    return 'r'"]
        return '\n'.join(lines) + '\n'


def gen_function(rng, name, star=False):
    for _ in range(400):
        g = ExcGen(rng, name, max_depth=rng.choice([2, 3, 3]), star=star)
        src = g.function()
        npts = len(g.points)
        if not (2 <= npts <= 10) or len(src.splitlines()) > 110:
            continue
        if star and 'except-star' not in g.feat:
            continue
        try:
            compile(src, name, 'exec')
        except SyntaxError:
            continue
        return {'name': name, 'src': src, 'points': g.points, 'feat': sorted(g.feat), 'star': star, 'scenarios': g.scenarios}
    raise RuntimeError('excgen could not produce a valid function')


def injections(rng, f, max_pairs=30):
    """list of inj dicts (as source text): none, every single point x 2-3 exception codes, sampled pairs"""
    pts = [p for p in f['points'] if not isinstance(p, tuple)]
    flags = [p[1] for p in f['points'] if isinstance(p, tuple)]
    codes_for = {}
    for p in pts:
        cs = rng.sample(CODES, 2)
        if f['star']:
            cs = [rng.choice(['G', 'H']), rng.choice(CODES)]
        codes_for[p] = cs
    out = [{}]
    singles = [{p: c} for p in pts for c in codes_for[p]]
    out += singles
    # flags (conditional jumps) alone and combined with singles
    for fl in flags:
        out.append({fl: 1})
        for s in rng.sample(singles, min(len(singles), 4)):
            d = dict(s)
            d[fl] = 1
            out.append(d)
    pairs = []
    for i, p in enumerate(pts):
        for q in pts[i + 1:]:
            for c in codes_for[p]:
                for c2 in codes_for[q]:
                    pairs.append({p: c, q: c2})
    rng.shuffle(pairs)
    for d in pairs[:max_pairs]:
        if flags and rng.random() < 0.3:
            d = dict(d)
            d[rng.choice(flags)] = 1
        out.append(d)
    if len(flags) >= 2:
        out.append({fl: 1 for fl in flags})
    # directed scenarios: every return/break/continue/raise that sits inside nested except / finally clauses is run with
    # the enclosing exceptions really in flight (a different class at every level where the clauses allow it)
    scs = list(f.get('scenarios', ()))
    if len(scs) > MAX_SCENARIOS:
        scs = rng.sample(scs, MAX_SCENARIOS)
    for sc in scs:
        for _ in range(2):
            d = {}
            used = set()
            for p, codes in sc:
                if p == 'flag':
                    d[codes] = 1
                    continue
                if p in d:
                    continue
                fresh = [c for c in codes if c not in used] or list(codes)
                d[p] = rng.choice(fresh)
                used.add(d[p])
            if d not in out:
                out.append(d)
    return out
