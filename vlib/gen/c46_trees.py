"""Generators of real Cython source trees with a known dependency graph (C46).

A tree is {'files': {relpath: text}, 'cimports': {relpath: [(target relpath, form)]}, 'includes': {relpath:
[(target relpath, form)]}, ...}; the ground truth is what the generator intended, never what Cython parsed."""
import os


# ------------------------------------------------------------------------------------------ small digraphs
def small_graph_files(n, adj):
    """adj: set of (i, j) edges over nodes 0..n-1 (self loops allowed). Files m<i>.pxd cimporting each other."""
    files = {}
    for i in range(n):
        lines = ['# node %d' % i]
        for j in range(n):
            if (i, j) in adj:
                lines.append('cimport m%d' % j)
        lines.append('cdef int v%d' % i)
        files['m%d.pxd' % i] = '\n'.join(lines) + '\n'
    return files


def edges_of_mask(n, mask):
    return {(i, j) for i in range(n) for j in range(n) if (mask >> (i * n + j)) & 1}


def reach(n, adj, start):
    seen = {start}
    todo = [start]
    while todo:
        x = todo.pop()
        for (a, b) in adj:
            if a == x and b not in seen:
                seen.add(b)
                todo.append(b)
    return seen


def has_cycle(n, adj):
    return any(i in reach_strict(n, adj, i) for i in range(n))


def reach_strict(n, adj, start):
    seen = set()
    todo = [start]
    while todo:
        x = todo.pop()
        for (a, b) in adj:
            if a == x and b not in seen:
                seen.add(b)
                todo.append(b)
    return seen


# ------------------------------------------------------------------------------------------ larger random trees
CIMPORT_FORMS = ['cimport-plain', 'cimport-as', 'from-module-cimport-name', 'cimport-list']
PKG_FORMS = ['cimport-dotted', 'from-dotted-cimport-name', 'from-pkg-cimport-module', 'from-pkg-cimport-module-as',
             'from-pkg-cimport-module-paren']


def modname(rel):
    return os.path.splitext(rel)[0].replace('/', '.')


def cimport_stmt(form, target_rel, k):
    """source text that cimports the module in file target_rel using syntax `form`"""
    mod = modname(target_rel)
    leaf = mod.rsplit('.', 1)[-1]
    pkg = mod.rsplit('.', 1)[0] if '.' in mod else None
    if form == 'cimport-plain' or form == 'cimport-dotted':
        return 'cimport %s' % mod
    if form == 'cimport-as':
        return 'cimport %s as al%d' % (mod, k)
    if form == 'cimport-tab':
        return 'cimport\t%s' % mod
    if form == 'cimport-continuation':
        return 'cimport \\\n    %s' % mod
    if form in ('from-module-cimport-name', 'from-dotted-cimport-name'):
        return 'from %s cimport t_%s' % (mod, leaf)
    if form == 'from-module-cimport-name-as':
        return 'from %s cimport t_%s as al%d' % (mod, leaf, k)
    if form == 'from-continuation':
        return 'from %s \\\n    cimport t_%s' % (mod, leaf)
    if form == 'from-module-cimport-paren':
        return 'from %s cimport (t_%s,\n    u_%s)' % (mod, leaf, leaf)
    if form == 'from-pkg-cimport-module':
        return 'from %s cimport %s' % (pkg, leaf)
    if form == 'from-pkg-cimport-module-as':
        return 'from %s cimport %s as al%d' % (pkg, leaf, k)
    if form == 'from-pkg-cimport-module-comment':
        return 'from %s cimport %s  # the module' % (pkg, leaf)
    if form == 'from-pkg-cimport-module-paren':
        return 'from %s cimport (%s)' % (pkg, leaf)
    if form == 'from-pkg-cimport-module-paren-multiline':
        return 'from %s cimport (\n    %s,\n)' % (pkg, leaf)
    if form == 'from-pkg-cimport-module-relative':
        return 'from . cimport %s' % leaf
    if form == 'relative-from-dotmodule-cimport-name':
        return 'from .%s cimport t_%s' % (leaf, leaf)
    if form == 'pure-from-cimports':
        return 'from cython.cimports.%s import t_%s' % (mod, leaf)
    if form == 'from-pkg-cimport-module-pure':
        return 'from cython.cimports.%s import %s' % (pkg, leaf)
    if form == 'after-semicolon':
        return 'zz%d = 1; cimport %s' % (k, mod)
    if form == 'IF-true':
        return 'IF True:\n    cimport %s' % mod
    if form == 'IF-false':
        return 'IF False:\n    cimport %s' % mod
    if form == 'IF-else-taken':
        return 'IF False:\n    zz%d = 1\nELSE:\n    cimport %s' % (k, mod)
    raise ValueError(form)


def pxd_text(rel, stmts):
    leaf = modname(rel).rsplit('.', 1)[-1]
    return '\n'.join(['# %s' % rel] + stmts + ['ctypedef int t_%s' % leaf, 'ctypedef long u_%s' % leaf]) + '\n'


def random_tree(rng, nfiles):
    """<= 12 files: top-level pxds, package pxds (pk/, pk/sub/), pxi includes; random cimport/include edges using
    the syntactic forms above; cycles allowed."""
    pxds = []
    n_pxd = rng.randint(3, max(3, nfiles - 2))
    for i in range(n_pxd):
        r = rng.random()
        pxds.append('t%d.pxd' % i if r < 0.5 else 'pk/p%d.pxd' % i if r < 0.85 else 'pk/sub/s%d.pxd' % i)
    pxis = ['x%d.pxi' % i for i in range(rng.randint(0, min(3, nfiles - n_pxd)))]
    files = {}
    cim = {f: [] for f in pxds + pxis}
    inc = {f: [] for f in pxds + pxis}
    k = 0
    for f in pxds:
        stmts = []
        for tgt in rng.sample(pxds, rng.choice([0, 1, 1, 2, 3]) if len(pxds) >= 3 else 1):
            if '/' in tgt:
                form = rng.choice(PKG_FORMS)
            else:
                form = rng.choice(CIMPORT_FORMS)
            if form == 'cimport-list':
                others = [t for t in pxds if '/' not in t and t != tgt]
                if others:
                    t2 = rng.choice(others)
                    stmts.append('cimport %s, %s' % (modname(tgt), modname(t2)))
                    cim[f].append((tgt, form))
                    cim[f].append((t2, form))
                    continue
                form = 'cimport-plain'
            k += 1
            stmts.append(cimport_stmt(form, tgt, k))
            cim[f].append((tgt, form))
        for x in pxis:
            if rng.random() < 0.25:
                stmts.append('include "%s%s"' % ('../' * f.count('/'), x))
                inc[f].append((x, 'include'))
        rng.shuffle(stmts)
        files[f] = pxd_text(f, stmts)
    for xi, x in enumerate(pxis):
        stmts = ['# include file %s' % x]
        if rng.random() < 0.5 and pxds:
            tgt = rng.choice(pxds)
            form = 'cimport-dotted' if '/' in tgt else 'cimport-plain'
            stmts.append(cimport_stmt(form, tgt, 900 + xi))
            cim[x].append((tgt, form))
        for y in pxis[xi + 1:]:
            if rng.random() < 0.3:
                stmts.append('include "%s"' % y)
                inc[x].append((y, 'include'))
        stmts.append('ctypedef int xt_%d' % xi)
        files[x] = '\n'.join(stmts) + '\n'
    if any(f.startswith('pk/') for f in pxds):
        files['pk/__init__.py'] = ''
    if any(f.startswith('pk/sub/') for f in pxds):
        files['pk/sub/__init__.py'] = ''
    return {'files': files, 'cimports': cim, 'includes': inc, 'queries': list(pxds)}


def truth_closure(tree, start):
    """all_dependencies(start) by the documented rule: breadth-first over cimport edges (the cimports of a file are
    its own plus those of the files it transitively includes); every reached file contributes itself, its cimported
    files and its transitively included files."""
    cim, inc = tree['cimports'], tree['includes']

    def includes_star(f):
        seen = []
        todo = [f]
        while todo:
            x = todo.pop()
            for (y, _) in inc.get(x, []):
                if y not in seen:
                    seen.append(y)
                    todo.append(y)
        return seen

    def out(f):
        res = [t for (t, _) in cim.get(f, [])]
        for y in includes_star(f):
            res += [t for (t, _) in cim.get(y, [])]
        base, ext = os.path.splitext(f)
        if ext in ('.pyx', '.py') and base + '.pxd' in tree['files']:
            res.append(base + '.pxd')
        return res

    seen = {start}
    todo = [start]
    deps = set()
    while todo:
        x = todo.pop()
        deps.add(x)
        deps.update(includes_star(x))
        for t in out(x):
            deps.add(t)
            if t not in seen:
                seen.add(t)
                todo.append(t)
    return deps


def edge_forms(tree, start):
    """file -> form by which it is (first) referenced in the closure of start (for mechanism keys)"""
    forms = {}
    for f in truth_closure(tree, start) | {start}:
        for (t, form) in tree['cimports'].get(f, []) + tree['includes'].get(f, []):
            forms.setdefault(t, form)
    return forms


# ------------------------------------------------------------------------------------------ scan trees (part b)
REAL_FORMS_PYX = ['cimport-plain', 'cimport-as', 'cimport-tab', 'cimport-continuation', 'from-module-cimport-name',
                  'from-module-cimport-name-as', 'from-continuation', 'from-module-cimport-paren',
                  'cimport-dotted', 'from-dotted-cimport-name', 'from-pkg-cimport-module',
                  'from-pkg-cimport-module-as', 'from-pkg-cimport-module-comment', 'from-pkg-cimport-module-paren',
                  'from-pkg-cimport-module-paren-multiline', 'after-semicolon', 'IF-true', 'IF-else-taken',
                  'include-dq', 'include-sq', 'include-subdir', 'transitive-cimport', 'transitive-include']
NOT_READ_FORMS = ['IF-false']
HIDDEN_FORMS = ['string-dq', 'string-sq', 'triple-dq-block', 'triple-sq-block', 'comment', 'comment-include',
                'fstring', 'fstring-triple', 'docstring', 'raw-bytes-triple', 'string-include']
DECOYS = ['comment-with-apostrophe', 'string-with-escaped-quote', 'string-with-hash', 'triple-with-quotes',
          'fstring-with-nested-quotes', 'none', 'none']


def hidden_stmt(form, mod, k):
    if form == 'string-dq':
        return 's%d = "cimport %s"' % (k, mod)
    if form == 'string-sq':
        return "s%d = 'from %s cimport t_%s'" % (k, mod, mod)
    if form == 'triple-dq-block':
        return 's%d = """\ncimport %s\nfrom %s cimport t_%s\n"""' % (k, mod, mod, mod)
    if form == 'triple-sq-block':
        return "s%d = '''\ncimport %s\n'''" % (k, mod)
    if form == 'comment':
        return '# cimport %s\n#cimport %s' % (mod, mod)
    if form == 'fstring':
        return 's%d = f"{%d} cimport %s"' % (k, k, mod)
    if form == 'fstring-triple':
        return 's%d = f"""\ncimport %s\n{%d}\ncimport %s\n"""' % (k, mod, k, mod)
    if form == 'docstring':
        return 'def fn%d():\n    """\ncimport %s\n    """\n    return %d' % (k, mod, k)
    if form == 'raw-bytes-triple':
        return "s%d = rb'''\ncimport %s\n'''" % (k, mod)
    raise ValueError(form)


def decoy_stmt(kind, k):
    """tricky but harmless text placed right before a real statement"""
    if kind == 'comment-with-apostrophe':
        return "# it's a comment with one apostrophe"
    if kind == 'string-with-escaped-quote':
        return 'q%d = "a \\" b"' % k
    if kind == 'string-with-hash':
        return "q%d = 'not # a comment'" % k
    if kind == 'triple-with-quotes':
        return 'q%d = """ it\'s "quoted" text """' % k
    if kind == 'fstring-with-nested-quotes':
        return 'q%d = f"{\'x\'!r:>{%d}}"' % (k, k + 2)
    return None


def scan_tree(rng, pure=False):
    """One main module plus candidate dependencies referenced by real / not-read / hidden forms.
    Returns {'files', 'main', 'refs': {relpath: (form, class)}} with class in real / notread / hidden."""
    files = {}
    refs = {}
    body = []
    in_pkg = (not pure) and rng.random() < 0.25
    main = ('pk/main' if in_pkg else 'main') + ('.py' if pure else '.pyx')
    if in_pkg:
        files['pk/__init__.py'] = ''
    n = rng.randint(3, 7)
    need_pk = need_sub = False
    for k in range(n):
        r = rng.random()
        cls = 'real' if r < 0.55 else 'hidden' if r < 0.92 else 'notread'
        if pure:
            form = rng.choice(['pure-from-cimports', 'from-pkg-cimport-module-pure'] if cls == 'real' else
                              ['string-dq', 'triple-dq-block', 'comment', 'fstring', 'docstring'])
            if cls == 'notread':
                cls, form = 'hidden', 'comment'
        elif cls == 'real':
            form = rng.choice(REAL_FORMS_PYX + (['from-pkg-cimport-module-relative', 'relative-from-dotmodule-cimport-name'] * 2 if in_pkg else []))
        elif cls == 'notread':
            form = 'IF-false'
        else:
            form = rng.choice(HIDDEN_FORMS)
        decoy = decoy_stmt(rng.choice(DECOYS), k)
        if decoy and not pure:
            body.append(decoy)
        if form in ('include-dq', 'include-sq', 'include-subdir', 'comment-include', 'string-include'):
            base = os.path.dirname(main)
            rel = os.path.join(base, ('inc/' if form == 'include-subdir' else '') + 'i%d.pxi' % k)
            files[rel] = 'ctypedef int it_%d\n' % k
            name = os.path.relpath(rel, base or '.')
            if form == 'comment-include':
                body.append('# include "%s"' % name)
            elif form == 'string-include':
                body.append('s%d = """\ninclude "%s"\n"""' % (k, name))
            else:
                q = "'" if form == 'include-sq' else '"'
                body.append('include %s%s%s' % (q, name, q))
            refs[rel] = (form, cls)
            continue
        if form in ('transitive-cimport', 'transitive-include'):
            mid, leaf = 'd%d.pxd' % k, ('e%d.pxd' % k if form == 'transitive-cimport' else 'j%d.pxi' % k)
            if form == 'transitive-cimport':
                files[mid] = pxd_text(mid, ['cimport e%d' % k])
                files[leaf] = pxd_text(leaf, [])
            else:
                files[mid] = pxd_text(mid, ['include "j%d.pxi"' % k])
                files[leaf] = 'ctypedef int jt_%d\n' % k
            body.append('cimport d%d' % k)
            refs[mid] = ('cimport-plain', 'real')
            refs[leaf] = (form, 'real')
            continue
        pkg_form = 'pkg' in form or 'dotted' in form or (form.startswith('relative') or form.endswith('-relative'))
        if (form.startswith('relative') or form.endswith('-relative')) or (pkg_form and in_pkg and rng.random() < 0.5) or (form == 'from-pkg-cimport-module-pure'):
            rel = 'pk/d%d.pxd' % k
            need_pk = True
        elif pkg_form:
            rel = 'pk/sub/d%d.pxd' % k if rng.random() < 0.3 else 'pk/d%d.pxd' % k
            need_pk = True
            need_sub = need_sub or rel.startswith('pk/sub/')
        else:
            rel = 'd%d.pxd' % k
        files[rel] = pxd_text(rel, [])
        if cls == 'hidden':
            body.append(hidden_stmt(form, modname(rel), k))
        else:
            body.append(cimport_stmt(form, rel, k))
        refs[rel] = (form, cls)
    if need_pk:
        files['pk/__init__.py'] = ''
    if need_sub:
        files['pk/sub/__init__.py'] = ''
    if rng.random() < 0.3:
        base = os.path.splitext(main)[0]
        files[base + '.pxd'] = '# pxd of the main module\ncdef int main_decl\n' if not pure else '# pxd of the main module\n'
        refs[base + '.pxd'] = ('same-name-pxd', 'real')
    body.append('def run():\n    return 1')
    files[main] = ('# cython: language_level=3\n' if rng.random() < 0.5 else '') + '\n'.join(body) + '\n'
    return {'files': files, 'main': main, 'refs': refs}


# ------------------------------------------------------------------------------------------ rebuild trees (part c)
def rebuild_tree(rng):
    """3-6 modules m<i>.pyx over shared pxds (chains, a cycle), includes and a package; returns the tree with the
    true dependency closure machinery (cimports/includes maps)."""
    nmod = rng.randint(3, 6)
    npxd = rng.randint(2, 4)
    pxds = ['s%d.pxd' % j for j in range(npxd)]
    use_pkg = rng.random() < 0.6
    if use_pkg:
        pxds.append('pk/q0.pxd')
    pxis = ['x0.pxi'] if rng.random() < 0.6 else []
    cim = {}
    inc = {}
    files = {}
    k = 0
    for j, f in enumerate(pxds):
        cim[f] = []
        inc[f] = []
        stmts = []
        if f.startswith('s') and j + 1 < npxd and rng.random() < 0.6:
            stmts.append('cimport s%d' % (j + 1))
            cim[f].append(('s%d.pxd' % (j + 1), 'cimport-plain'))
        if f.startswith('s') and j == npxd - 1 and npxd >= 2 and rng.random() < 0.4:
            stmts.append('cimport s%d' % (npxd - 2))     # a cycle among the last two
            cim[f].append(('s%d.pxd' % (npxd - 2), 'cimport-plain'))
        if pxis and rng.random() < 0.3:
            stmts.append('include "%sx0.pxi"' % ('../' if '/' in f else ''))
            inc[f].append(('x0.pxi', 'include'))
        files[f] = pxd_text(f, stmts)
    for x in pxis:
        cim[x] = []
        inc[x] = []
        files[x] = 'ctypedef int xt_0\n'
    mods = []
    for i in range(nmod):
        f = 'm%d.pyx' % i
        mods.append(f)
        cim[f] = []
        inc[f] = []
        stmts = []
        for tgt in rng.sample(pxds, rng.choice([0, 1, 1, 2])):
            k += 1
            if '/' in tgt:
                form = rng.choice(['cimport-dotted', 'from-dotted-cimport-name', 'from-pkg-cimport-module'])
            else:
                form = rng.choice(['cimport-plain', 'from-module-cimport-name', 'cimport-as'])
            stmts.append(cimport_stmt(form, tgt, k))
            cim[f].append((tgt, form))
        if pxis and rng.random() < 0.3:
            stmts.append('include "x0.pxi"')
            inc[f].append(('x0.pxi', 'include'))
        if rng.random() < 0.25:
            files['m%d.pxd' % i] = '# own pxd\ncdef int own_%d\n' % i
            cim['m%d.pxd' % i] = []
            inc['m%d.pxd' % i] = []
        files[f] = '\n'.join(stmts + ['def f%d():' % i, '    return %d' % i]) + '\n'
    if use_pkg:
        files['pk/__init__.py'] = ''
    return {'files': files, 'cimports': cim, 'includes': inc, 'modules': mods}
